"""Shared goal-programming harness: builds real GoalProgrammingMixin / SinglePassGoalProgrammingMixin
problems from a JSON case, runs them with the real solver and records per-priority snapshots."""
import math
from fractions import Fraction

import casadi as ca
import numpy as np

from . import problems

# model: controls u, v in [-10, 10]; algebraics y = u + p, z = v - u ; p differs per member
BASE_SPEC = {
    "controls": ["u", "v"],
    "algebraics": ["y", "z"],
    "parameters": ["p"],
    "residual": [["-", ["v", "y"], ["+", ["v", "u"], ["v", "p"]]],
                 ["-", ["v", "z"], ["-", ["v", "v"], ["v", "u"]]]],
    "bounds": {"u": [-10, 10], "v": [-10, 10], "y": [-40, 40], "z": [-40, 40]},
}
FUNCS = ["y", "z", "y+z"]          # goal functions
FRANGE = {"y": (-12.0, 12.0), "z": (-20.0, 20.0), "y+z": (-32.0, 32.0), "ny": (-40.0, 40.0), "y-d": (-30.0, 30.0)}


def fnum(x):
    if x is None:
        return float("nan")
    if isinstance(x, str) and x.strip().lstrip("+-") in ("nan", "inf"):
        return float(x)
    return float(Fraction(x))


def spec_for(case):
    s = dict(BASE_SPEC)
    s["times"] = case["times"]
    s["ensemble_size"] = case.get("E", 1)
    s["param_values"] = [{"p": pv} for pv in case.get("p", [0] * s["ensemble_size"])]
    if "probabilities" in case:
        s["probabilities"] = case["probabilities"]
    if case.get("free_alg"):
        # every member gets a degree of freedom of its own: z = v - u + w with a free algebraic w in [-1, 1]
        s["algebraics"] = ["y", "z", "w"]
        s["residual"] = [BASE_SPEC["residual"][0],
                         ["-", ["v", "z"], ["+", ["-", ["v", "v"], ["v", "u"]], ["v", "w"]]]]
        s["bounds"] = dict(BASE_SPEC["bounds"], w=[-1, 1])
    if case.get("aliases"):
        s["aliases"] = case["aliases"]
    if case.get("demand"):
        # a constant input d(t) of the model, the same for all members; the goal function "y-d" reads it
        global _DEMAND
        _DEMAND = [fnum(x) for x in case["demand"]]
        s["constant_inputs"] = ["d"]
        s["constant_input_values"] = [{"d": list(case["demand"])} for _ in range(s["ensemble_size"])]
    return s


_DEMAND = None


def goal_function(fn, op, em, path, t=None):
    def st(name):
        return op.state(name) if path else op.state_at(name, t, em)
    if fn == "y":
        return st("y")
    if fn == "z":
        return st("z")
    if fn == "ny":
        return -st("y")
    if fn == "y-d":
        return st("y") - op.state("d")          # (path goals only)
    return st("y") + st("z")


def goal_value(fn, res, k=None):
    """function value on extracted results; k = time index for point goals, None = whole path"""
    if fn == "y":
        v = res["y"]
    elif fn == "z":
        v = res["z"]
    elif fn == "ny":
        v = -res["y"]
    elif fn == "y-d":
        v = res["y"] - np.array(_DEMAND)
    else:
        v = res["y"] + res["z"]
    return v if k is None else v[k]


def make_goal(gs, times, op=None):
    from rtctools.optimization.goal_programming_mixin_base import Goal, StateGoal
    from rtctools.optimization.timeseries import Timeseries

    path = gs["path"]
    fn = gs["fn"]
    tk = gs.get("k", len(times) - 1)

    if gs.get("state"):
        # a StateGoal on a (possibly aliased) model variable: range, nominal and function key come from the problem
        def tgt0(v):
            if v is None:
                return np.nan
            if isinstance(v, list):
                return Timeseries(np.array(times, dtype=float), np.array([fnum(x) for x in v]))
            return fnum(v)

        class G(StateGoal):
            state = gs["state"]
            target_min = tgt0(gs.get("tmin"))
            target_max = tgt0(gs.get("tmax"))

        g = G(op)
    else:
        class G(Goal):
            def function(self, op, em):
                return goal_function(fn, op, em, path, float(times[tk])) + fnum(gs.get("offset", 0))

        g = G()
    g.priority = gs["prio"]
    g.order = gs.get("order", 2)
    g.weight = fnum(gs.get("weight", 1))
    if not gs.get("state"):
        g.function_nominal = fnum(gs.get("nominal", 1))
    g.relaxation = fnum(gs.get("relax", 0))
    g.critical = gs.get("critical", False)
    if gs.get("fk") and not gs.get("state"):
        g.function_key = gs["fk"]

    def tgt(v):
        if v is None:
            return np.nan
        if isinstance(v, list):
            return Timeseries(np.array(times, dtype=float), np.array([fnum(x) for x in v]))
        return fnum(v)

    g.target_min = tgt(gs.get("tmin"))
    g.target_max = tgt(gs.get("tmax"))
    if (gs.get("tmin") is not None or gs.get("tmax") is not None) and not gs.get("state"):
        if not g.critical or gs.get("range_on_critical"):
            g.function_range = tuple(fnum(x) for x in gs.get("range", FRANGE[fn]))
    g._spec = gs
    return g


def build(case, extra_mixins=(), solver=None, qp=None, expand=None, map_mode=None):
    """returns (problem, snapshots list)"""
    from rtctools.optimization.goal_programming_mixin import GoalProgrammingMixin
    from rtctools.optimization.single_pass_goal_programming_mixin import (
        SinglePassGoalProgrammingMixin, SinglePassMethod)

    variant = case.get("variant", "multi")
    mix = GoalProgrammingMixin if variant.startswith("multi") else SinglePassGoalProgrammingMixin
    Base = problems.make_base(spec_for(case), tuple(extra_mixins) + (mix,))
    times = case["times"]
    snaps = []
    goals_all = []

    class P(Base):
        if not variant.startswith("multi"):
            single_pass_method = (SinglePassMethod.APPEND_CONSTRAINTS_OBJECTIVE if variant == "single_append"
                                  else SinglePassMethod.UPDATE_OBJECTIVE_CONSTRAINT_BOUNDS)

        def goals(self):
            return [g for g in goals_all if not g._spec["path"]]

        def path_goals(self):
            return [g for g in goals_all if g._spec["path"]]

        def goal_programming_options(self):
            o = super().goal_programming_options()
            if variant == "multi_keep_soft":
                o["keep_soft_constraints"] = True
            for k, v in case.get("options", {}).items():
                o[k] = v if isinstance(v, bool) else fnum(v)
            # options that depend on the priority being worked on (the mixins read them per priority)
            cur = getattr(self, "_cur_prio", None)
            for k, v in case.get("options_by_priority", {}).get(str(cur), {}).items():
                o[k] = v if isinstance(v, bool) else fnum(v)
            return o

        def map_options(self):
            o = super().map_options()
            if map_mode is not None:
                o["mode"] = map_mode
            return o

        def solver_options(self):
            o = super().solver_options()
            if expand is not None:
                o["expand"] = expand
            if qp is not None:
                # qp = (plugin name, casadi_solver): a QP back-end through ca.qpsol or CachingQPSol
                o["solver"] = qp[0]
                o["casadi_solver"] = qp[1]
                o.pop("ipopt", None)
                o.update(dict(qp[2]) if len(qp) > 2 else {})
                o["print_time"] = False
            elif solver is not None:
                o["casadi_solver"] = solver
            else:
                o["ipopt"] = dict(o.get("ipopt", {}))
                o["ipopt"].update({"print_level": 0, "tol": 1e-10, "constr_viol_tol": 1e-10,
                                   "acceptable_tol": 1e-10, "sb": "yes"})
                o["print_time"] = False
            return o

        def priority_started(self, priority):
            self._cur_prio = int(priority)
            super().priority_started(priority)
            if snaps:
                snaps[-1]["stores_after"] = read_stores(self, variant)

        def priority_completed(self, priority):
            res = [dict((k, np.array(v, dtype=float)) for k, v in self.extract_results(m).items())
                   for m in range(self.ensemble_size)]
            tp = self.transcribed_problem
            nx_ = tp["nlp"]["x"].shape[0]
            names_ = ["u", "v", "y", "z"] + (["w"] if case.get("free_alg") else []) + [v.name() for v in list(self.path_variables) + list(self.extra_variables)]
            fidx = ca.Function("idx", [self.solver_input],
                               [ca.vertcat(*[self.state_vector(v, m) for m in range(self.ensemble_size) for v in names_])])
            flat = [int(round(float(x))) for x in np.array(fidx(ca.DM(list(range(nx_))))).ravel()]
            indices, pos = {}, 0
            for m in range(self.ensemble_size):
                for v in names_:
                    k = self.state_vector(v, m).shape[0]
                    indices[(v, m)] = flat[pos:pos + k]
                    pos += k
            snaps.append({"priority": int(priority), "results": res, "objective_value": self.objective_value,
                          "indices": indices,
                          "solver_output": np.array(self.solver_output), "stores_before": read_stores(self, variant),
                          "transcribed": tp, "lam": self.lagrange_multipliers})

        def post(self):
            if snaps:
                snaps[-1]["stores_after"] = read_stores(self, variant)

    p = P()
    goals_all[:] = [make_goal(gs, times, p) for gs in case["goals"]]
    return p, snaps, goals_all


def read_stores(p, variant):
    pre = "_GoalProgrammingMixin" if variant.startswith("multi") else "_SinglePassGoalProgrammingMixin"
    from rtctools.optimization.timeseries import Timeseries

    out = []
    for nm in ("__constraint_store", "__path_constraint_store"):
        st = getattr(p, pre + nm)
        per_member = []
        for m in range(p.ensemble_size):
            d = []
            for fk, c in st[m].items():
                lo = c.min.values if isinstance(c.min, Timeseries) else np.array([c.min])
                hi = c.max.values if isinstance(c.max, Timeseries) else np.array([c.max])
                d.append((fk, [float(x) for x in np.ravel(lo)], [float(x) for x in np.ravel(hi)]))
            per_member.append(d)
        out.append(per_member)
    return out


def target_arrays(gs, n_times):
    """per-step target min/max as python floats (NaN = no target) the way _gp_min_max_arrays
    broadcasts them: point goal -> 1 entry, path goal -> n_times entries"""
    n = n_times if gs["path"] else 1

    def arr(v, fill):
        if v is None:
            return [float("nan")] * n
        if isinstance(v, list):
            return [fnum(x) for x in v]
        return [fnum(v)] * n

    return arr(gs.get("tmin"), -math.inf), arr(gs.get("tmax"), math.inf)
