"""Generated Modelica models: spec -> .mo text, and folders with CSV input for the CSV mixins."""
import os
from fractions import Fraction


def num(x):
    f = Fraction(x)
    if f.denominator == 1:
        return "%d.0" % f.numerator
    return repr(float(f))


def ast_mo(e):
    t = e[0]
    if t == "c":
        v = Fraction(e[1])
        s = num(v)
        return "(%s)" % s if v < 0 else s
    if t == "v":
        return e[1]
    if t == "+":
        return "(%s + %s)" % (ast_mo(e[1]), ast_mo(e[2]))
    if t == "-":
        return "(%s - %s)" % (ast_mo(e[1]), ast_mo(e[2]))
    if t == "*":
        return "(%s * %s)" % (ast_mo(e[1]), ast_mo(e[2]))
    if t == "neg":
        return "(-%s)" % ast_mo(e[1])
    raise ValueError(t)


def attrs(d, keys=("start", "fixed", "nominal", "min", "max")):
    parts = []
    for k in keys:
        if k in d and d[k] is not None:
            v = d[k]
            if isinstance(v, bool):
                parts.append("%s=%s" % (k, "true" if v else "false"))
            elif isinstance(v, list):          # an expression (AST)
                parts.append("%s=%s" % (k, ast_mo(v)))
            else:
                parts.append("%s=%s" % (k, num(v)))
    return "(%s)" % ", ".join(parts) if parts else ""


def model_text(spec):
    lines = ["model %s" % spec["name"]]
    for p in spec.get("parameters", []):
        lines.append("  parameter %s %s = %s;" % (p.get("type", "Real"), p["name"], num(p["value"]) if p.get("type", "Real") == "Real" else p["value"]))
    for v in spec.get("states", []) + spec.get("algebraics", []):
        pre = "output " if v["name"] in spec.get("outputs", []) else ""
        lines.append("  %s%s %s%s;" % (pre, v.get("type", "Real"), v["name"], attrs(v)))
    for v in spec.get("inputs", []):
        lines.append("  input %s %s%s;" % (v.get("type", "Real"), v["name"], attrs(v)))
    if spec.get("initial_equations"):
        lines.append("initial equation")
        for lhs, rhs in spec["initial_equations"]:
            lines.append("  %s = %s;" % (ast_mo(lhs), ast_mo(rhs)))
    lines.append("equation")
    for lhs, rhs in spec.get("equations", []):
        lines.append("  %s = %s;" % (ast_mo(lhs), ast_mo(rhs)))
    for name, expr, tau in spec.get("delays", []):
        lines.append("  %s = delay(%s, %s);" % (name, ast_mo(expr), ast_mo(tau) if isinstance(tau, list) else num(tau)))
    lines.append("end %s;" % spec["name"])
    return "\n".join(lines) + "\n"


def write_model(folder, spec):
    os.makedirs(folder, exist_ok=True)
    with open(os.path.join(folder, spec["name"] + ".mo"), "w") as fh:
        fh.write(model_text(spec))


def write_timeseries_csv(path, start, dt_seconds, columns, delimiter=","):
    """columns: name -> list of values (None = empty cell)"""
    import datetime

    names = list(columns)
    n = len(next(iter(columns.values())))
    with open(path, "w") as fh:
        fh.write(delimiter.join(["Time"] + names) + "\n")
        for i in range(n):
            t = start + datetime.timedelta(seconds=dt_seconds * i)
            cells = [t.strftime("%Y-%m-%d %H:%M:%S")]
            for nm in names:
                v = columns[nm][i]
                cells.append("" if v is None else repr(float(Fraction(v))))
            fh.write(delimiter.join(cells) + "\n")


def write_row_csv(path, values, delimiter=","):
    names = list(values)
    with open(path, "w") as fh:
        fh.write(delimiter.join(names) + "\n")
        fh.write(delimiter.join(repr(float(Fraction(values[k]))) for k in names) + "\n")
