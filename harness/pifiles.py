"""Generated PI XML / rtcDataConfig / rtcParameterConfig files and their abstract images."""
import datetime
import os
from fractions import Fraction

T0 = datetime.datetime(2020, 1, 1, 0, 0, 0)
NS = "http://www.wldelft.nl/fews/PI"


def dts(sec):
    return T0 + datetime.timedelta(seconds=int(sec))


def dattr(sec):
    t = dts(sec)
    return 'date="%s" time="%s"' % (t.strftime("%Y-%m-%d"), t.strftime("%H:%M:%S"))


def fstr(v):
    """exact decimal text of a value given as Fraction-string or float"""
    if v is None:
        return None
    return repr(float(Fraction(v)))


def write_data_config(folder, variables, parameters=()):
    """variables: list of dicts {id, location, parameter, qualifiers}"""
    lines = ['<?xml version="1.0" encoding="UTF-8"?>', '<rtcDataConfig xmlns="http://www.wldelft.nl/fews">']
    for v in variables:
        lines.append('  <timeSeries id="%s"><PITimeSeries><locationId>%s</locationId><parameterId>%s</parameterId>%s</PITimeSeries></timeSeries>' % (
            v["id"], v["location"], v["parameter"], "".join("<qualifierId>%s</qualifierId>" % q for q in v.get("qualifiers", []))))
    for p in parameters:
        lines.append('  <parameter id="%s"><PIParameter><modelId>%s</modelId><locationId>%s</locationId><parameterId>%s</parameterId></PIParameter></parameter>' % (
            p["id"], p["model"], p["location"], p["parameter"]))
    lines.append("</rtcDataConfig>")
    with open(os.path.join(folder, "rtcDataConfig.xml"), "w") as fh:
        fh.write("\n".join(lines) + "\n")


def pi_xml(spec):
    """spec: {dt: int|None, timezone, series: [{var (dict as in data config), member, start, end, forecast, times, values (str|None), unit, miss}]}"""
    lines = ['<?xml version="1.0" encoding="UTF-8"?>', '<TimeSeries xmlns="%s" version="1.2">' % NS]
    if spec.get("timezone") is not None:
        lines.append("  <timeZone>%s</timeZone>" % spec["timezone"])
    for s in spec["series"]:
        v = s["var"]
        lines.append("  <series>")
        lines.append("    <header>")
        lines.append("      <type>instantaneous</type>")
        lines.append("      <locationId>%s</locationId>" % v["location"])
        lines.append("      <parameterId>%s</parameterId>" % v["parameter"])
        for q in s.get("qualifier_order", v.get("qualifiers", [])):
            lines.append("      <qualifierId>%s</qualifierId>" % q)
        if s.get("member") is not None:
            lines.append("      <ensembleMemberIndex>%d</ensembleMemberIndex>" % s["member"])
        if spec["dt"]:
            lines.append('      <timeStep unit="second" multiplier="%d"/>' % spec["dt"])
        else:
            lines.append('      <timeStep unit="nonequidistant"/>')
        lines.append("      <startDate %s/>" % dattr(s["start"]))
        lines.append("      <endDate %s/>" % dattr(s["end"]))
        if s.get("forecast") is not None:
            lines.append("      <forecastDate %s/>" % dattr(s["forecast"]))
        lines.append("      <missVal>%s</missVal>" % s.get("miss", "-999.0"))
        lines.append("      <stationName>%s</stationName>" % v["location"])
        lines.append("      <units>%s</units>" % s["unit"])
        lines.append("    </header>")
        for t, val in zip(s["times"], s["values"]):
            lines.append('    <event %s value="%s" flag="0"/>' % (dattr(t), s.get("miss", "-999.0") if val is None else fstr(val)))
        lines.append("  </series>")
    lines.append("</TimeSeries>")
    return "\n".join(lines) + "\n"


def write_pi(folder, basename, spec):
    with open(os.path.join(folder, basename + ".xml"), "w") as fh:
        fh.write(pi_xml(spec))


def parameter_xml(groups):
    """groups: [{id, location, model, parameters: [{id, type, value, description}]}]"""
    lines = ['<?xml version="1.0" encoding="UTF-8"?>', '<parameters xmlns="%s" version="1.5">' % NS]
    for g in groups:
        lines.append('  <group id="%s" name="%s">' % (g["id"], g["id"]))
        if g.get("location") is not None:
            lines.append("    <locationId>%s</locationId>" % g["location"])
        if g.get("model") is not None:
            lines.append("    <model>%s</model>" % g["model"])
        for p in g["parameters"]:
            lines.append('    <parameter id="%s">' % p["id"])
            if p.get("description"):
                lines.append("      <description>%s</description>" % p["description"])
            tag = {"bool": "boolValue", "int": "intValue", "dbl": "dblValue", "str": "stringValue"}[p["type"]]
            lines.append("      <%s>%s</%s>" % (tag, p["text"], tag))
            lines.append("    </parameter>")
        lines.append("  </group>")
    lines.append("</parameters>")
    return "\n".join(lines) + "\n"
