"""Modelica-free problem classes built from a JSON-serialisable spec, on top of the *real* rtc-tools
classes (CollocatedIntegratedOptimizationProblem and the goal-programming / homotopy mixins).

Expression AST (shared by the CasADi builder, the Gallina printer and a pure-Python evaluator):
    ["c", num]            constant (int / Fraction-compatible)
    ["v", name]           variable (state, algebraic, control, constant input, parameter, "time",
                          derivative "der(x)", path/extra variable)
    ["+", a, b] ["-", a, b] ["*", a, b] ["neg", a]
"""
from fractions import Fraction

import casadi as ca
import numpy as np

from .core import gq


# ---- AST ---------------------------------------------------------------------------------------
def ast_casadi(e, sym):
    t = e[0]
    if t == "c":
        return ca.MX(float(Fraction(e[1])))
    if t == "v":
        return sym[e[1]]
    if t == "at":          # ["at", var, k]: variable at collocation time index k
        return sym["__at__"](e[1], e[2])
    if t == "ev":          # ["ev", name]: extra variable
        return sym["__ev__"](e[1])
    if t == "+":
        return ast_casadi(e[1], sym) + ast_casadi(e[2], sym)
    if t == "-":
        return ast_casadi(e[1], sym) - ast_casadi(e[2], sym)
    if t == "*":
        return ast_casadi(e[1], sym) * ast_casadi(e[2], sym)
    if t == "neg":
        return -ast_casadi(e[1], sym)
    raise ValueError(t)


def ast_eval(e, env):
    t = e[0]
    if t == "c":
        return Fraction(e[1])
    if t == "v":
        return env[e[1]]
    if t == "at":
        return env[("at", e[1], e[2])]
    if t == "ev":
        return env[("ev", e[1])]
    if t == "+":
        return ast_eval(e[1], env) + ast_eval(e[2], env)
    if t == "-":
        return ast_eval(e[1], env) - ast_eval(e[2], env)
    if t == "*":
        return ast_eval(e[1], env) * ast_eval(e[2], env)
    if t == "neg":
        return -ast_eval(e[1], env)
    raise ValueError(t)


def ast_gallina(e, var_index):
    """var_index: name -> nat index into the model's environment vector"""
    t = e[0]
    if t == "c":
        return "(EC %s)" % gq(Fraction(e[1]))
    if t == "v":
        return "(EV %d%%nat)" % var_index[e[1]]
    if t == "at":
        return "(EV %d%%nat)" % var_index[("at", e[1], e[2])]
    if t == "ev":
        return "(EV %d%%nat)" % var_index[("ev", e[1])]
    if t == "+":
        return "(EAdd %s %s)" % (ast_gallina(e[1], var_index), ast_gallina(e[2], var_index))
    if t == "-":
        return "(ESub %s %s)" % (ast_gallina(e[1], var_index), ast_gallina(e[2], var_index))
    if t == "*":
        return "(EMul %s %s)" % (ast_gallina(e[1], var_index), ast_gallina(e[2], var_index))
    if t == "neg":
        return "(ENeg %s)" % ast_gallina(e[1], var_index)
    raise ValueError(t)


def ast_vars(e, acc=None):
    acc = set() if acc is None else acc
    if e[0] == "v":
        acc.add(e[1])
    elif e[0] != "c":
        for s in e[1:]:
            ast_vars(s, acc)
    return acc


# ---- problem class -----------------------------------------------------------------------------
def make_base(spec, mixins=()):
    """Returns a class deriving from `mixins` + CollocatedIntegratedOptimizationProblem that
    implements the model described by `spec` (see keys used below)."""
    from pymoca.backends.casadi.alias_relation import AliasRelation

    from rtctools.optimization.collocated_integrated_optimization_problem import (
        CollocatedIntegratedOptimizationProblem,
    )
    from rtctools.optimization.timeseries import Timeseries
    from rtctools._internal.alias_tools import AliasDict

    class Base(CollocatedIntegratedOptimizationProblem):
        def __init__(self, **kwargs):
            s = self._spec = spec
            self._sym = {}
            mk = lambda n: self._sym.setdefault(n, ca.MX.sym(n))  # noqa: E731
            self._mx = {
                "states": [mk(n) for n in s.get("states", [])],
                "derivatives": [mk("der(%s)" % n) for n in s.get("states", [])],
                "algebraics": [mk(n) for n in s.get("algebraics", [])],
                "control_inputs": [mk(n) for n in s.get("controls", [])],
                # (names under "extra_cin" are constant inputs that only the objective / constraints use: they
                #  are not variables of the DAE)
                "constant_inputs": [mk(n) for n in s.get("constant_inputs", []) if n not in s.get("extra_cin", [])],
                "parameters": [mk(n) for n in s.get("parameters", [])],
                "time": [mk("time")],
                "lookup_tables": [],
            }
            # "pw#0", "pw#1", ... are the components of the vector path variable "pw"
            self._vec = {}
            self._path_vars = []
            for n in s.get("path_variables", []):
                if "#" in n:
                    base, k = n.split("#")
                    if base not in self._vec:
                        size = len([x for x in s["path_variables"] if x.startswith(base + "#")])
                        self._vec[base] = ca.MX.sym(base, size)
                        self._path_vars.append(self._vec[base])
                else:
                    self._path_vars.append(mk(n))
            self._extra_vars = [mk(n) for n in s.get("extra_variables", [])]
            for n in s.get("extra_cin", []):
                mk(n)
            self._alias = AliasRelation()
            for a, b in s.get("aliases", []):
                self._alias.add(a, b)
            self._residual = ca.vertcat(*[ast_casadi(e, self._sym) for e in s.get("residual", [])])
            self._initial_residual = ca.vertcat(
                *[ast_casadi(e, self._sym) for e in s.get("initial_residual", [])]
            )
            if self._residual.shape[0] == 0:
                self._residual = ca.MX()
            if self._initial_residual.shape[0] == 0:
                self._initial_residual = ca.MX()
            super().__init__(**kwargs)

        # -- model ------------------------------------------------------------------------------
        @property
        def dae_residual(self):
            return self._residual

        @property
        def dae_variables(self):
            return self._mx

        @property
        def initial_residual(self):
            return self._initial_residual

        @property
        def alias_relation(self):
            return self._alias

        @property
        def path_variables(self):
            return list(self._path_vars)

        @property
        def extra_variables(self):
            return list(self._extra_vars)

        @property
        def output_variables(self):
            return []

        def times(self, variable=None):
            tv = self._spec.get("var_times", {})
            if variable is not None and variable in tv:
                return np.array([fl(x) for x in tv[variable]])
            return np.array([fl(x) for x in self._spec["times"]])

        @property
        def theta(self):
            return float(Fraction(self._spec.get("theta", 1)))

        @property
        def ensemble_size(self):
            return self._spec.get("ensemble_size", 1)

        def ensemble_member_probability(self, m):
            p = self._spec.get("probabilities")
            return float(Fraction(p[m])) if p else 1.0 / self.ensemble_size

        def dynamic_parameters(self):
            return [self._sym[n] for n in self._spec.get("dynamic_parameters", [])]

        def parameters(self, ensemble_member):
            m = ensemble_member
            d = AliasDict(self.alias_relation)
            pv = getattr(self, "_param_override", None) or self._spec.get("param_values", [{}] * self.ensemble_size)
            for k, v in pv[m].items():
                d[k] = float(Fraction(v))
            return d

        def constant_inputs(self, ensemble_member):
            m = ensemble_member
            d = AliasDict(self.alias_relation)
            series = self._spec.get("constant_input_series", [{}] * self.ensemble_size)[m]
            for k, v in self._spec.get("constant_input_values", [{}] * self.ensemble_size)[m].items():
                v = series.get(k, v)            # the series as the user gives it (own time axis)
                ts = v["times"] if isinstance(v, dict) else self._spec["times"]
                vals = v["values"] if isinstance(v, dict) else v
                d[k] = Timeseries(np.array([fl(x) for x in ts]), np.array([fl(x) for x in vals]))
            return d

        def lookup_tables(self, m):
            return AliasDict(self.alias_relation)

        def bounds(self):
            d = AliasDict(self.alias_relation)
            b = self._spec.get("bounds", {})
            for k, (lo, hi) in b.items():
                if "#" not in k:
                    d[k] = (conv_bound(lo, Timeseries), conv_bound(hi, Timeseries))
            def vec(src, comps):
                lo = np.array([fl(src[c][0]) if c in src and src[c][0] is not None else -np.inf for c in comps])
                hi = np.array([fl(src[c][1]) if c in src and src[c][1] is not None else np.inf for c in comps])
                return lo, hi
            for base, sym in self._vec.items():
                comps = ["%s#%d" % (base, i) for i in range(sym.shape[0])]
                if base in self._spec.get("vector_series", []):
                    # one Timeseries with a column per component (values of shape n_times x size)
                    sides = []
                    for k in (0, 1):
                        col = [b[c][k] for c in comps]
                        if all(isinstance(x, dict) for x in col):
                            sides.append(Timeseries(np.array([fl(t) for t in col[0]["times"]]),
                                                    np.column_stack([[fl(x) for x in c_["values"]] for c_ in col])))
                        else:
                            sides.append(np.array([(-np.inf if k == 0 else np.inf) if x is None else fl(x) for x in col]))
                    d[base] = tuple(sides)
                elif any(c in b for c in comps):
                    d[base] = vec(b, comps)         # per-component vector bounds
            # a second source, combined the way users do it: merge_bounds
            b2 = self._spec.get("bounds2", {})
            for k, (lo, hi) in b2.items():
                if "#" in k:
                    continue
                other = (-np.inf if lo is None else fl(lo), np.inf if hi is None else fl(hi))
                mine = d[k] if k in d else (-np.inf, np.inf)
                mine = tuple((-np.inf if i == 0 else np.inf) if x is None else x for i, x in enumerate(mine))
                d[k] = self.merge_bounds(mine, other)
            for base, sym in self._vec.items():
                comps = ["%s#%d" % (base, i) for i in range(sym.shape[0])]
                if any(c in b2 for c in comps):
                    mine = d[base] if base in d else (np.full(len(comps), -np.inf), np.full(len(comps), np.inf))
                    d[base] = self.merge_bounds(mine, vec(b2, comps))
            return d

        @property
        def equidistant(self):
            # what the IO mixins report about their *import* data; says nothing about times()
            return bool(self._spec.get("equidistant", False))

        def history(self, ensemble_member):
            m = ensemble_member
            d = AliasDict(self.alias_relation)
            for k, v in self._spec.get("history", [{}] * self.ensemble_size)[m].items():
                d[k] = Timeseries(np.array([fl(x) for x in v["times"]]),
                                  np.array([fl(x) for x in v["values"]]))
            return d

        def seed(self, m):
            d = AliasDict(self.alias_relation)
            for k, v in self._spec.get("seeds", [{}] * self.ensemble_size)[m].items():
                if isinstance(v, dict):
                    d[k] = Timeseries(np.array([fl(x) for x in v["times"]]), np.array([fl(x) for x in v["values"]]))
                else:
                    d[k] = fl(v)
            return d

        def variable_is_discrete(self, variable):
            return False

        def variable_nominal(self, variable):
            n = self._spec.get("nominals", {})
            if variable in self._vec:
                comps = ["%s#%d" % (variable, i) for i in range(self._vec[variable].shape[0])]
                if any(c in n for c in comps):
                    return np.array([float(Fraction(n.get(c, 1))) for c in comps])
            if variable in n:
                v = n[variable]
                if isinstance(v, list):
                    return np.array([float(Fraction(x)) for x in v])
                return float(Fraction(v))
            return super().variable_nominal(variable)

        def interpolation_method(self, variable=None):
            return self._spec.get("interpolation", {}).get(variable, self.INTERPOLATION_LINEAR)

        def delayed_feedback(self):
            out = []
            for expr, state, duration in self._spec.get("delayed_feedback", []):
                d = ast_casadi(duration, self._sym) if isinstance(duration, list) else fl(duration)
                out.append((ast_casadi(expr, self._sym), state, d))
            return out

        # -- objective and constraints from ASTs ----------------------------------------------------
        def _point_sym(self, m):
            d = dict(self._sym)
            tt = self.times()
            d["__at__"] = lambda var, k: self.state_at(var, float(tt[k]), m)
            d["__ev__"] = lambda name: self.extra_variable(name, m)
            return d

        def _path_sym(self):
            out = {}
            for n in self._spec.get("path_variables", []):
                if "#" in n:
                    base, k = n.split("#")
                    out[n] = self.state(base)[int(k)]
            for n in list(self._sym):
                if n.startswith("der("):
                    out[n] = self.der(n[4:-1])
                elif n == "time":
                    out[n] = self._sym[n]
                else:
                    out[n] = self.state(n)
            for a in self._spec.get("algebraics", []) + self._spec.get("controls", []):
                out["der(%s)" % a] = self.der(a)
            return out

        def objective(self, m):
            base_obj = super().objective(m)
            o = self._spec.get("objective")      # one AST per ensemble member
            if o is None:
                return base_obj
            return base_obj + ast_casadi(o[m], self._point_sym(m))

        def path_objective(self, m):
            base_obj = super().path_objective(m)
            o = self._spec.get("path_objective")
            if o is None:
                return base_obj
            return base_obj + ast_casadi(o, self._path_sym())

        def constraints(self, m):
            cons = super().constraints(m)
            for e, lo, hi in self._spec.get("constraints", [[]] * self.ensemble_size)[m]:
                cons.append((ast_casadi(e, self._point_sym(m)), fl(lo), fl(hi)))
            return cons

        def path_constraints(self, m):
            cons = super().path_constraints(m)
            pcs = self._spec.get("path_constraints", [])
            for e, lo, hi in pcs:
                # a bound given as {"per_member": [...]} differs per ensemble member
                lo_m = lo["per_member"][m] if isinstance(lo, dict) and "per_member" in lo else lo
                hi_m = hi["per_member"][m] if isinstance(hi, dict) and "per_member" in hi else hi
                if isinstance(lo_m, dict) and "grid" in lo_m:
                    lo_m = {"times": self._spec["times"], "values": lo_m["grid"]}
                if isinstance(hi_m, dict) and "grid" in hi_m:
                    hi_m = {"times": self._spec["times"], "values": hi_m["grid"]}
                cons.append((ast_casadi(e, self._path_sym()), conv_bound(lo_m, Timeseries), conv_bound(hi_m, Timeseries)))
            return cons

        def map_options(self):
            return {"mode": "unroll"}

        def pre(self):
            pass

        def post(self):
            pass

    bases = tuple(mixins) + (Base,)
    return type("Problem", bases, {})


def fl(x):
    if x is None:
        return float("nan")
    if isinstance(x, str) and x.strip().lstrip("+-") in ("nan", "inf"):
        return float(x)
    return float(Fraction(x))


def conv_bound(b, Timeseries):
    if b is None:
        return None
    if isinstance(b, dict):
        return Timeseries(np.array([fl(x) for x in b["times"]]), np.array([fl(x) for x in b["values"]]))
    if isinstance(b, list):
        return np.array([fl(x) for x in b])
    return fl(b)


# ---- scripted solver ---------------------------------------------------------------------------
class ScriptedSolver:
    """Stands in for casadi.nlpsol through the public `casadi_solver` option.  Each call returns a
    chosen success flag and a solution vector tagged with the solve counter (clipped to bounds)."""

    def __init__(self, script, log):
        self.script = list(script)
        self.log = log

    def __call__(self, name, solver, nlp, opts):
        outer = self

        class S:
            def __call__(self, x0, lbx, ubx, lbg, ubg):
                k = len(outer.log)
                ok = outer.script[k] if k < len(outer.script) else True
                n = nlp["x"].shape[0]
                x = np.full(n, float(k + 1))
                lb = np.array(lbx).ravel()
                ub = np.array(ubx).ravel()
                x = np.minimum(np.maximum(x, lb), ub)
                outer.log.append({"solve": k, "ok": ok, "n_g": nlp["g"].shape[0]})
                self._ok = ok
                self._k = k
                return {"x": ca.DM(x), "f": ca.DM(float(k + 1)), "lam_g": ca.DM.zeros(nlp["g"].shape[0]),
                        "lam_x": ca.DM.zeros(n)}

            def stats(self):
                # (failures report different IPOPT statuses in turn; every one of them is a failed solve)
                fails = ("Infeasible_Problem_Detected", "Not_Enough_Degrees_Of_Freedom", "Maximum_Iterations_Exceeded", "Restoration_Failed")
                return {"success": self._ok, "return_status": "Solve_Succeeded" if self._ok else fails[self._k % len(fails)]}

        return S()
