"""Shared harness for the transcription properties (C01, C05, C06, C07, C08): generates Modelica-free
problems, observes the real transcribe(), and prints the same problem as a Gallina `problem` record."""
import json
import math
from fractions import Fraction

import casadi as ca
import numpy as np

from . import problems
from .core import gq, glist, gbool
from .problems import ast_gallina

F = Fraction


def fx(x):
    """exact rational of the nearest binary64"""
    return Fraction(float(Fraction(x)))


# ---------------------------------------------------------------------------------------------------
# generation
# ---------------------------------------------------------------------------------------------------
def dy(rng, lo=-8, hi=8, den=(1, 1, 2, 4)):
    return Fraction(rng.randint(lo * 4, hi * 4), 4 * rng.choice(den)) if False else Fraction(rng.randint(lo, hi), rng.choice(den))


def gen_grid(rng, n=None):
    n = n if n is not None else rng.choice([2, 2, 2, 3, 3, 4, 5])
    t = [Fraction(rng.choice([0, 0, 1, -2, 3]), rng.choice([1, 2]))]
    for _ in range(n - 1):
        t.append(t[-1] + Fraction(rng.choice([1, 1, 2, 3, 4, 6]), rng.choice([1, 2, 4])))
    return t


def lin_expr(rng, names, k=3, allow_nonlinear=True):
    """random affine (sometimes bilinear) expression over the given names"""
    e = ["c", str(dy(rng, -3, 3))]
    for _ in range(rng.randint(1, k)):
        v = ["v", rng.choice(names)]
        term = ["*", ["c", str(dy(rng, -3, 3, (1, 2)))], v]
        if allow_nonlinear and rng.random() < 0.15:
            term = ["*", term, ["v", rng.choice(names)]]
        e = [rng.choice(["+", "-"]), e, term]
    return e


def gen_spec(rng, feat):
    ns = rng.choice([0, 1, 1, 2])
    na = rng.choice([0, 1, 1, 2])
    nc = rng.choice([0, 1, 1, 2])
    if ns + na == 0:
        na = 1
    ncin = rng.choice([0, 0, 1, 2])
    npar = rng.choice([0, 1, 2])
    E = rng.choice([1, 1, 2, 3])
    times = gen_grid(rng)
    n = len(times)
    states = ["x%d" % i for i in range(ns)]
    algs = ["y%d" % i for i in range(na)]
    ctls = ["u%d" % i for i in range(nc)]
    cins = ["c%d" % i for i in range(ncin)]
    pars = ["p%d" % i for i in range(npar)]
    coll = states + algs + ctls
    names = coll + cins + pars + ["time"]
    ders = ["der(%s)" % s for s in states]
    spec = {"times": [str(t) for t in times], "states": states, "algebraics": algs, "controls": ctls,
            "constant_inputs": cins, "parameters": pars, "ensemble_size": E,
            "theta": str(rng.choice([1, 1, 0, F(1, 2), F(1, 4), F(3, 4)]))}
    res = []
    for s in states:
        res.append(["-", ["v", "der(%s)" % s], lin_expr(rng, names + (ders if rng.random() < 0.1 else []))])
    for a in algs:
        res.append(["-", ["v", a], lin_expr(rng, [x for x in names if x != a] or names)])
    spec["residual"] = res
    if rng.random() < 0.3 and states:
        spec["initial_residual"] = [["-", ["v", states[0]], ["c", str(dy(rng))]]]
    else:
        spec["initial_residual"] = []
    if feat.get("nominals", True):
        spec["nominals"] = {v: str(rng.choice([1, 1, 2, F(1, 4), 10, F(3, 8), 100])) for v in coll if rng.random() < 0.6}
    spec["param_values"] = []
    for m in range(E):
        pv = {}
        for p in pars:
            r = rng.random()
            pv[p] = str(0 if r < 0.2 else 1 if r < 0.4 else dy(rng))
        spec["param_values"].append(pv)
    if E > 1 and pars and rng.random() < 0.3:
        for m in range(1, E):       # coinciding values
            spec["param_values"][m][pars[0]] = spec["param_values"][0][pars[0]]
    if E > 1 and pars and rng.random() < 0.25:
        # nearly equal values (relative difference 4e-6): still different members
        base = F(rng.choice([1000, 100000, 250]))
        for m in range(E):
            spec["param_values"][m][pars[-1]] = str(base + base * m * F(4, 10 ** 6))
    spec["constant_input_values"] = [{c: [str(dy(rng)) for _ in range(n)] for c in cins} for _ in range(E)]
    if E > 1 and rng.random() < 0.5:
        spec["probabilities"] = [str(F(1, E + 1))] * (E - 1) + [str(1 - F(E - 1, E + 1))]
    # controls on their own coarser grid
    if feat.get("own_grid", True) and ctls and n >= 3 and rng.random() < 0.35:
        c = rng.choice(ctls)
        keep = [0] + sorted(rng.sample(range(1, n - 1), rng.randint(0, n - 2))) + [n - 1]
        if len(keep) < n:
            spec["var_times"] = {c: [str(times[k]) for k in keep]}
            spec["interpolation"] = {c: rng.choice([0, 1, 2])}
    pvs, evs = [], []
    if feat.get("pvars"):
        if rng.random() < 0.5:
            pvs.append("ps")
        if rng.random() < 0.5:
            pvs += ["pw#%d" % i for i in range(rng.choice([2, 3]))]
        evs = ["e%d" % i for i in range(rng.choice([0, 1, 1, 2]))]
        spec["path_variables"], spec["extra_variables"] = pvs, evs
        for v in pvs + evs:
            if rng.random() < 0.6:
                spec.setdefault("nominals", {})[v] = str(rng.choice([1, 2, F(1, 4), 10, 100]))
    if feat.get("modes"):
        # interpolation method of a variable applies to its history as well
        for v in coll:
            if rng.random() < 0.35:
                spec.setdefault("interpolation", {})[v] = rng.choice([1, 2])
    if feat.get("bounds"):
        b = {}
        for v in pvs + evs:
            if rng.random() < 0.25:
                continue
            lo = None if rng.random() < 0.2 else str(-abs(dy(rng, 1, 9)))
            hi = None if rng.random() < 0.2 else str(abs(dy(rng, 1, 9)))
            if v == "ps" and rng.random() < 0.3:
                lo = {"times": [str(t) for t in times], "values": [str(-abs(dy(rng, 1, 9))) for _ in times]}
            b[v] = [lo, hi]
        for v in coll:
            r = rng.random()
            if r < 0.2:
                continue
            vt = [F(t) for t in spec.get("var_times", {}).get(v, spec["times"])]

            def one(sign):
                r2 = rng.random()
                base = sign * abs(dy(rng, 1, 9))
                if r2 < 0.15:
                    return None
                if r2 < 0.25:
                    return "inf" if sign > 0 else "-inf"
                if r2 < 0.65:
                    return str(base)
                # Timeseries on its own stamps, possibly shorter than the horizon
                k0 = rng.choice([0, 0, 1]) if len(vt) > 2 else 0
                k1 = len(vt) - rng.choice([0, 0, 1]) if len(vt) - k0 > 2 else len(vt)
                tt = vt[k0:k1]
                if len(tt) >= 2 and rng.random() < 0.3:
                    tt = [tt[0] - F(1, 2)] + tt[1:]
                return {"times": [str(t) for t in tt], "values": [str(base + dy(rng, 0, 2)) for _ in tt]}
            b[v] = [one(-1), one(+1)]
        spec["bounds"] = b
        # a second source of (scalar) bounds for some variables: the intersection applies
        b2 = {}
        for v in list(b):
            lo, hi = b[v]
            if isinstance(lo, dict) or isinstance(hi, dict) or rng.random() < 0.6:
                continue
            b2[v] = [None if rng.random() < 0.3 else str(-abs(dy(rng, 1, 9))), None if rng.random() < 0.3 else str(abs(dy(rng, 1, 9)))]
        comps = [v for v in b if "#" in v]
        if comps and rng.random() < 0.7:
            for v in [x for x in pvs if "#" in x]:
                b2[v] = [str(-abs(dy(rng, 1, 9))), str(abs(dy(rng, 1, 9)))]
        if b2:
            spec["bounds2"] = b2
    elif feat.get("pvars"):
        spec.setdefault("bounds", {})
    if feat.get("history"):
        hs = []
        for m in range(E):
            h = {}
            for v in coll:
                r = rng.random()
                if r < 0.35:
                    continue
                t0 = times[0]
                k = rng.choice([1, 1, 2, 3])
                ht = [t0 - F(k - 1 - i) * F(rng.choice([1, 2]), 2) for i in range(k)]
                ht = sorted(set(ht))
                ht[-1] = t0
                vals = [str(dy(rng)) for _ in ht]
                if v in states and rng.random() < 0.25:
                    vals[-1] = "nan"
                if v in states and len(vals) > 1 and rng.random() < 0.15:
                    vals[-2] = "nan"
                if len(vals) > 2 and rng.random() < 0.25:
                    vals[0] = "nan"             # a gap further back: the last two points still give the slope
                h[v] = {"times": [str(t) for t in ht], "values": vals}
            hs.append(h)
        spec["history"] = hs
    if feat.get("objective"):
        spec["objective"] = []
        for m in range(E):
            e = ["c", "0"]
            for _ in range(rng.randint(1, 3)):
                e = ["+", e, ["*", ["c", str(dy(rng, -3, 3))], ["at", rng.choice(coll), rng.randrange(n)]]]
            if rng.random() < 0.3:
                e = ["+", e, ["*", ["at", coll[0], n - 1], ["at", coll[0], n - 1]]]
            spec["objective"].append(e)
            if evs and rng.random() < 0.6:
                e = ["+", e, ["*", ["c", str(dy(rng, -3, 3))], ["ev", rng.choice(evs)]]]
                spec["objective"][-1] = e
        if rng.random() < 0.7:
            spec["path_objective"] = lin_expr(rng, coll + cins + pars + ders + pvs + evs + (["der(%s)" % a for a in algs + ctls] if rng.random() < 0.5 else []))
    if feat.get("path"):
        pcs = []
        for _ in range(rng.randint(0, 2)):
            e = lin_expr(rng, coll + cins + pars + pvs + evs + (ders if rng.random() < 0.4 else []))
            pcs.append([e] + gen_con_bounds(rng, times, E))
        spec["path_constraints"] = pcs
        cons = []
        for m in range(E):
            cm = []
            for _ in range(rng.randint(0, 2)):
                e = ["+", ["at", rng.choice(coll), rng.randrange(n)], ["*", ["c", str(dy(rng, -2, 2))], ["at", rng.choice(coll), rng.randrange(n)]]]
                lo = rng.choice(["-inf", str(-abs(dy(rng)))])
                hi = rng.choice(["inf", str(abs(dy(rng)))])
                if evs and rng.random() < 0.4:
                    e = ["+", e, ["ev", rng.choice(evs)]]
                cm.append([e, lo, hi])
            cons.append(cm)
        spec["constraints"] = cons
    late_features(spec, feat)
    return spec


def late_features(spec, feat):
    """features added after the main generation; they draw from a generator seeded by the spec itself, so the
    main random stream (and with it every case generated so far) is unchanged"""
    import random
    r2 = random.Random(json.dumps(spec, sort_keys=True, default=str))
    if feat.get("bounds"):
        # a bound series with as many stamps as the variable's grid and the same first and last stamp, but
        # other stamps in between: it is interpolated, not copied
        for v, b in spec.get("bounds", {}).items():
            vt = [F(t) for t in spec.get("var_times", {}).get(v, spec["times"])]
            for side in b:
                if isinstance(side, dict) and "times" in side and len(side["times"]) == len(vt) >= 3 and \
                        F(side["times"][0]) == vt[0] and F(side["times"][-1]) == vt[-1] and r2.random() < 0.6:
                    side["times"] = [str(vt[0])] + [str(vt[i] + (vt[i + 1] - vt[i]) * F(r2.randint(1, 3), 4)) for i in range(1, len(vt) - 1)] + [str(vt[-1])]
    comps = [v for v in spec.get("path_variables", []) if "#" in v]
    if feat.get("bounds") and feat.get("pvars") and comps and r2.random() < 0.5:
        # the vector path variable bounded by one Timeseries with a column per component
        tt = list(spec["times"]) if r2.random() < 0.6 else [str(F(t) - F(1, 4)) for t in spec["times"][:1]] + list(spec["times"][1:])
        b = spec.setdefault("bounds", {})
        for c in comps:
            b.setdefault(c, [None, None])
            b[c] = [b[c][0] if not isinstance(b[c][0], dict) else None, b[c][1] if not isinstance(b[c][1], dict) else None]
        for side, sign in ((0, -1), (1, 1)):
            if r2.random() < 0.75:
                for c in comps:
                    b[c][side] = {"times": tt, "values": [str(sign * abs(dy(r2, 1, 9)) + dy(r2, 0, 2)) for _ in tt]}
        spec["vector_series"] = [comps[0].split("#")[0]]
        for c in comps:
            spec.get("bounds2", {}).pop(c, None)
    pvs = spec.get("path_variables", [])
    if feat.get("pvars") and "ps" in pvs and len(pvs) > 1 and r2.random() < 0.5:
        # the vector path variable in front of the scalar one
        spec["path_variables"] = [v for v in pvs if v != "ps"] + ["ps"]
    ctls = spec.get("controls", [])
    n = len(spec["times"])
    if feat.get("own_grid_late") and ctls and n >= 3 and not spec.get("var_times") and r2.random() < 0.35:
        c = r2.choice(ctls)
        keep = [0] + sorted(r2.sample(range(1, n - 1), r2.randint(0, n - 2))) + [n - 1]
        if len(keep) < n:
            spec["var_times"] = {c: [spec["times"][k] for k in keep]}
            spec.setdefault("interpolation", {})[c] = r2.choice([0, 1, 2])
            for side in (spec.get("bounds", {}).get(c) or []):
                if isinstance(side, dict) and "times" in side:       # keep series bounds on stamps of the new grid
                    kk = [i for i, t in enumerate(side["times"]) if t in spec["var_times"][c]]
                    if len(kk) >= 2:
                        side["times"], side["values"] = [side["times"][i] for i in kk], [side["values"][i] for i in kk]
    if feat.get("seeds"):
        # seeds in physical units: series on the variable's own stamps, plain numbers for extra / path variables
        coll = spec.get("states", []) + spec.get("algebraics", []) + ctls
        seeds = []
        for m in range(spec["ensemble_size"]):
            sd = {}
            for v in coll:
                if r2.random() < 0.5:
                    vt = spec.get("var_times", {}).get(v, spec["times"])
                    sd[v] = {"times": list(vt), "values": [str(dy(r2)) for _ in vt]}
            for v in spec.get("extra_variables", []) + [x for x in spec.get("path_variables", []) if "#" not in x]:
                if r2.random() < 0.7:
                    sd[v] = str(dy(r2, 1, 8))
            for v in ctls:           # controls are shared by the members (no control tree): one seed for all
                if seeds and v in seeds[0]:
                    sd[v] = seeds[0][v]
                elif seeds:
                    sd.pop(v, None)
            seeds.append(sd)
        spec["seeds"] = seeds
    times_q = [F(t) for t in spec["times"]]
    if feat.get("cin_axis") and spec.get("constant_inputs") and n >= 3 and r2.random() < 0.5:
        # a constant input given on an axis of its own: as many stamps as the grid, the same first and last
        # stamp, other stamps in between (linear interpolation onto the grid, exact in rationals)
        c = r2.choice(spec["constant_inputs"])
        axis = [times_q[0]] + [times_q[i] + (times_q[i + 1] - times_q[i]) * F(r2.randint(1, 3), 4) for i in range(1, n - 1)] + [times_q[-1]]
        ser = []
        for m in range(spec["ensemble_size"]):
            vals = [dy(r2) for _ in axis]
            grid = []
            for t in times_q:
                j = max(i for i in range(n) if axis[i] <= t)
                if axis[j] == t or j == n - 1:
                    grid.append(vals[j])
                else:
                    w = (t - axis[j]) / (axis[j + 1] - axis[j])
                    grid.append(vals[j] + (vals[j + 1] - vals[j]) * w)
            spec["constant_input_values"][m][c] = [str(x) for x in grid]
            ser.append({c: {"times": [str(t) for t in axis], "values": [str(x) for x in vals]}})
        spec["constant_input_series"] = ser
    if feat.get("extra_cin") and (spec.get("path_objective") is not None or spec.get("path_constraints")):
        # a constant input that is no variable of the model, with its own values per member, used by the
        # path objective / a path constraint only
        spec["constant_inputs"] = list(spec.get("constant_inputs", [])) + ["k0"]
        spec["extra_cin"] = ["k0"]
        for m in range(spec["ensemble_size"]):
            spec["constant_input_values"][m]["k0"] = [str(dy(r2) + 10 * m) for _ in range(n)]
        if spec.get("path_objective") is not None:
            spec["path_objective"] = ["+", spec["path_objective"], ["*", ["c", str(dy(r2, 1, 3))], ["v", "k0"]]]
        if spec.get("path_constraints"):
            spec["path_constraints"][0][0] = ["+", spec["path_constraints"][0][0], ["v", "k0"]]
    if feat.get("equidistant_flag") and r2.random() < 0.5:
        # what an I/O mixin reports about its (equidistant) import data; says nothing about the grids used here
        spec["equidistant"] = True
    pars = spec.get("parameters", [])
    if feat.get("retranscribe") and pars and r2.random() < 0.5:
        # parameters declared dynamic: the problem is transcribed once with other values, then again with
        # param_values; the second transcription must be the discretisation for the current values
        spec["dynamic_parameters"] = sorted(r2.sample(pars, r2.randint(1, len(pars))))
        first = []
        for m in range(spec["ensemble_size"]):
            first.append({p: str(F(spec["param_values"][m][p]) + (dy(r2, 1, 5) if p in spec["dynamic_parameters"] else 0)) for p in pars})
        spec["first_param_values"] = first


def gen_con_bounds(rng, times, E):
    def one(sign):
        r = rng.random()
        base = sign * abs(dy(rng, 1, 9))
        if r < 0.2:
            return "inf" if sign > 0 else "-inf"
        if r < 0.55:
            return str(base)
        if r < 0.7:
            k0 = rng.choice([0, 0, 1]) if len(times) > 2 else 0
            tt = times[k0:]
            return {"times": [str(t) for t in tt], "values": [str(base + dy(rng, 0, 2)) for _ in tt]}
        if r < 0.8:
            # as many stamps as collocation times, but other stamps (e.g. one history sample in front)
            d = (times[1] - times[0]) * F(rng.choice([1, 2, 3]), 4)
            tt = [times[0] - d] + [t - (times[1] - times[0]) * F(1, 4) for t in times[1:]]
            return {"times": [str(t) for t in tt], "values": [str(base + dy(rng, 0, 3)) for _ in tt]}
        return {"per_member": [str(base + m) for m in range(E)]}
    return [one(-1), one(+1)]


# ---------------------------------------------------------------------------------------------------
# implementation side
# ---------------------------------------------------------------------------------------------------
def observe(spec, probes=2, rng=None, mixins=()):
    P = problems.make_base(spec, mixins)
    p = P()
    if spec.get("first_param_values"):
        p._param_override = spec["first_param_values"]
        p.transcribe()
        p._param_override = None
    discrete, lbx, ubx, lbg, ubg, x0, nlp = p.transcribe()
    nx = nlp["x"].shape[0]
    gf = ca.Function("gf", [nlp["x"]], [nlp["g"], nlp["f"]])
    Xs = []
    outs = []
    for k in range(probes):
        X = [Fraction(rng.randint(-12, 12), rng.choice([1, 2, 4])) for _ in range(nx)]
        g, f = gf(ca.DM([float(x) for x in X]))
        Xs.append(X)
        outs.append(([float(v) for v in np.array(g).ravel()], float(f)))
    lbg_f = [float(v) for v in np.array(ca.veccat(*lbg)).ravel()] if len(lbg) else []
    ubg_f = [float(v) for v in np.array(ca.veccat(*ubg)).ravel()] if len(ubg) else []
    # layout through the public API
    lnames = layout_entries(spec)
    idx = ca.Function("idx", [nlp["x"]], [ca.vertcat(*[p.state_vector(v, m)[off] for m in range(p.ensemble_size)
                                                      for v, off in lnames])] if lnames else [ca.MX(0)])
    lay = [int(round(float(v))) for v in np.array(idx(ca.DM(list(range(nx))))).ravel()] if lnames else []
    return {"p": p, "nx": nx, "lbx": [float(v) for v in lbx], "ubx": [float(v) for v in ubx],
            "lbg": lbg_f, "ubg": ubg_f, "X": Xs, "gf": outs, "layout": [nx] + lay,
            "x0": [float(v) for v in np.array(x0).ravel()]}


def layout_entries(spec):
    """(name, offset into its state vector) of the first entry of every scalar variable; the
    components of a vector path variable follow each other, each with one entry per time"""
    coll = spec.get("states", []) + spec.get("algebraics", []) + spec.get("controls", [])
    n = len(spec["times"])
    out = [(v, 0) for v in coll]
    for nm in spec.get("path_variables", []):
        if "#" in nm:
            base, k = nm.split("#")
            out.append((base, int(k) * n))
        else:
            out.append((nm, 0))
    out += [(v, 0) for v in spec.get("extra_variables", [])]
    out += [("initial_der(%s)" % s, 0) for s in spec.get("states", [])]
    return out


def layout_names(spec):
    coll = spec.get("states", []) + spec.get("algebraics", []) + spec.get("controls", [])
    pvs = []
    for n in spec.get("path_variables", []):       # the components of a vector variable are one name
        base = n.split("#")[0]
        if base not in pvs:
            pvs.append(base)
    return coll + pvs + spec.get("extra_variables", []) + \
        ["initial_der(%s)" % s for s in spec.get("states", [])]


# ---------------------------------------------------------------------------------------------------
# model side
# ---------------------------------------------------------------------------------------------------
def gxs(v):
    """bound / value strings -> Xq literal"""
    if v is None:
        return None
    s = str(v)
    if s == "nan":
        return "XNaN"
    if s == "inf":
        return "XPInf"
    if s == "-inf":
        return "XNInf"
    return "(XFin %s)" % gq(fx(F(s)))


def gbspec(b, m=None):
    if b is None:
        return "BNone"
    if isinstance(b, dict) and "per_member" in b:
        return gbspec(b["per_member"][m])
    if isinstance(b, dict) and "grid" in b:
        return "(BGrid %s)" % glist(b["grid"], gxs)
    if isinstance(b, dict):
        return "(BSeries %s %s)" % (glist(b["times"], lambda t: gq(fx(F(t)))), glist(b["values"], lambda t: gq(fx(F(t)))))
    return "(BScalar %s)" % gxs(b)


MODES = {0: "Linear", 1: "Forward", 2: "Backward"}


def effective_bounds(spec):
    """bounds after intersecting the two (scalar) sources"""
    b = {k: list(v) for k, v in spec.get("bounds", {}).items()}
    for v, (lo2, hi2) in spec.get("bounds2", {}).items():
        lo, hi = b.get(v, [None, None])

        def val(x, dflt):
            return dflt if x is None or str(x) in ("inf", "-inf") else F(x)
        los = [val(x, None) for x in (lo, lo2)]
        his = [val(x, None) for x in (hi, hi2)]
        los = [x for x in los if x is not None]
        his = [x for x in his if x is not None]
        b[v] = [str(max(los)) if los else None, str(min(his)) if his else None]
    return b


def problem_term(spec):
    states, algs, ctls = spec.get("states", []), spec.get("algebraics", []), spec.get("controls", [])
    coll = states + algs + ctls
    pvs, evs = spec.get("path_variables", []), spec.get("extra_variables", [])
    E = spec.get("ensemble_size", 1)
    times = spec["times"]
    vt = spec.get("var_times", {})
    noms = spec.get("nominals", {})
    q = lambda x: gq(fx(F(x)))  # noqa: E731
    bounds = effective_bounds(spec)
    hist = spec.get("history", [{}] * E)

    def ghist(h):
        if h is None:
            return "None"
        return "(Some {| h_times := %s; h_vals := %s |})" % (glist(h["times"], q), glist(h["values"], gxs))

    probs = spec.get("probabilities") or [str(F(1, E))] * E
    fields = [
        "times := %s" % glist(times, q),
        "theta := %s" % q(spec.get("theta", 1)),
        "nE := %d%%nat" % E, "ns := %d%%nat" % len(states), "na := %d%%nat" % len(algs), "nc := %d%%nat" % len(ctls),
        "npv := %d%%nat" % len(pvs), "nev := %d%%nat" % len(evs),
        "vtimes := %s" % glist(coll, lambda v: glist(vt.get(v, times), q)),
        "vmode := %s" % glist(coll, lambda v: MODES[spec.get("interpolation", {}).get(v, 0)]),
        "nom := %s" % glist(coll, lambda v: q(noms.get(v, 1))),
        "nom_pv := %s" % glist(pvs, lambda v: q(noms.get(v, 1))),
        "nom_ev := %s" % glist(evs, lambda v: q(noms.get(v, 1))),
        "cin := %s" % glist(range(E), lambda m: glist(spec.get("constant_inputs", []), lambda c: glist(spec["constant_input_values"][m][c], q))),
        "par := %s" % glist(range(E), lambda m: glist(spec.get("parameters", []), lambda pn: q(spec["param_values"][m][pn]))),
        "prob := %s" % glist(probs, q),
        "lower := %s" % glist(coll, lambda v: gbspec(bounds.get(v, [None, None])[0])),
        "upper := %s" % glist(coll, lambda v: gbspec(bounds.get(v, [None, None])[1])),
        "lower_pv := %s" % glist(pvs, lambda v: gbspec(bounds.get(v, [None, None])[0])),
        "upper_pv := %s" % glist(pvs, lambda v: gbspec(bounds.get(v, [None, None])[1])),
        "lower_ev := %s" % glist(evs, lambda v: gbspec(bounds.get(v, [None, None])[0])),
        "upper_ev := %s" % glist(evs, lambda v: gbspec(bounds.get(v, [None, None])[1])),
        "history := %s" % glist(range(E), lambda m: glist(coll, lambda v: ghist(hist[m].get(v)))),
    ]
    return "{| " + "; ".join(fields) + " |}"


def env_index(spec, path=False):
    states, algs, ctls = spec.get("states", []), spec.get("algebraics", []), spec.get("controls", [])
    coll = states + algs + ctls
    idx = {}
    k = 0
    for v in coll:
        idx[v] = k
        k += 1
    for v in coll:
        idx["der(%s)" % v] = k
        k += 1
    for c in spec.get("constant_inputs", []):
        idx[c] = k
        k += 1
    for pn in spec.get("parameters", []):
        idx[pn] = k
        k += 1
    idx["time"] = k
    k += 1
    if path:
        for v in spec.get("path_variables", []):
            idx[v] = k
            k += 1
        for v in spec.get("extra_variables", []):
            idx[v] = k
            k += 1
    return idx


def grid_index(spec):
    states, algs, ctls = spec.get("states", []), spec.get("algebraics", []), spec.get("controls", [])
    coll = states + algs + ctls
    n = len(spec["times"])
    idx = {}
    for j, v in enumerate(coll):
        for k in range(n):
            idx[("at", v, k)] = j * n + k
    for k, v in enumerate(spec.get("extra_variables", [])):
        idx[("ev", v)] = len(coll) * n + k
    return idx


def eval_term(spec, Xs):
    """list Z: layout ++ x-bounds ++ g-bounds ++ for each probe: g rows ++ f"""
    E = spec.get("ensemble_size", 1)
    ei = env_index(spec)
    pi = env_index(spec, path=True)
    gi = grid_index(spec)
    res = glist(spec.get("residual", []), lambda e: ast_gallina(e, ei))
    res0 = glist(spec.get("initial_residual", []), lambda e: ast_gallina(e, ei))
    pobj = spec.get("path_objective")
    pcs = spec.get("path_constraints", [])
    pobj_t = ast_gallina(pobj, pi) if pobj is not None else "(EC 0)"
    pcon_t = glist(pcs, lambda c: ast_gallina(c[0], pi))
    obj = spec.get("objective")
    obj_t = glist(obj, lambda e: ast_gallina(e, gi)) if obj else glist([["c", "0"]] * E, lambda e: ast_gallina(e, gi))
    cons = spec.get("constraints", [[] for _ in range(E)])
    pc_t = glist(cons, lambda cm: glist(cm, lambda c: ast_gallina(c[0], gi)))
    pb_t = glist(cons, lambda cm: glist(cm, lambda c: "(%s, %s)" % (gxs(c[1]), gxs(c[2]))))
    pathb_t = glist(range(E), lambda m: glist(pcs, lambda c: "(%s, %s)" % (gbspec(c[1], m), gbspec(c[2], m))))
    q = lambda x: gq(fx(F(x)))  # noqa: E731
    P = problem_term(spec)
    t = ("let P := %s in\n"
         "   let F := F_of %s in let F0 := F_of %s in\n"
         "   let PO := PathObj_of %s in let PC := PathCon_of %s in\n"
         "   layout P ++ ser_bounds (x_bounds P) ++ ser_bounds (g_bounds P %d %d %s %s) ++\n"
         "   flat_map (fun X => ser_ql (g_rows F F0 PC P (PointCon_of %s P) %d X) ++\n"
         "                     ser_q (objective PO %s P (Obj_of %s P) X)) %s"
         % (P, res, res0, pobj_t, pcon_t, len(spec.get("residual", [])), len(spec.get("initial_residual", [])),
            pb_t, pathb_t, pc_t, len(pcs), gbool(pobj is not None), obj_t,
            glist(Xs, lambda X: glist(X, q))))
    return t


# ---------------------------------------------------------------------------------------------------
def decode(ser, n_layout, n_probes):
    it = iter(ser)
    lay = [next(it) for _ in range(n_layout)]

    def rdx():
        tag = next(it)
        if tag == 0:
            return float("nan")
        if tag == 1:
            return float("-inf")
        if tag == 2:
            return float("inf")
        a = next(it)
        b = next(it)
        return Fraction(a, b)

    def rdb():
        k = next(it)
        return [(rdx(), rdx()) for _ in range(k)]

    xb = rdb()
    gb = rdb()
    probes = []
    for _ in range(n_probes):
        k = next(it)
        rows = []
        for _ in range(k):
            a = next(it)
            b = next(it)
            rows.append(Fraction(a, b))
        a = next(it)
        b = next(it)
        probes.append((rows, Fraction(a, b)))
    return lay, xb, gb, probes


def close(a, b, tol=1e-9):
    a = float(a)
    b = float(b)
    if math.isnan(a) or math.isnan(b):
        return math.isnan(a) and math.isnan(b)
    if math.isinf(a) or math.isinf(b):
        return a == b
    return abs(a - b) <= tol * (1 + max(abs(a), abs(b)))


def compare(obs, model):
    """returns a list of (what, detail) differences between implementation and model observables"""
    lay, xb, gb, probes = model
    diffs = []
    if obs["layout"] != lay:
        diffs.append(("layout", {"impl": obs["layout"], "model": lay}))
    if len(xb) != obs["nx"]:
        diffs.append(("x-size", {"impl": obs["nx"], "model": len(xb)}))
    else:
        for i, ((lo, hi), a, b) in enumerate(zip(xb, obs["lbx"], obs["ubx"])):
            if not close(lo, a) or not close(hi, b):
                diffs.append(("x-bounds", {"index": i, "impl": [a, b], "model": [str(lo), str(hi)]}))
                break
    if len(gb) != len(obs["lbg"]):
        diffs.append(("g-size", {"impl": len(obs["lbg"]), "model": len(gb)}))
    else:
        for i, ((lo, hi), a, b) in enumerate(zip(gb, obs["lbg"], obs["ubg"])):
            if not close(lo, a) or not close(hi, b):
                diffs.append(("g-bounds", {"row": i, "impl": [a, b], "model": [str(lo), str(hi)]}))
                break
    for k, ((rows, f), (g_impl, f_impl)) in enumerate(zip(probes, obs["gf"])):
        if len(rows) != len(g_impl):
            diffs.append(("g-rows-count", {"impl": len(g_impl), "model": len(rows)}))
            break
        for i, (a, b) in enumerate(zip(rows, g_impl)):
            if not close(a, b, 1e-8):
                diffs.append(("g-row", {"probe": k, "row": i, "impl": b, "model": str(a)}))
                break
        if not close(f, f_impl, 1e-8):
            diffs.append(("objective", {"probe": k, "impl": f_impl, "model": str(f)}))
    return diffs
