"""Core of the /verif check machinery: Coq build, case evaluation, evidence, findings.

Everything here is property independent.  A property module (harness/props/cXX.py) provides

    ID            = "C13"
    PROPS_FILE    = "props/C13.v"           (relative to /verif/coq)
    def run(ctx): ...                        (generate cases, run impl + model, compare)

and uses `ctx` (a Ctx instance) to evaluate Gallina terms, record cases and report violations.
"""
import hashlib
import json
import os
import random
import re
import shutil
import subprocess
import sys
import time
import traceback
from fractions import Fraction

VERIF = os.path.dirname(os.path.dirname(os.path.abspath(__file__)))
COQ = os.path.join(VERIF, "coq")
REPO = os.environ.get("VERIF_REPO", "/repo")
CASES_DIR = os.path.join(COQ, "cases")
EVIDENCE_DIR = os.path.join(VERIF, "evidence")
REPLAY_DIR = os.path.join(VERIF, "replays")
CORPUS_DIR = os.path.join(VERIF, "corpus")
FINDINGS_FILE = os.path.join(VERIF, "known_findings.json")
COQ_FLAGS = ["-Q", "theories", "RT", "-Q", "proofs", "RT", "-Q", "props", "RT"]
FORBIDDEN = re.compile(
    r"\b(Admitted|admit|Axiom|Axioms|Parameter|Parameters|Conjecture|Conjectures|"
    r"Admit Obligations|bypass_check|give_up)\b|Unset\s+Guard|Unset\s+Positivity|"
    r"Unset\s+Universe\s+Checking|type-in-type|impredicative-set|native_compute"
)
TRUSTED_BASE_COMMON = [
    "Coq 8.16.1 kernel incl. the vm_compute reduction machine (no native_compute)",
    "hand-written Gallina model tied to /repo by the correspondence check of this run "
    "(generators, Gallina literal printer, canonicaliser in /verif/harness)",
    "CPython 3.12 / numpy / casadi executing the implementation side",
]


class CheckError(Exception):
    pass


def sh(cmd, timeout, cwd=None, env=None):
    p = subprocess.run(
        cmd, cwd=cwd, env=env, stdout=subprocess.PIPE, stderr=subprocess.STDOUT, timeout=timeout
    )
    return p.returncode, p.stdout.decode("utf-8", "replace")


# ------------------------------------------------------------------------------------------------
# Coq side
# ------------------------------------------------------------------------------------------------


def grep_gate():
    """Refuse to run if the development contains anything that would weaken the kernel's verdict."""
    bad = []
    for sub in ("theories", "proofs", "props"):
        d = os.path.join(COQ, sub)
        for root, _, files in os.walk(d):
            for f in files:
                if not f.endswith(".v"):
                    continue
                p = os.path.join(root, f)
                txt = strip_coq_comments(open(p).read())
                for m in FORBIDDEN.finditer(txt):
                    bad.append("%s: %s" % (p, m.group(0)))
    return bad


def strip_coq_comments(s):
    out = []
    depth = 0
    i = 0
    n = len(s)
    while i < n:
        if s.startswith("(*", i):
            depth += 1
            i += 2
        elif s.startswith("*)", i) and depth > 0:
            depth -= 1
            i += 2
        else:
            if depth == 0:
                out.append(s[i])
            i += 1
    return "".join(out)


def ensure_makefile():
    mk = os.path.join(COQ, "Makefile")
    proj = os.path.join(COQ, "_CoqProject")
    files = []
    for sub in ("theories", "proofs", "props"):
        d = os.path.join(COQ, sub)
        if os.path.isdir(d):
            for root, _, fs in os.walk(d):
                for f in sorted(fs):
                    if f.endswith(".v"):
                        files.append(os.path.relpath(os.path.join(root, f), COQ))
    files.sort()
    content = "-Q theories RT\n-Q proofs RT\n-Q props RT\n" + "\n".join(files) + "\n"
    old = open(proj).read() if os.path.exists(proj) else None
    if old != content or not os.path.exists(mk):
        with open(proj, "w") as fh:
            fh.write(content)
        rc, out = sh(["coq_makefile", "-f", "_CoqProject", "-o", "Makefile"], 120, cwd=COQ)
        if rc != 0:
            raise CheckError("coq_makefile failed:\n" + out)


def make(targets=None, jobs=16, timeout=1800):
    """Full .vo build (never -vos).  Returns (ok, log)."""
    import fcntl

    os.makedirs(COQ, exist_ok=True)
    with open(os.path.join(COQ, ".build.lock"), "w") as lock:
        fcntl.flock(lock, fcntl.LOCK_EX)
        ensure_makefile()
        cmd = ["timeout", str(timeout), "make", "-j%d" % jobs]
        if targets:
            cmd += targets
        rc, out = sh(cmd, timeout + 30, cwd=COQ)
    return rc == 0, out


def coqc_file(path, timeout=600):
    """Compile one .v (relative to COQ) capturing its output."""
    cmd = ["timeout", str(timeout), "coqc"] + COQ_FLAGS + [path]
    t = time.time()
    rc, out = sh(cmd, timeout + 30, cwd=COQ)
    return rc, out, time.time() - t


def parse_assumptions(out, names):
    """Split the output of the `Print Assumptions` commands of a props file.

    The props files print `(*PA name*)` markers through `Check`-free idiom: we rely on order:
    each Print Assumptions produces either 'Closed under the global context' or an 'Axioms:' block.
    """
    blocks = re.split(r"(?=Closed under the global context|Axioms:)", out)
    blocks = [b for b in blocks if b.startswith("Closed") or b.startswith("Axioms:")]
    res = {}
    for name, b in zip(names, blocks):
        if b.startswith("Closed"):
            res[name] = []
        else:
            axs = re.findall(r"^([A-Za-z_][\w.']*)\s*:", b, flags=re.M)
            res[name] = [a for a in axs if a != "Axioms"]
    return res, len(blocks)


def theorem_names(props_path):
    txt = strip_coq_comments(open(os.path.join(COQ, props_path)).read())
    thms = re.findall(r"^\s*(?:Theorem|Example)\s+([\w']+)", txt, flags=re.M)
    pas = re.findall(r"Print Assumptions\s+([\w']+)", txt)
    return thms, pas


_tok = re.compile(r"\[|\]|-?\d+")


def parse_nested(out):
    """Parse the `= [[1; -2]; [3]] : list (list Z)` answer of Eval vm_compute into python lists."""
    m = re.search(r"=\s*(\[.*\])\s*:\s*list", out, flags=re.S)
    if not m:
        raise CheckError("cannot find vm_compute answer in coqc output:\n" + out[-2000:])
    stack = [[]]
    for t in _tok.findall(m.group(1)):
        if t == "[":
            stack.append([])
        elif t == "]":
            top = stack.pop()
            stack[-1].append(top)
        else:
            stack[-1].append(int(t))
    if len(stack) != 1 or len(stack[0]) != 1:
        raise CheckError("unbalanced vm_compute answer")
    return stack[0][0]


def eval_terms(tag, imports, terms, typ="list Z", shard=400, timeout=600, prelude=""):
    """Evaluate Gallina terms (strings of type `typ`, by default `list Z`) with vm_compute.

    One generated file per shard of cases; shards run in parallel.  Returns the parsed values.
    """
    os.makedirs(CASES_DIR, exist_ok=True)
    jobs = []
    for s in range(0, len(terms), shard):
        chunk = terms[s : s + shard]
        name = "cases_%s_%d" % (tag, s // shard)
        path = os.path.join(CASES_DIR, name + ".v")
        with open(path, "w") as fh:
            fh.write("From Coq Require Import ZArith QArith List String.\n")
            fh.write("From RT Require Import %s.\n" % " ".join(imports))
            fh.write("Import ListNotations.\nOpen Scope Z_scope.\n")
            fh.write(prelude + "\n")
            fh.write("Definition the_cases : list (%s) := [\n" % typ)
            fh.write(";\n".join("  (%s)" % t for t in chunk))
            fh.write("\n].\nEval vm_compute in the_cases.\n")
        jobs.append((name, len(chunk)))
    procs = []
    results = {}
    maxpar = 14
    pending = list(jobs)
    running = []
    while pending or running:
        while pending and len(running) < maxpar:
            name, n = pending.pop(0)
            cmd = (
                ["timeout", str(timeout), "coqc"]
                + COQ_FLAGS
                + ["-Q", "cases", "RTcases", "cases/%s.v" % name]
            )
            p = subprocess.Popen(
                cmd, cwd=COQ, stdout=subprocess.PIPE, stderr=subprocess.STDOUT
            )
            running.append((name, n, p))
        name, n, p = running.pop(0)
        out = p.communicate()[0].decode("utf-8", "replace")
        if p.returncode != 0:
            raise CheckError("coqc failed on generated %s.v:\n%s" % (name, out[-3000:]))
        vals = parse_nested(out)
        if len(vals) != n:
            raise CheckError("%s: expected %d answers, got %d" % (name, n, len(vals)))
        results[name] = vals
        for ext in (".vo", ".vok", ".vos", ".glob", ".v"):
            try:
                os.remove(os.path.join(CASES_DIR, name + ext))
            except OSError:
                pass
        try:
            os.remove(os.path.join(CASES_DIR, "." + name + ".aux"))
        except OSError:
            pass
    del procs
    out = []
    for name, n in jobs:
        out.extend(results[name])
    return out


# ------------------------------------------------------------------------------------------------
# Gallina literal printers
# ------------------------------------------------------------------------------------------------


def gz(n):
    n = int(n)
    return "(%d)" % n if n < 0 else "%d" % n


def gnat(n):
    assert n >= 0
    return "%d%%nat" % n


def gq(x):
    """Fraction / int / float -> Gallina Q literal (exact)."""
    f = Fraction(x)
    return "(%s # %d)" % (gz(f.numerator), f.denominator)


def gbool(b):
    return "true" if b else "false"


def glist(xs, f=lambda x: x):
    return "[" + "; ".join(f(x) for x in xs) + "]"


def goption(x, f):
    return "None" if x is None else "(Some %s)" % f(x)


def gxq(x):
    """python float / Fraction / None -> Xq literal."""
    import math

    if isinstance(x, float):
        if math.isnan(x):
            return "XNaN"
        if math.isinf(x):
            return "XPInf" if x > 0 else "XNInf"
    return "(XFin %s)" % gq(x)


def unq(pair):
    return Fraction(pair[0], pair[1])


# ------------------------------------------------------------------------------------------------
# Findings
# ------------------------------------------------------------------------------------------------


def load_findings():
    if not os.path.exists(FINDINGS_FILE):
        return []
    return json.load(open(FINDINGS_FILE)).get("findings", [])


# ------------------------------------------------------------------------------------------------
# Context handed to property modules
# ------------------------------------------------------------------------------------------------


class Ctx:
    def __init__(self, pid, tier, seed):
        self.pid = pid
        self.tier = tier
        self.seed = seed
        self.rng = random.Random(seed * 1000003 + int(hashlib.sha1(pid.encode()).hexdigest()[:8], 16))
        self.t0 = time.time()
        self.evaluations = 0
        self.nontrivial_shapes = set()
        self.samples = []
        self.distribution = {}
        self.violations = []  # (signature, replay_path, no_input)
        self.known_hits = []
        self.extra = {}
        self.runtime_samples = 0
        self.assumptions = []
        self.findings = [f for f in load_findings() if f.get("property") == pid]

    # -- bookkeeping -------------------------------------------------------------------------
    def count(self, key, n=1):
        self.distribution[key] = self.distribution.get(key, 0) + n

    def case_done(self, shape=None, nontrivial=True):
        self.evaluations += 1
        if nontrivial and shape is not None:
            self.nontrivial_shapes.add(shape if isinstance(shape, str) else json.dumps(shape, sort_keys=True, default=str))

    def sample(self, obj):
        if len(self.samples) < 3:
            self.samples.append(obj)

    def quick(self):
        return self.tier == "quick"

    def n(self, quick, thorough):
        return quick if self.tier == "quick" else thorough

    # -- violations --------------------------------------------------------------------------
    def violation(self, signature, replay_obj, no_input=False, what=""):
        """Report a violation unless it is a listed open finding (matched by signature)."""
        for f in self.findings:
            if f.get("status") == "open" and f.get("signature") == signature:
                if f["id"] not in [k["id"] for k in self.known_hits]:
                    self.known_hits.append(f)
                return
        for v in self.violations:
            if v[0] == signature:
                return  # one replay per signature
        d = os.path.join(REPLAY_DIR, self.pid)
        os.makedirs(d, exist_ok=True)
        h = hashlib.sha1(json.dumps(replay_obj, sort_keys=True, default=str).encode()).hexdigest()[:10]
        path = os.path.join(d, "%s_%s.json" % (re.sub(r"[^\w.-]+", "_", signature)[:60], h))
        with open(path, "w") as fh:
            json.dump(
                {"property": self.pid, "signature": signature, "what": what,
                 "no_failing_input_found": no_input, "seed": self.seed, "tier": self.tier,
                 "replay": replay_obj},
                fh, indent=1, default=str)
        self.violations.append((signature, path, no_input, what))


def fingerprint(obj):
    """Abstract numeric literals to classes so that 'distinct shapes' can be counted."""
    import math

    def cls(x):
        if isinstance(x, bool):
            return x
        if isinstance(x, (int, float, Fraction)):
            if isinstance(x, float) and math.isnan(x):
                return "nan"
            if isinstance(x, float) and math.isinf(x):
                return "+inf" if x > 0 else "-inf"
            if x == 0:
                return "0"
            if x == 1:
                return "1"
            fr = Fraction(x)
            s = "neg" if fr < 0 else "pos"
            return s + ("int" if fr.denominator == 1 else "frac")
        if isinstance(x, (list, tuple)):
            return [cls(y) for y in x]
        if isinstance(x, dict):
            return {k: cls(v) for k, v in sorted(x.items())}
        return x

    return json.dumps(cls(obj), sort_keys=True, default=str)


# ------------------------------------------------------------------------------------------------
# Driver
# ------------------------------------------------------------------------------------------------


def write_evidence(ctx, mod, proof_info, wall):
    os.makedirs(EVIDENCE_DIR, exist_ok=True)
    tb = list(TRUSTED_BASE_COMMON) + list(getattr(mod, "TRUSTED_BASE", []))
    axioms = sorted({a for axs in proof_info.get("assumptions", {}).values() for a in axs})
    tb.append("axioms reported by Print Assumptions for this property's theorems: "
              + (", ".join(axioms) if axioms else "none (Closed under the global context)"))
    cov = {
        "obligations": proof_info.get("obligations", 0),
        "discharged": proof_info.get("discharged", 0),
        "checker_cmd": proof_info.get("checker_cmd", ""),
        "trusted_base": tb,
        "theorems": proof_info.get("theorems", []),
        "print_assumptions": proof_info.get("assumptions", {}),
        "evaluations": ctx.evaluations,
        "distinct_nontrivial": len(ctx.nontrivial_shapes),
        "rule": getattr(mod, "RULE", ""),
        "samples": ctx.samples if ctx.samples else [{"note": "no correspondence case ran"}],
        "input_distribution": ctx.distribution,
        "runtime_samples": ctx.runtime_samples,
        "known_findings_hit": [f["id"] for f in ctx.known_hits],
        "modelled_code": getattr(mod, "MODELLED", ""),
        "not_modelled": getattr(mod, "NOT_MODELLED", ""),
    }
    cov.update(ctx.extra)
    ev = {
        "property_id": ctx.pid,
        "tier": ctx.tier,
        "seed": ctx.seed,
        "level": "proof",
        "coverage": cov,
        "assumptions": list(getattr(mod, "ASSUMPTIONS", [])) + ctx.assumptions,
        "wall_s": round(wall, 2),
        "violations": len(ctx.violations),
    }
    with open(os.path.join(EVIDENCE_DIR, ctx.pid + ".json"), "w") as fh:
        json.dump(ev, fh, indent=1, default=str)


def check_proofs(ctx, mod):
    """Build the development and re-check this property's theorem file.  Returns proof_info."""
    info = {"obligations": 0, "discharged": 0, "assumptions": {}, "theorems": []}
    props = mod.PROPS_FILE
    info["checker_cmd"] = "cd /verif/coq && make -j16 && coqc %s %s" % (" ".join(COQ_FLAGS), props)
    bad = grep_gate()
    if bad:
        ctx.violation("proof/forbidden-construct", {"theorem_file": props, "found": bad}, no_input=True,
                      what="forbidden construct in the Coq development: " + "; ".join(bad[:5]))
        return info, False
    thms, pas = theorem_names(props)
    info["theorems"] = thms
    info["obligations"] = len(thms)
    missing = [t for t in thms if t not in pas]
    ok, log = make()
    if not ok:
        m = re.findall(r'File "([^"]+)", line (\d+)', log)
        ctx.violation("proof/build-failed", {"failing": m[-3:], "log_tail": log[-3000:], "theorem_file": props},
                      no_input=True, what="Coq development does not build: %s" % (m[-1:] or "?"))
        return info, False
    rc, out, dt = coqc_file(props)
    if rc != 0:
        ctx.violation("proof/props-failed", {"theorem_file": props, "log_tail": out[-3000:]}, no_input=True,
                      what="theorem file %s no longer checks" % props)
        return info, False
    ass, nblocks = parse_assumptions(out, pas)
    info["assumptions"] = ass
    if missing or nblocks != len(pas):
        ctx.violation("proof/assumptions-missing", {"theorem_file": props, "missing": missing}, no_input=True,
                      what="Print Assumptions missing for %s" % missing)
        return info, False
    info["discharged"] = len(thms)
    info["props_coqc_s"] = round(dt, 2)
    return info, True


def run_check(mod, tier, seed):
    pid = mod.ID
    ctx = Ctx(pid, tier, seed)
    t0 = time.time()
    proof_info = {"obligations": 0, "discharged": 0}
    try:
        proof_info, ok = check_proofs(ctx, mod)
        # The model files are needed for the correspondence check even if a proof broke: try to
        # build at least the theories (make -k) and continue.
        if not ok:
            make(["-k"] + ["theories/%s.vo" % m for m in getattr(mod, "MODEL_FILES", [])])
        # corpus first
        try:
            mod.run(ctx)
        except CheckError as e:
            ctx.violation("harness/check-error", {"error": str(e)[-3000:]}, no_input=True,
                          what="correspondence machinery could not run: " + str(e)[:200])
    except Exception:
        tb = traceback.format_exc()
        ctx.violation("harness/exception", {"traceback": tb[-4000:]}, no_input=True,
                      what="check crashed: " + tb.strip().splitlines()[-1][:200])
    wall = time.time() - t0
    write_evidence(ctx, mod, proof_info, wall)
    for f in ctx.known_hits:
        print("KNOWN-FINDING: property=%s %s" % (pid, f.get("what_fails", f["id"])))
    for sig, path, no_input, what in ctx.violations:
        print("# %s: %s" % (sig, what))
        print("VIOLATION property=%s replay=%s%s" % (pid, path, " no-failing-input-found" if no_input else ""))
    print("%s %s tier=%s seed=%d evaluations=%d distinct=%d theorems=%d/%d wall=%.1fs" % (
        pid, "FAIL" if ctx.violations else "ok", tier, seed, ctx.evaluations, len(ctx.nontrivial_shapes),
        proof_info.get("discharged", 0), proof_info.get("obligations", 0), wall))
    sys.stdout.flush()
    return 1 if ctx.violations else 0


def impl_env():
    env = dict(os.environ)
    env["PYTHONPATH"] = os.path.join(REPO, "src")
    env["PYTHONHASHSEED"] = "0"
    env["OMP_NUM_THREADS"] = "1"
    return env


def shrink(case, candidates, mismatch_batch, rounds=12):
    """Greedy batch shrinking: `candidates(case)` yields smaller cases, `mismatch_batch(list)`
    says for each whether the disagreement persists (one coqc call per round)."""
    for _ in range(rounds):
        cands = list(candidates(case))[:200]
        if not cands:
            break
        try:
            flags = mismatch_batch(cands)
        except Exception:
            break
        nxt = None
        for c, f in zip(cands, flags):
            if f:
                nxt = c
                break
        if nxt is None:
            break
        case = nxt
    return case


def corpus_cases(pid):
    d = os.path.join(CORPUS_DIR, pid)
    out = []
    if os.path.isdir(d):
        for f in sorted(os.listdir(d)):
            if f.endswith(".json"):
                out.append(json.load(open(os.path.join(d, f))))
    return out
