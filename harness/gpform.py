"""The *documented* goal-programming subproblem of one priority, written down independently of
rtc-tools as a tr-spec (harness/tr.py): minimise sum weight*eps^order (target goals) +
weight*(f/nominal)^order (minimisation goals), over time for path goals and over members weighted by
probability, subject to the model, this priority's soft constraints with 0 <= eps <= 1, and the
constraints retained from earlier priorities (bounds taken from the constraint store, which C02
ties to Goals.v)."""
import math
from fractions import Fraction

from . import gp

F = Fraction


def fstr(x):
    if isinstance(x, str):
        return x
    x = float(x)
    if math.isnan(x):
        return "nan"
    if math.isinf(x):
        return "inf" if x > 0 else "-inf"
    return str(Fraction(x))


def fn_ast_path(fn):
    if fn == "y":
        return ["v", "y"]
    if fn == "z":
        return ["v", "z"]
    return ["+", ["v", "y"], ["v", "z"]]


def fn_ast_point(fn, k):
    if fn == "y":
        return ["at", "y", k]
    if fn == "z":
        return ["at", "z", k]
    return ["+", ["at", "y", k], ["at", "z", k]]


def power(e, order):
    out = e
    for _ in range(order - 1):
        out = ["*", out, e]
    return out


def subproblem_spec(case, prio_index, stores, keep=None):
    """stores: (point_store, path_store) snapshots [member] -> list of (fk, lo[], hi[]) in insertion
    order, as they are when this priority is transcribed.  Returns (spec, info)."""
    times = case["times"]
    n = len(times)
    E = case.get("E", 1)
    prios = sorted({int(F(str(g["prio"]))) for g in case["goals"]})
    pr = prios[prio_index]
    point = [g for g in case["goals"] if int(F(str(g["prio"]))) == pr and not g["path"]]
    path = [g for g in case["goals"] if int(F(str(g["prio"]))) == pr and g["path"]]
    spec = dict(gp.spec_for(case))
    spec["times"] = [str(t) for t in times]
    spec["states"] = []
    spec["initial_residual"] = []
    spec["theta"] = "1"
    spec["nominals"] = {}
    spec["constant_inputs"] = []
    cin_vals = [dict() for _ in range(E)]
    path_vars, extra_vars = [], []
    bounds = dict(spec["bounds"])
    pobj = ["c", "0"]
    obj = [["c", "0"] for _ in range(E)]
    pcons = []
    cons = [[] for _ in range(E)]
    terms = []        # structured objective: (kind, index info, weight, order, nominal)

    # ---- retained constraints (store) come first ----
    point_store, path_store = stores
    for m in range(E):
        for fk, lo, hi in point_store[m]:
            g0 = find_goal_by_fk(case, fk, False, prios[:prio_index + 1])
            e = ["*", ["c", str(1 / F(str(g0.get("nominal", 1))))], fn_ast_point(g0["fn"], g0.get("k", n - 1))]
            cons[m].append([e, fstr(lo[0]), fstr(hi[0])])
    if E > 0 and path_store[0]:
        for idx, (fk, lo, hi) in enumerate(path_store[0]):
            g0 = find_goal_by_fk(case, fk, True, prios[:prio_index + 1])
            e = ["*", ["c", str(1 / F(str(g0.get("nominal", 1))))], fn_ast_path(g0["fn"])]
            lo_m = {"per_member": [{"grid": [fstr(x) for x in path_store[m][idx][1]]} for m in range(E)]}
            hi_m = {"per_member": [{"grid": [fstr(x) for x in path_store[m][idx][2]]} for m in range(E)]}
            pcons.append([e, lo_m, hi_m])

    # ---- this priority's goals ----
    def add_cin(name, vals):
        spec["constant_inputs"].append(name)
        for m in range(E):
            cin_vals[m][name] = [fstr(v) for v in vals]

    for j, g in enumerate(path):
        nom = F(str(g.get("nominal", 1)))
        w = F(str(g.get("weight", 1)))
        order = g.get("order", 2)
        f = fn_ast_path(g["fn"])
        if g.get("critical"):
            continue
        if g.get("tmin") is None and g.get("tmax") is None:
            pobj = ["+", pobj, ["*", ["c", str(w)], power(["*", ["c", str(1 / nom)], f], order)]]
            terms.append(("path_min", g, w, order, nom))
            continue
        eps = "path_eps_%d_%d" % (prio_index, j)
        path_vars.append(eps)
        bounds[eps] = ["0", "1"]
        pobj = ["+", pobj, ["*", ["c", str(w)], power(["v", eps], order)]]
        terms.append(("path_eps", eps, w, order, None))
        lo, hi = g.get("range", gp.FRANGE[g["fn"]])
        tm, tM = gp.target_arrays(g, n)
        for side, tv, bound, lb, ub in (("min", tm, lo, "0", "inf"), ("max", tM, hi, "-inf", "0")):
            if (g.get("tmin") if side == "min" else g.get("tmax")) is None:
                continue
            tname = "path_%s_%d_%d" % (side, prio_index, j)
            aname = "act_%s_%d_%d" % (side, prio_index, j)
            add_cin(tname, [t if math.isfinite(t) else 0.0 for t in tv])
            add_cin(aname, [1.0 if math.isfinite(t) else 0.0 for t in tv])
            row = ["*", ["v", aname], ["*", ["c", str(1 / nom)],
                   ["-", ["-", f, ["*", ["v", eps], ["-", ["c", fstr(bound)], ["v", tname]]]], ["v", tname]]]]
            pcons.append([row, lb, ub])
    for j, g in enumerate(point):
        nom = F(str(g.get("nominal", 1)))
        w = F(str(g.get("weight", 1)))
        order = g.get("order", 2)
        k = g.get("k", n - 1)
        if g.get("critical"):
            continue
        if g.get("tmin") is None and g.get("tmax") is None:
            for m in range(E):
                obj[m] = ["+", obj[m], ["*", ["c", str(w)], power(["*", ["c", str(1 / nom)], fn_ast_point(g["fn"], k)], order)]]
            terms.append(("point_min", g, w, order, nom))
            continue
        eps = "eps_%d_%d" % (prio_index, j)
        extra_vars.append(eps)
        bounds[eps] = ["0", "1"]
        for m in range(E):
            obj[m] = ["+", obj[m], ["*", ["c", str(w)], power(["ev", eps], order)]]
        terms.append(("point_eps", eps, w, order, None))
        lo, hi = g.get("range", gp.FRANGE[g["fn"]])
        for side, t, bound, lb, ub in (("min", g.get("tmin"), lo, "0", "inf"), ("max", g.get("tmax"), hi, "-inf", "0")):
            if t is None:
                continue
            t = gp.fnum(t)
            row = ["*", ["c", str(1 / nom)],
                   ["-", ["-", fn_ast_point(g["fn"], k), ["*", ["ev", eps], ["-", ["c", fstr(bound)], ["c", fstr(t)]]]], ["c", fstr(t)]]]
            for m in range(E):
                cons[m].append([row, lb, ub])
    spec["constant_input_values"] = cin_vals
    spec["path_variables"] = path_vars
    spec["extra_variables"] = extra_vars
    spec["bounds"] = bounds
    spec["objective"] = obj
    spec["path_objective"] = pobj
    spec["path_constraints"] = pcons
    spec["constraints"] = cons
    if "probabilities" not in spec:
        spec["probabilities"] = [str(F(1, E))] * E
    return spec, {"terms": terms, "point": point, "path": path}


def find_goal_by_fk(case, fk, is_path, prios_upto):
    """the goal whose function defines the stored constraint `fk`"""
    named = [g for g in case["goals"] if g.get("fk") == fk and g["path"] == is_path]
    if named:
        return named[0]
    # anonymous keys are "G_<n>": goals get their key in the order get_function_key is first called
    raise KeyError(fk)
