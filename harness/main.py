import argparse
import fcntl
import importlib
import os
import sys

import logging

from . import core

logging.getLogger("rtctools").setLevel(logging.CRITICAL + 1)
logging.disable(logging.CRITICAL)


def main():
    ap = argparse.ArgumentParser()
    ap.add_argument("pid", nargs="?")
    ap.add_argument("--setup", action="store_true")
    ap.add_argument("--tier", default=os.environ.get("VERIF_TIER", "quick"))
    ap.add_argument("--seed", type=int, default=int(os.environ.get("VERIF_SEED", "1")))
    ap.add_argument("--replay")
    a = ap.parse_args()
    if a.setup:
        bad = core.grep_gate()
        if bad:
            print("forbidden constructs:", bad)
            sys.exit(1)
        ok, log = core.make()
        print(log[-3000:])
        sys.exit(0 if ok else 1)
    mod = importlib.import_module("harness.props." + a.pid.lower())
    if a.replay:
        os.environ["VERIF_REPLAY"] = a.replay
    sys.exit(core.run_check(mod, a.tier, a.seed))


if __name__ == "__main__":
    main()
