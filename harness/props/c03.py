"""C03 — each priority solves exactly the documented subproblem, to optimality."""
import json
import math
import os
from fractions import Fraction

import casadi as ca
import numpy as np

from .. import core, gp, gpform, tr, trcheck
from ..core import gq, glist, gz
from . import c02

ID = "C03"
PROPS_FILE = "props/C03.v"
MODEL_FILES = ["Xq", "Interp", "Expr", "Transcribe", "KktCert", "KktGlue"]
RULE = ("real multi-priority runs (IPOPT) on generated linear models and goal sets (target / minimisation / "
        "critical goals, point / path, shared function keys, NaN-gap Timeseries targets, weights, orders 1-2, "
        "1-2 members with unequal data); at every priority (i) the transcribed NLP (f, g, lbg, ubg, lbx, ubx at "
        "two rational decision vectors) is compared with the documented subproblem built independently "
        "(gpform.py) and evaluated by the Gallina transcription model, and (ii) the solver's point and "
        "multipliers are run through the verified certificate checker (KktCert.check_cert) on the "
        "independently built convex QP, which bounds the distance of the reported objective value from the "
        "optimum. non-trivial = priority index >= 1 (retained constraints present) or >= 2 goals; "
        "distinct = abstracted (case, priority) shapes"
        ' Also: the constraint store after each priority against the documented (f* + relaxation)/nominal + constraint_relaxation for minimisation goals; the retained, probability-weighted priority objective on later solutions of keep_soft / single-pass trade-off runs; vector goal vs its scalar goals (scale_by_problem_size); ensembles with member-dependent point goals.')
MODELLED = ("goal_programming_mixin_base.py _gp_goal_constraints / _gp_objective / _gp_path_objective; "
            "goal_programming_mixin.py objective(), path_objective(), constraints(), path_constraints(), bounds() "
            "for the multi-pass variant; transcription as in C01/C06")
NOT_MODELLED = ("keep_soft_constraints / single-pass objective constraints and scale_by_problem_size in the formulation "
                "check (their optimal values are compared in C17); orders > 2 and nonlinear goal functions in the "
                "certificate checker; IPOPT itself")
ASSUMPTIONS = ["the certificate bounds the optimality gap exactly in rational arithmetic on the rational images of the floats"]


def gen_case(rng):
    c = c02.gen_run(rng)
    c["variant"] = "multi"
    c["options"] = {}
    if rng.random() < 0.4:
        # several members and a point (non-path) target goal: the goal function depends on the member
        c["E"] = 2
        c["p"] = [0, "1/2"]
        tg = [g for g in c["goals"] if g.get("tmin") is not None or g.get("tmax") is not None]
        if tg:
            tg[0]["path"] = False
            for k in ("tmin", "tmax"):
                if isinstance(tg[0].get(k), list):
                    tg[0][k] = float(Fraction(next(v for v in tg[0][k] if v != "nan")))
    used = {}
    for i, g in enumerate(c["goals"]):
        g["order"] = rng.choice([1, 2])
        if not g.get("fk"):
            g["fk"] = "g%d" % i
        if g.get("tmin") is None and g.get("tmax") is None and g["fk"] == "g%d" % i and rng.random() < 0.5:
            # a minimisation goal that later priorities may degrade by `relaxation`
            g["relax"] = rng.choice(["1/8", "1/2", "1"])
            g["nominal"] = rng.choice([2, "1/2", 4, g.get("nominal", 1)])
    return c


def check_retained_minimisation(ctx, c, snaps):
    """the constraint that keeps a minimised goal for the later priorities is the documented
    f <= f* + relaxation (scaled by the nominal, plus constraint_relaxation), resp. f = f* when
    fix_minimized_values is set: compared with the constraint store after the priority"""
    n = len(c["times"])
    cr = gp.fnum(c.get("options", {}).get("constraint_relaxation", 0))
    fix = bool(c.get("options", {}).get("fix_minimized_values", False))
    prios = sorted({int(Fraction(str(g["prio"]))) for g in c["goals"]})
    for pi, snap in enumerate(snaps):
        if "stores_after" not in snap or pi >= len(prios):
            continue
        for g in c["goals"]:
            if int(Fraction(str(g["prio"]))) != prios[pi] or g.get("tmin") is not None or g.get("tmax") is not None:
                continue
            if sum(1 for h in c["goals"] if h.get("fk") == g["fk"]) != 1:
                continue        # a shared function key merges several goals' bounds (C02)
            nom, relax = gp.fnum(g.get("nominal", 1)), gp.fnum(g.get("relax", 0))
            for m in range(c["E"]):
                f = np.array(c02.fsteps(g, snap["results"][m], n))
                store_b = dict((fk, (lo, hi)) for fk, lo, hi in snap["stores_before"][1 if g["path"] else 0][m])
                store_a = dict((fk, (lo, hi)) for fk, lo, hi in snap["stores_after"][1 if g["path"] else 0][m])
                if g["fk"] not in store_a:
                    ctx.violation("retained/missing", {"case": c, "priority_index": pi, "goal": g, "member": m},
                                  what="a minimised goal left no constraint for the later priorities")
                    continue
                lo_a, hi_a = (np.array(v, dtype=float) for v in store_a[g["fk"]])
                if fix and relax == 0.0:
                    doc_lo, doc_hi = f / nom, f / nom
                else:
                    doc_lo, doc_hi = np.full(f.shape, -np.inf), (f + relax) / nom + cr
                if g["fk"] in store_b:
                    lo_b, hi_b = (np.array(v, dtype=float) for v in store_b[g["fk"]])
                    doc_lo, doc_hi = np.maximum(doc_lo, lo_b), np.minimum(doc_hi, hi_b)
                ctx.count("retained_minimisation_bounds")
                tol = 1e-6 * (1 + np.abs(doc_hi[np.isfinite(doc_hi)]).max() if np.isfinite(doc_hi).any() else 1.0)
                if hi_a.shape != doc_hi.shape or np.any(np.abs(np.where(np.isfinite(doc_hi), hi_a - doc_hi, 0.0)) > tol) or \
                        np.any(np.isfinite(doc_hi) != np.isfinite(hi_a)):
                    ctx.violation("retained/minimisation-bound",
                                  {"case": c, "priority_index": pi, "goal": g, "member": m, "f_star": f.tolist(),
                                   "stored_upper": hi_a.tolist(), "documented_upper": doc_hi.tolist()},
                                  what="after priority %s the minimised goal is kept as f/nominal <= %s, documented (f* + relaxation)/nominal + constraint_relaxation = %s" % (
                                      prios[pi], hi_a.tolist()[:3], doc_hi.tolist()[:3]))


def check_retained_targets(ctx, c, out):
    """the constraints that keep the target goals of a finished priority are the documented ones
    (m + (eps + violation_relaxation)(range_min - m) <= f <= ...): the constraint stores after every priority
    against Goals.v fed with the achieved epsilons"""
    terms, meta = c02.model_store_terms(c, out)
    if not terms:
        return
    mod = core.eval_terms(ID + "s", ["Xq", "Interval", "Goals"], terms)
    for (m, is_path, pi), ms in zip(meta, mod):
        it = iter(ms)
        n = next(it)
        mv = []
        for _ in range(n):
            next(it)
            mv.append(c02.dec_itvs(it))
        snap = out["snaps"][pi]
        if "stores_after" not in snap:
            continue
        im = snap["stores_after"][1 if is_path else 0][m]
        iv = [list(zip(lo, hi)) for _, lo, hi in im]
        ctx.count("retained_target_stores")
        same = len(iv) == len(mv) and all(
            len(a) == len(b) and all(c02.close(x[0], y[0], 1e-7) and c02.close(x[1], y[1], 1e-7) for x, y in zip(a, b))
            for a, b in zip(iv, mv))
        if not same:
            ctx.violation("retained/target-bound",
                          {"case": c, "member": m, "path": is_path, "priority_index": pi, "stored": im,
                           "documented": [[[str(a), str(b)] for a, b in v] for v in mv]},
                          what="after priority index %d the goals are kept as %s, documented %s" % (
                              pi, json.dumps(iv)[:120], json.dumps([[[float(a), float(b)] for a, b in v] for v in mv])[:120]))
            return


def violation_relaxation_cases():
    """a violated target goal kept with violation_relaxation > 0, a later priority that uses the slack"""
    out = []
    for path, vr, later in ((True, "1/64", {"order": 1}), (False, "1/16", {"order": 2, "tmax": 2.0})):
        out.append({"k": "run", "times": [0, 1, 2], "E": 1, "p": [0], "variant": "multi", "options": {"violation_relaxation": vr},
                    "goals": [{"path": path, "fn": "y", "prio": 1, "k": 1, "order": 2, "weight": 1, "nominal": 1, "tmin": 11.0, "fk": "g0"},
                              dict({"path": path, "fn": "y", "prio": 2, "k": 1, "weight": 1, "nominal": 1, "fk": "g1"}, **later)]})
    return out


def resolve_implementation(snap, reported, scale):
    """re-solve the very NLP the implementation handed to its solver, from other starts and with
    tightened tolerances: True when that NLP itself has a better point than the reported one"""
    tp = snap["transcribed"]
    try:
        sol = ca.nlpsol("s", "ipopt", tp["nlp"], {"ipopt.print_level": 0, "print_time": 0, "ipopt.tol": 1e-10,
                                                   "ipopt.constr_viol_tol": 1e-10, "ipopt.sb": "yes"})
        nx = tp["nlp"]["x"].shape[0]
        best = None
        for x0 in (np.zeros(nx), np.full(nx, 0.5), -np.ones(nx)):
            r = sol(x0=x0, lbx=tp["lbx"], ubx=tp["ubx"], lbg=ca.veccat(*tp["lbg"]), ubg=ca.veccat(*tp["ubg"]))
            if sol.stats()["success"]:
                f = float(r["f"])
                best = f if best is None else min(best, f)
        # the implementation's own NLP has a strictly better feasible point than the one its solver
        # returned: the solver stopped early on a correctly posed problem
        return best is not None and best < reported - 1e-5 * scale
    except Exception:  # noqa: BLE001
        return False


def observe_snapshot(snap, rng, probes=2):
    tp = snap["transcribed"]
    nlp = tp["nlp"]
    nx = nlp["x"].shape[0]
    gf = ca.Function("gf", [nlp["x"]], [nlp["g"], nlp["f"]])
    Xs, outs = [], []
    for _ in range(probes):
        X = [Fraction(rng.randint(-8, 8), rng.choice([1, 2, 4])) for _ in range(nx)]
        g, f = gf(ca.DM([float(x) for x in X]))
        Xs.append(X)
        outs.append(([float(v) for v in np.array(g).ravel()], float(f)))
    lbg, ubg = tp["lbg"], tp["ubg"]
    return {"nx": nx, "lbx": [float(v) for v in tp["lbx"]], "ubx": [float(v) for v in tp["ubx"]],
            "lbg": [float(v) for v in np.array(ca.veccat(*lbg)).ravel()] if len(lbg) else [],
            "ubg": [float(v) for v in np.array(ca.veccat(*ubg)).ravel()] if len(ubg) else [],
            "X": Xs, "gf": outs, "layout": None}


def structured_terms(c, info, snap, nx):
    """objective of the documented subproblem as weighted (affine form)^order terms over X"""
    n = len(c["times"])
    E = c["E"]
    idx = snap["indices"]
    probs = [Fraction(1, E)] * E
    terms = []

    def fvec(fn, m, i, scale):
        a = [Fraction(0)] * nx
        for name in (("y",) if fn == "y" else ("z",) if fn == "z" else ("y", "z")):
            a[idx[(name, m)][i]] += scale
        return a

    def unit(j):
        a = [Fraction(0)] * nx
        a[j] = Fraction(1)
        return a
    for kind, what, w, order, nom in info["terms"]:
        for m in range(E):
            if kind == "path_eps":
                for i in range(n):
                    terms.append((w * probs[m], unit(idx[(what, m)][i]), Fraction(0), order == 2))
            elif kind == "point_eps":
                terms.append((w * probs[m], unit(idx[(what, m)][0]), Fraction(0), order == 2))
            elif kind == "path_min":
                for i in range(n):
                    terms.append((w * probs[m], fvec(what["fn"], m, i, 1 / nom), Fraction(0), order == 2))
            else:
                terms.append((w * probs[m], fvec(what["fn"], m, what.get("k", n - 1), 1 / nom), Fraction(0), order == 2))
    return terms


def independent_optimum(spec):
    """solve the documented subproblem, built by this harness from the property text, with IPOPT"""
    from .. import problems

    P = problems.make_base(spec)

    class Q(P):
        def solver_options(self):
            o = super().solver_options()
            o["ipopt"] = dict(o.get("ipopt", {}))
            o["ipopt"].update({"print_level": 0, "sb": "yes", "tol": 1e-10, "constr_viol_tol": 1e-10, "acceptable_tol": 1e-10})
            o["print_time"] = False
            return o

    try:
        p = Q()
        if not p.optimize():
            return None
        return float(p.objective_value)
    except Exception:
        return None


def cert_term(spec, terms, x, lam, mu, probe):
    """Gallina term: certificate report for the documented subproblem `spec`"""
    from ..problems import ast_gallina
    E = spec.get("ensemble_size", 1)
    ei = tr.env_index(spec)
    pi_ = tr.env_index(spec, path=True)
    gi = tr.grid_index(spec)
    q = lambda v: gq(tr.fx(Fraction(v)))  # noqa: E731
    res = glist(spec.get("residual", []), lambda e: ast_gallina(e, ei))
    pobj = spec.get("path_objective")
    pcs = spec.get("path_constraints", [])
    cons = spec.get("constraints", [[] for _ in range(E)])
    tt = glist(terms, lambda t: "{| t_w := %s; t_a := %s; t_b := %s; t_sq := %s |}" % (
        gq(t[0]), glist(t[1], gq), gq(t[2]), "true" if t[3] else "false"))
    nx = len(x)
    return ("let P := %s in let F := F_of %s in let F0 := F_of [] in\n"
            "   let PO := PathObj_of %s in let PC := PathCon_of %s in\n"
            "   let G := g_rows F F0 PC P (PointCon_of %s P) %d in\n"
            "   let Fobj := objective PO true P (Obj_of %s P) in\n"
            "   let C := mk_cqp %d%%nat %s G (g_bounds P %d 0 %s %s) (x_bounds P) in\n"
            "   cert_report C G Fobj %s %s %s %s"
            % (tr.problem_term(spec), res, ast_gallina(pobj, pi_), glist(pcs, lambda c_: ast_gallina(c_[0], pi_)),
               glist(cons, lambda cm: glist(cm, lambda c_: ast_gallina(c_[0], gi))), len(pcs),
               glist(spec["objective"], lambda e: ast_gallina(e, gi)),
               nx, tt, len(spec.get("residual", [])),
               glist(cons, lambda cm: glist(cm, lambda c_: "(%s, %s)" % (tr.gxs(c_[1]), tr.gxs(c_[2])))),
               glist(range(E), lambda m: glist(pcs, lambda c_: "(%s, %s)" % (tr.gbspec(c_[1], m), tr.gbspec(c_[2], m)))),
               glist(x, q), glist(lam, q), glist(mu, q), glist(probe, q)))


def run(ctx):
    replay = os.environ.get("VERIF_REPLAY")
    if replay:
        cases = [json.load(open(replay))["replay"]["case"]]
    else:
        cases = [c["case"] for c in core.corpus_cases(ID)] + violation_relaxation_cases() + [c_ for c_ in c02.fixed_runs() if c_.get("aliases")] + [gen_case(ctx.rng) for _ in range(ctx.n(12, 400))]
    jobs = []
    for c in cases:
        for i_, g_ in enumerate(c["goals"]):
            g_.setdefault("fk", "g%d" % i_)
        out = c02.run_case(c)
        if "error" in out:
            ctx.count("run_rejected")
            continue
        ctx.runtime_samples += 1
        if not out["ok"]:
            ctx.count("run_failed_solve")
        if c.get("variant", "multi") == "multi":
            check_retained_minimisation(ctx, c, out["snaps"])
            if out["ok"] and (c.get("options", {}).get("violation_relaxation") or c.get("aliases")):
                check_retained_targets(ctx, c, out)
        if c.get("aliases"):
            continue            # (the documented-subproblem builder below knows the plain goal functions only)
        for pi, snap in enumerate(out["snaps"]):
            stores = snap["stores_before"]
            try:
                spec, info = gpform.subproblem_spec(c, pi, stores)
            except KeyError as e:
                ctx.count("formulation_skipped_%s" % type(e).__name__)
                continue
            obs = observe_snapshot(snap, ctx.rng)
            jobs.append((c, pi, snap, spec, info, obs))
    terms = [tr.eval_term(j[3], j[5]["X"]) for j in jobs]
    vals = core.eval_terms(ID + "f", trcheck.IMPORTS, terms, shard=10) if terms else []
    for (c, pi, snap, spec, info, obs), v in zip(jobs, vals):
        n_layout = 1 + spec["ensemble_size"] * len(tr.layout_names(spec))
        model = tr.decode(v, n_layout, len(obs["X"]))
        obs["layout"] = model[0]
        diffs = tr.compare(obs, model)
        ngoals = len(info["point"]) + len(info["path"])
        ctx.case_done(core.fingerprint(["form", pi, c["E"], len(c["times"]),
                                        [[g["fn"], g["path"], g.get("critical", False), g.get("order"), g.get("tmin"), g.get("tmax"), g.get("fk")] for g in info["point"] + info["path"]],
                                        [[len(s) for s in st] for st in snap["stores_before"]]]), pi >= 1 or ngoals >= 2)
        ctx.count("priority_index_%d" % pi)
        if diffs:
            ctx.violation("formulation/" + diffs[0][0],
                          {"case": c, "priority_index": pi, "documented_subproblem": spec, "differences": diffs[:4],
                           "X": [[str(x) for x in X] for X in obs["X"]]},
                          what="the subproblem handed to the solver at priority index %d differs from the documented one: %s" % (
                              pi, json.dumps(diffs[0], default=str)[:300]))
        elif len(ctx.samples) < 2 and pi >= 1:
            ctx.sample({"case": c, "priority_index": pi, "f_impl": [o[1] for o in obs["gf"]], "f_model": [str(p[1]) for p in model[3]],
                        "rows": len(obs["lbg"])})
    # ---- (ii) optimality certificates ----
    cjobs = []
    for (c, pi, snap, spec, info, obs) in jobs:
        if snap.get("lam") is None or snap["lam"][0] is None:
            continue
        nx = obs["nx"]
        try:
            terms = structured_terms(c, info, snap, nx)
        except KeyError:
            continue
        x = [float(v) for v in snap["solver_output"]]
        lam = [float(v) for v in np.array(snap["lam"][0]).ravel()]
        mu = [float(v) for v in np.array(snap["lam"][1]).ravel()]
        # the checker is sound for any multipliers: drop components that point at an infinite side
        lam = [0.0 if (l > 0 and math.isinf(ub)) or (l < 0 and math.isinf(lb)) else l for l, lb, ub in zip(lam, obs["lbg"], obs["ubg"])]
        mu = [0.0 if (l > 0 and math.isinf(ub)) or (l < 0 and math.isinf(lb)) else l for l, lb, ub in zip(mu, obs["lbx"], obs["ubx"])]
        probe = [Fraction(ctx.rng.randint(-4, 4), 2) for _ in range(nx)]
        cjobs.append((c, pi, snap, spec, cert_term(spec, terms, x, lam, mu, probe)))
    cvals = core.eval_terms(ID + "k", trcheck.IMPORTS + ["KktCert", "KktGlue"], [j[4] for j in cjobs], shard=4, timeout=900) if cjobs else []
    certs = []
    for (c, pi, snap, spec, _), v in zip(cjobs, cvals):
        ctx.count("certificates")
        if v[0] == 0:
            ctx.count("certificate_invalid")
            ctx.violation("certificate/invalid", {"case": c, "priority_index": pi}, no_input=True,
                          what="the solver's multipliers do not form a valid certificate for the documented subproblem")
            continue
        gap = Fraction(v[1], v[2])
        viol = Fraction(v[3], v[4])
        fobj = Fraction(v[5], v[6])
        fmodel = Fraction(v[7], v[8])
        aff = v[9]
        reported = snap["objective_value"]
        certs.append({"priority_index": pi, "gap": float(gap), "max_violation": float(viol), "objective": float(fobj), "reported": reported})
        rep = {"case": c, "priority_index": pi, "certified_gap": float(gap), "max_violation_of_solution": float(viol),
               "objective_documented": float(fobj), "objective_model": float(fmodel), "objective_reported": reported}
        scale = 1 + abs(float(fobj))
        if aff != 1 or abs(float(fobj - fmodel)) > 1e-9 * scale:
            rep["broken_correspondence"] = "structured objective / affine rows of the documented subproblem vs Transcribe.v"
            ctx.violation("certificate/formulation-mismatch", rep, no_input=True, what="documented subproblem is not affine-quadratic as assumed")
        elif abs(float(fobj) - reported) > 1e-6 * scale:
            ctx.violation("certificate/reported-objective", rep,
                          what="reported objective value %g differs from the documented objective %g at the returned point" % (reported, float(fobj)))
        elif float(gap) > 1e-5 * scale or float(viol) > 1e-6:
            # a loose certificate (degenerate multipliers) is not a violation by itself: solve the
            # independently built formulation with an independent solve and compare optimal values
            ctx.count("certificate_loose")
            ind = independent_optimum(spec)
            rep["independent_optimum"] = ind
            if ind is None:
                ctx.count("independent_solve_failed")
            elif abs(ind - reported) > 1e-5 * scale and resolve_implementation(snap, reported, scale):
                # the solver stopped at a non-optimal point of a correctly formulated subproblem
                # (e.g. IPOPT declaring success at iteration 0 on degenerate duplicated equalities):
                # a solver-regime anomaly, not a formulation error (DESIGN.md section 2)
                ctx.count("runtime_anomaly_solver_stopped_early")
                ctx.extra.setdefault("runtime_anomalies", []).append(
                    {"priority_index": pi, "reported": reported, "optimum_of_the_same_nlp_from_another_start": ind})
            elif abs(ind - reported) > 1e-5 * scale:
                ctx.violation("certificate/not-optimal", rep,
                              what="reported objective %g is not the optimum of the documented subproblem (independent solve: %g, certified gap %g)" % (reported, ind, float(gap)))
            else:
                ctx.count("confirmed_by_independent_solve")
    ctx.extra["certificates"] = certs[:20]


# ---- kept soft constraints / single pass, and vector goals ----------------------------------------------------
def retained_objective_cases(ctx):
    """keep_soft_constraints / single pass: what is retained from an earlier priority is its documented
    objective (probability-weighted over members, summed over time) <= the optimum found; checked on every
    later solution of generated trade-off cases (unequal probabilities, negative optima)"""
    fixed = []
    for variant, path, later in (("multi_keep_soft", True, "target"), ("single_append", True, "min"),
                                 ("single_update", True, "target"), ("multi_keep_soft", False, "min")):
        g1 = {"path": path, "fn": "y", "prio": 1, "k": 1, "order": 1, "weight": 1, "nominal": 1, "tmin": -2.0, "tmax": -2.0}
        g0 = {"path": not path, "fn": "z", "prio": 1, "k": 0, "order": 1, "weight": 1, "nominal": 1, "tmax": 9.0}
        g2 = {"path": path, "fn": "y", "prio": 2, "k": 1, "order": 1, "weight": 1, "nominal": 1}
        if later == "target":
            g2["tmin"] = 11.0
        fixed.append({"k": "run", "times": [0, 1, 2], "E": 2, "p": [0, "1/2"], "probabilities": ["1/4", "3/4"],
                      "variant": variant, "goals": [g1, g0, g2], "options": {}})
    for i in range(ctx.n(10, 250)):
        c = fixed[i] if i < len(fixed) else c02.gen_tradeoff_run(ctx.rng)
        out = c02.run_case(c)
        ctx.count("retained_objective_cases")
        ctx.case_done(core.fingerprint(["retained-objective", c["variant"], c["E"], bool(c.get("probabilities")),
                                        [[g["fn"], g["path"], g.get("tmin"), g.get("tmax")] for g in c["goals"]]]), True)
        if "error" in out or not out.get("ok"):
            ctx.count("retained_objective_unsolved")
            continue
        ctx.runtime_samples += 1
        bad = [b for b in c02.attainment_check(c, out) if b.get("priority_objective")]
        if bad:
            ctx.violation("retained/priority-objective", {"case": c, "finding": bad[0]},
                          what="the objective of priority %s (%.6g at its optimum) is %.6g in the solution of priority %s: the retained constraint is not the documented one" % (
                              bad[0]["solved_at"], bad[0]["objective_then"], bad[0]["objective_later"], bad[0]["later"]))


def vector_goal_cases(ctx):
    """a vector goal stands for its scalar goals: same optimal values per priority, with and without
    scale_by_problem_size"""
    from . import c17
    import random
    for i in range(ctx.n(3, 80)):
        # the first two pairs do not depend on the run's random stream: scale_by_problem_size on
        desc, make = c17.vector_pair(random.Random(31 + 3 * i), True) if i < 2 else c17.vector_pair(ctx.rng)
        outs = []
        for flag in (True, False):
            P, rec = make(flag)
            k, val = c17.in_child(lambda: c17._run_gp(P, rec), timeout=120)
            outs.append(val if k == "ok" else None)
        ctx.count("vector_goal_pairs")
        ctx.case_done(core.fingerprint(["vector-goal", desc["n"], desc["E"], desc["order"], desc["scale_by_problem_size"]]), True)
        a, b = outs
        if not a or not b or not (a["ok"] and b["ok"]):
            ctx.count("vector_goal_pair_unsolved")
            continue
        if not c17.close_lists(a["objectives"], b["objectives"], 1e-4):
            ctx.violation("formulation/vector-goal", {"case": desc, "vector": a, "scalars": b},
                          what="a vector goal and its scalar goals are different optimisation problems: optimal values %s vs %s (scale_by_problem_size=%s)" % (
                              a["objectives"], b["objectives"], desc["scale_by_problem_size"]))


def qp_reported_objectives(ctx):
    """single pass through the caching QP front-end: the objective value reported for every priority is the
    documented objective (incl. the constant terms of its goals) of that priority at the returned solution"""
    from . import c17
    from rtctools.optimization.single_pass_goal_programming_mixin import CachingQPSol
    cases = [c["case"] for c in core.corpus_cases("C17")]
    # a constant term only in a later priority
    cases.append({"k": "pair", "times": [0, 1, 2], "E": 1, "p": [0], "variant": "multi", "options": {},
                  "goals": [{"path": True, "fn": "y", "prio": 1, "k": 0, "order": 1, "weight": 1, "nominal": 1, "tmin": 3.0},
                            {"path": False, "fn": "z", "prio": 2, "k": 2, "order": 1, "weight": 1, "nominal": 1, "offset": "8"},
                            {"path": True, "fn": "y", "prio": 3, "k": 0, "order": 2, "weight": 1, "nominal": 1, "offset": "-2"}]})
    for c in cases:
        for variant in ("single_append", "single_update"):
            cq = dict(c17.qp_case(c), variant=variant)

            def work():
                objs, ok, ps = c17.objective_values(cq, qp=("qpoases", CachingQPSol(), {"printLevel": "none"}))
                if not ok or ps is None:
                    return None
                _, snaps = ps
                return [(float(s_["objective_value"]), c02.priority_objective(cq, i, s_["priority"], s_["results"])) for i, s_ in enumerate(snaps)]
            k, val = c17.in_child(work, timeout=120)
            ctx.count("qp_reported_objective_runs")
            ctx.case_done(core.fingerprint(["qp-reported", variant, [[g["prio"], g["fn"], g.get("offset")] for g in cq["goals"]]]), True)
            if k != "ok" or val is None:
                ctx.count("qp_reported_objective_unsolved")
                continue
            for i, (rep, doc) in enumerate(val):
                if doc is not None and abs(rep - doc) > 1e-6 * (1 + abs(doc)):
                    ctx.violation("objective/reported-by-qp-front-end", {"case": cq, "priority_index": i, "reported": rep, "documented": doc},
                                  what="%s through CachingQPSol reports %g for priority index %d; the documented objective at the returned solution is %g" % (variant, rep, i, doc))
                    break


_run_core = run


def run(ctx):  # noqa: F811
    _run_core(ctx)
    if not os.environ.get("VERIF_REPLAY"):
        retained_objective_cases(ctx)
        vector_goal_cases(ctx)
        qp_reported_objectives(ctx)
