"""C07 — ensemble members are isolated; controls are shared exactly per scenario tree."""
import json
import math
import os
from fractions import Fraction

import casadi as ca
import numpy as np

from .. import core, tr, trcheck, problems
from ..core import gq, glist, gz

ID = "C07"
PROPS_FILE = "props/C07.v"
MODEL_FILES = ["Xq", "Interp", "Expr", "Transcribe", "ControlTree"]
RULE = ("(A) metamorphic isolation: generated multi-member problems are transcribed twice, the second time "
        "with the last member's parameters, constant inputs and state history perturbed; every other "
        "member's rows, row bounds and variable boxes must be unchanged; (B) control indices through "
        "state_vector for the default discretisation, ControlTreeMixin (k in {1,2,3}, uneven branching "
        "times, forecasts with ties / duplicates / coinciding prefixes, 2-6 members) and PlanningMixin, "
        "compared with ControlTree.v and judged by 'share iff same branch'. non-trivial = >= 3 members "
        "and >= 2 branching times, or a perturbation of a parameter equal to 0 / 1; distinct = abstracted shapes"
        " Also: controls on their own grid under tree / planning with a Jacobian-structure check (a row that reads member m's state reads controls only through member m's entries), and CSV ensemble folders where only some members have an initial_state.csv.")
MODELLED = ("control_tree_mixin.py discretize_controls / branch() / discretize_control; planning_mixin.py; "
            "default discretize_control(s) and the per-member data flow of transcribe()")
NOT_MODELLED = ("np.int16 control index arrays (with NumPy 2 an index above 32767 raises OverflowError instead of "
                "wrapping); Euclidean norms with irrational values (generated forecasts give rational distances)")
ASSUMPTIONS = ["forecast series of all members share their time stamps (the code assumes it)"]

FEAT = {"bounds": True, "history": True, "objective": False, "path": True, "own_grid": False}


# ---------------------------------------------------------------------------------------------------
# A. isolation
# ---------------------------------------------------------------------------------------------------
def perturb_last(s, rng):
    s2 = json.loads(json.dumps(s))
    E = s["ensemble_size"]
    last = E - 1
    for pn in s.get("parameters", []):
        s2["param_values"][last][pn] = str(Fraction(s["param_values"][last][pn]) + rng.choice([1, -2, Fraction(1, 2)]))
    for c in s.get("constant_inputs", []):
        s2["constant_input_values"][last][c] = [str(Fraction(x) + rng.choice([1, -3])) for x in s["constant_input_values"][last][c]]
    if "history" in s:
        for v, h in s2["history"][last].items():
            if v in s.get("controls", []):
                continue      # controls are shared: a history pin of any member applies to all
            h["values"] = [x if x == "nan" else str(Fraction(x) + 2) for x in h["values"]]
    for pc in s2.get("path_constraints", []):
        for b in (pc[1], pc[2]):
            if isinstance(b, dict) and "per_member" in b:
                b["per_member"][last] = str(Fraction(b["per_member"][last]) + 5)
    return s2


def block_sizes(s):
    E = s["ensemble_size"]
    n = len(s["times"])
    neq, neq0 = len(s.get("residual", [])), len(s.get("initial_residual", []))
    npc = len(s.get("path_constraints", []))
    last = E - 1
    n_idr = 0
    for v in s.get("states", []):
        h = s.get("history", [{}] * E)[last].get(v)
        if h and len(h["values"]) >= 2 and h["values"][-1] == "nan" and h["values"][-2] != "nan":
            n_idr += 1
    size_last = n_idr + (n - 1) * neq + len(s.get("constraints", [[]] * E)[last]) + n * npc
    return neq + neq0, size_last


def isolation_diff(s, o, o2):
    init, size_last = block_sizes(s)
    E = s["ensemble_size"]
    tot = len(o["lbg"])
    if len(o2["lbg"]) != tot:
        return {"what": "row count", "a": tot, "b": len(o2["lbg"])}
    keep = list(range(0, (E - 1) * init)) + list(range(E * init, tot - size_last))
    for (g1, _), (g2, _) in zip(o["gf"], o2["gf"]):
        for i in keep:
            if not tr.close(g1[i], g2[i], 1e-9):
                return {"what": "row of another member changed", "row": i, "before": g1[i], "after": g2[i]}
    for i in keep:
        if not tr.close(o["lbg"][i], o2["lbg"][i]) or not tr.close(o["ubg"][i], o2["ubg"][i]):
            return {"what": "row bounds of another member changed", "row": i,
                    "before": [o["lbg"][i], o["ubg"][i]], "after": [o2["lbg"][i], o2["ubg"][i]]}
    # boxes: everything except the last member's own block
    p = o["p"]
    nx = o["nx"]
    own = set()
    for v in tr.layout_names(s):
        if v in s.get("controls", []):
            continue
        f = ca.Function("i", [p.solver_input], [p.state_vector(v, E - 1)])
        own |= {int(round(float(x))) for x in np.array(f(ca.DM(list(range(nx))))).ravel()}
    for i in range(nx):
        if i in own:
            continue
        if not tr.close(o["lbx"][i], o2["lbx"][i]) or not tr.close(o["ubx"][i], o2["ubx"][i]):
            return {"what": "box of another member / of a control changed", "index": i,
                    "before": [o["lbx"][i], o["ubx"][i]], "after": [o2["lbx"][i], o2["ubx"][i]]}
    return None


# ---------------------------------------------------------------------------------------------------
# B. control sharing
# ---------------------------------------------------------------------------------------------------
def gen_tree_case(rng):
    E = rng.choice([2, 3, 3, 4, 5, 6])
    seg_lens = [rng.choice([1, 1, 4]) for _ in range(rng.randint(2, 4))]   # stamps per segment
    n = sum(seg_lens)
    times = [Fraction(i) for i in range(n)]
    # branching times: starts of segments 1.. (the first segment starts at t0)
    starts = [sum(seg_lens[:i]) for i in range(len(seg_lens))]
    nbt = rng.randint(1, len(seg_lens) - 1)
    bts = [times[starts[i]] for i in range(1, nbt + 1)]
    k = rng.choice([1, 2, 2, 3])
    nf = rng.choice([1, 1, 2])
    # forecasts: per member, per variable, an offset per segment (constant over the segment)
    pool = [0, 0, 1, 2, 3, 5, -1, Fraction(1, 2)]
    offs = [[[rng.choice(pool) for _ in seg_lens] for _ in range(nf)] for _ in range(E)]
    if E > 2 and rng.random() < 0.4:
        offs[1] = json.loads(json.dumps(offs[0], default=str)) if False else [list(x) for x in offs[0]]   # duplicate forecast
    if E > 2 and rng.random() < 0.4:
        for f in range(nf):
            offs[2][f][:2] = offs[0][f][:2]              # coinciding prefix
    planning = rng.random() < 0.3
    return {"k": "tree", "own_grid": rng.random() < 0.4, "E": E, "seg_lens": seg_lens, "nbt": nbt, "bts": [str(b) for b in bts], "kk": k,
            "nf": nf, "offs": [[[str(x) for x in v] for v in mem] for mem in offs], "planning": planning,
            "mode": rng.choice(["tree", "tree", "default", "planning_only"])}


def dup_tree_cases():
    """trees with spare children: k = 3, nodes holding members with one and the same forecast next to a member
    with another one, forecasts that vary inside a segment by a pattern shared by all members"""
    import random
    r = random.Random(20260711)
    out = []
    for i in range(24):
        E = r.choice([3, 3, 5, 6])
        seg_lens = [r.choice([2, 4]) for _ in range(r.randint(2, 3))]
        n = sum(seg_lens)
        starts = [sum(seg_lens[:j]) for j in range(len(seg_lens))]
        nbt = r.randint(1, len(seg_lens) - 1)
        nf = r.choice([1, 2])
        pool = [0, 1, 2, 3, -1, Fraction(1, 2), Fraction(3, 8)]
        offs = [[[r.choice(pool) for _ in seg_lens] for _ in range(nf)] for _ in range(E)]
        offs[2] = [list(x) for x in offs[0]]                     # members 0 and 2: the same forecast throughout
        if all(offs[1][f] == offs[0][f] for f in range(nf)):
            offs[1][0][-1] = offs[0][0][-1] + 1                  # member 1 differs at least in the last segment
        if E > 3:
            offs[4] = [list(x) for x in offs[3]]
        wig = [[str(Fraction(r.randint(-15, 15), 8)) for _ in range(n)] for _ in range(nf)]
        out.append({"k": "tree", "own_grid": False, "E": E, "seg_lens": seg_lens, "nbt": nbt,
                    "bts": [str(Fraction(starts[j])) for j in range(1, nbt + 1)], "kk": 3, "nf": nf,
                    "offs": [[[str(x) for x in v] for v in mem] for mem in offs], "planning": False, "mode": "tree", "wiggle": wig})
    return out


def planning_empty(c):
    """PlanningMixin with no planning variable declared (every control is the member's own): chosen from the
    case itself, for a third of the cases that use the mixin"""
    import random
    uses = c["mode"] == "planning_only" or (c["mode"] == "tree" and c["planning"])
    key = json.dumps({k: v for k, v in c.items() if not k.startswith("_")}, sort_keys=True, default=str)
    return uses and random.Random(key).random() < 0.34


def w_per_member(c):
    return c["mode"] == "planning_only" or (c["mode"] == "tree" and c["planning"])


def w_hist(c, m):
    return Fraction(m + 1, 4) if w_per_member(c) else Fraction(1, 4)


def box_problems(c, idx, lbx, ubx):
    """every entry of every control of every member is boxed by the user's bounds; the entry at t0 is pinned to
    that member's history value"""
    out = []
    want = {"u": (-3.0, 4.0), "w": (-2.0, 6.0)}
    for var in ("u", "w"):
        for m in range(c["E"]):
            for pos, i in enumerate(idx[(var, m)]):
                got = (float(lbx[i]), float(ubx[i]))
                if pos == 0:
                    h = 0.5 if var == "u" else float(w_hist(c, m))
                    exp = (h, h)
                else:
                    exp = want[var]
                if abs(got[0] - exp[0]) > 1e-12 or abs(got[1] - exp[1]) > 1e-12:
                    out.append("control %s of member %d, entry %d: box %s, expected %s" % (var, m, pos, got, exp))
    return out


def tree_problem(c):
    from rtctools.optimization.control_tree_mixin import ControlTreeMixin
    from rtctools.optimization.planning_mixin import PlanningMixin
    from rtctools.optimization.timeseries import Timeseries

    E = c["E"]
    n = sum(c["seg_lens"])
    times = [str(i) for i in range(n)]
    cins = ["f%d" % i for i in range(c["nf"])]
    vals = []
    for m in range(E):
        d = {}
        for f in range(c["nf"]):
            v = []
            for sl, off in zip(c["seg_lens"], c["offs"][m][f]):
                v += [off] * sl
            if c.get("wiggle"):
                # a pattern common to all members (eighths: every sum and difference is exact in binary64)
                v = [str(Fraction(a) + Fraction(w)) for a, w in zip(v, c["wiggle"][f])]
            d[cins[f]] = v
        vals.append(d)
    spec = {"times": times, "states": [], "algebraics": ["y"], "controls": ["u", "w"], "constant_inputs": cins,
            "parameters": [], "ensemble_size": E, "theta": "1",
            "residual": [["-", ["v", "y"], ["+", ["+", ["v", "u"], ["v", "w"]], ["v", cins[0]]]]], "initial_residual": [],
            "param_values": [{} for _ in range(E)], "constant_input_values": vals}
    # bounds on the controls and a history that pins them at t0: w per member where w is not shared at t0
    spec["bounds"] = {"u": ["-3", "4"], "w": ["-2", "6"]}
    spec["history"] = [{"u": {"times": ["-1", "0"], "values": ["0", "1/2"]},
                        "w": {"times": ["-1", "0"], "values": ["0", str(w_hist(c, m))]}} for m in range(E)]
    if c.get("own_grid") and n >= 3:
        # control w lives on a coarser grid of its own (interpolated onto the collocation times)
        keep = [0] + [i for i in range(1, n - 1) if i % 2 == 0] + [n - 1]
        if len(keep) < n:
            spec["var_times"] = {"w": [times[i] for i in keep]}
    mix = []
    if c["mode"] == "tree":
        mix = [ControlTreeMixin]
        if c["planning"]:
            mix = [PlanningMixin, ControlTreeMixin]
    elif c["mode"] == "planning_only":
        mix = [PlanningMixin]
    Base = problems.make_base(spec, tuple(mix))

    class P(Base):
        planning_variables = [] if planning_empty(c) else ["u"]

        def control_tree_options(self):
            return {"forecast_variables": cins, "branching_times": [float(Fraction(b)) for b in c["bts"]], "k": c["kk"]}

    return P(), spec


def observe_tree(c):
    p, spec = tree_problem(c)
    d, lbx, ubx, lbg, ubg, x0, nlp = p.transcribe()
    nx = nlp["x"].shape[0]
    idx = {}
    for v in ("u", "w"):
        for m in range(c["E"]):
            f = ca.Function("i", [p.solver_input], [p.state_vector(v, m)])
            idx[(v, m)] = [int(round(float(x))) for x in np.array(f(ca.DM(list(range(nx))))).ravel()]
    branches = None
    if c["mode"] == "tree":
        branches = {tuple(kk): list(vv) for kk, vv in p.control_tree_branches.items()}
    sidx = {}
    for m in range(c["E"]):
        f = ca.Function("i", [p.solver_input], [p.state_vector("y", m)])
        sidx[m] = [int(round(float(x))) for x in np.array(f(ca.DM(list(range(nx))))).ravel()]
    # which decision variables each constraint row reads
    sp = ca.jacobian(nlp["g"], nlp["x"]).sparsity()
    rws, cls = sp.get_triplet()
    deps = {}
    for r_, c_ in zip(rws, cls):
        deps.setdefault(int(r_), set()).add(int(c_))
    observe_tree.deps = deps
    observe_tree.boxes = ([float(v) for v in lbx], [float(v) for v in ubx])
    return idx, branches, sidx, nx


def row_isolation(E, idx, sidx, deps):
    """a constraint row that reads member m's state may read controls only through member m's own
    control entries (shared or not), and never another member's state"""
    out = []
    owner = {}
    for m in range(E):
        for i in sidx[m]:
            owner[i] = m
    ctrl_all = set()
    for k, v in idx.items():
        ctrl_all |= set(v)
    for r, cols in deps.items():
        ms = {owner[c] for c in cols if c in owner}
        if len(ms) > 1:
            out.append("constraint row %d reads the states of members %s" % (r, sorted(ms)))
        elif len(ms) == 1:
            m = next(iter(ms))
            mine = set(idx[("u", m)]) | set(idx[("w", m)])
            foreign = sorted((cols & ctrl_all) - mine)
            if foreign:
                out.append("constraint row %d of member %d reads control entries %s that are not among member %d's own %s" % (
                    r, m, foreign, m, sorted(mine)))
    return out


def seg_of_time(c):
    """segment (branch depth) of every time index"""
    n = sum(c["seg_lens"])
    bts = [Fraction(b) for b in c["bts"]]
    out = []
    for i in range(n):
        L = sum(1 for b in bts if Fraction(i) >= b)
        out.append(L)
    return out


def dist_table(c):
    """dist[L][a][b]: exact distance on the segment deciding the children of a depth-L branch"""
    E = c["E"]
    nbt = c["nbt"]
    bts = [Fraction(0)] + [Fraction(b) for b in c["bts"]] + [None]
    n = sum(c["seg_lens"])
    table = []
    for L in range(nbt):
        lo, hi = bts[L + 1], bts[L + 2]
        stamps = [i for i in range(n) if Fraction(i) >= lo and (hi is None or Fraction(i) < hi)]
        starts = [sum(c["seg_lens"][:i]) for i in range(len(c["seg_lens"]))]
        rows = []
        for a in range(E):
            row = []
            for b in range(E):
                tot = Fraction(0)
                for f in range(c["nf"]):
                    sq = Fraction(0)
                    for i in stamps:
                        seg = max(j for j, st in enumerate(starts) if st <= i)
                        dv = Fraction(c["offs"][a][f][seg]) - Fraction(c["offs"][b][f][seg])
                        sq += dv * dv
                    r = math.isqrt(sq.numerator * sq.denominator)
                    if r * r != sq.numerator * sq.denominator:
                        return None            # irrational norm: skip this case
                    tot += Fraction(r, sq.denominator)
                row.append(tot)
            rows.append(row)
        table.append(rows)
    return table


def tree_term(c, table):
    E = c["E"]
    t = glist(table, lambda rows: glist(rows, lambda row: glist(row, gq)))
    return ("let tb := %s in let dist := fun L a b => nth b (nth a (nth L tb []) []) 0%%Q in "
            "let t := tree %d%%nat dist %d%%nat %d%%nat in "
            "ser_tree t ++ flat_map (fun L => map (share_class t L) (seq 0 %d)) (seq 0 %d)"
            % (t, c["kk"], c["nbt"], E, E, c["nbt"] + 1))


def classes_from_indices(idx, E, n, var):
    """for each time index: canonical class id (smallest member sharing the index) per member"""
    out = []
    for i in range(n):
        row = []
        for m in range(E):
            row.append(min(m2 for m2 in range(E) if idx[(var, m2)][i] == idx[(var, m)][i]))
        out.append(row)
    return out


def tix(c, var):
    """time indices on which the control has decision variables (its own grid)"""
    n = sum(c["seg_lens"])
    if var == "w" and c.get("own_grid") and n >= 3:
        keep = [0] + [i for i in range(1, n - 1) if i % 2 == 0] + [n - 1]
        if len(keep) < n:
            return keep
    return list(range(n))


def tree_property(c, idx, branches, nx):
    """share iff same branch; branches only split; <= k children; all indices of distinct
    (variable, time, class) distinct and inside the control block"""
    E = c["E"]
    n = sum(c["seg_lens"])
    segs = seg_of_time(c)
    problems_ = []
    seen = {}
    for var in ("u", "w"):
        for pos, i in enumerate(tix(c, var)):
            for m in range(E):
                key = idx[(var, m)][pos]
                tag = (var, i)
                if key in seen and seen[key] != tag:
                    problems_.append("index %d used for %s and %s" % (key, seen[key], tag))
                seen[key] = tag
    if branches is not None:
        for path, members in branches.items():
            kids = [p2 for p2 in branches if len(p2) == len(path) + 1 and p2[:len(path)] == path]
            if kids:
                if len(kids) > c["kk"]:
                    problems_.append("more than k children at %s" % (path,))
                union = sorted(x for p2 in kids for x in branches[p2])
                if union != sorted(members):
                    problems_.append("children of %s do not partition it" % (path,))
        for var in ("u", "w"):
            if c["planning"] and (var != "u" or planning_empty(c)):
                continue
            for pos, i in enumerate(tix(c, var)):
                L = segs[i]
                for a in range(E):
                    for b in range(E):
                        same_branch = any(len(pth) == L and a in mem and b in mem for pth, mem in branches.items())
                        share = idx[(var, a)][pos] == idx[(var, b)][pos]
                        if same_branch != share:
                            problems_.append("%s t=%d members %d,%d: same branch %s but share %s" % (var, i, a, b, same_branch, share))
        # members whose forecasts coincide up to branching time bt[L+1] are in the same depth-L branch
        starts = [sum(c["seg_lens"][:i]) for i in range(len(c["seg_lens"]))]
        bts = [Fraction(b) for b in c["bts"]]

        def val(m, f, i):
            seg = max(j for j, st in enumerate(starts) if st <= i)
            return c["offs"][m][f][seg]
        for a in range(E):
            for b in range(a + 1, E):
                for L in range(1, c["nbt"] + 1):
                    horizon = bts[L] if L < len(bts) else None     # bt[L+1] in the code's numbering
                    stamps = [i for i in range(n) if horizon is None or Fraction(i) < horizon]
                    same_prefix = all(val(a, f, i) == val(b, f, i) for f in range(c["nf"]) for i in stamps)
                    together = any(len(pth) == L and a in mem and b in mem for pth, mem in branches.items())
                    if same_prefix and not together:
                        problems_.append("members %d,%d coincide before %s but are separated at depth %d" % (a, b, horizon, L))
    return problems_


# ---------------------------------------------------------------------------------------------------
def run(ctx):
    rs = trcheck.replay_spec()
    # ---- A ----
    specs = []
    if rs:
        specs = [rs]
    else:
        specs = [c["spec"] for c in core.corpus_cases(ID) if "spec" in c]
        while len(specs) < ctx.n(40, 1500):
            s = tr.gen_spec(ctx.rng, FEAT)
            if s["ensemble_size"] >= 2:
                specs.append(s)
    for s in specs:
        if s.get("ensemble_size", 1) < 2:
            continue
        try:
            o = tr.observe(s, 2, ctx.rng)
            s2 = perturb_last(s, ctx.rng)
            P2 = problems.make_base(s2)
            p2 = P2()
            d, lbx, ubx, lbg, ubg, x0, nlp = p2.transcribe()
            gf = ca.Function("gf", [nlp["x"]], [nlp["g"], nlp["f"]])
            outs = []
            for X in o["X"]:
                g, f = gf(ca.DM([float(x) for x in X]))
                outs.append(([float(v) for v in np.array(g).ravel()], float(f)))
            o2 = {"lbx": [float(v) for v in lbx], "ubx": [float(v) for v in ubx],
                  "lbg": [float(v) for v in np.array(ca.veccat(*lbg)).ravel()] if len(lbg) else [],
                  "ubg": [float(v) for v in np.array(ca.veccat(*ubg)).ravel()] if len(ubg) else [], "gf": outs}
        except Exception as e:
            ctx.count("isolation_exception_" + type(e).__name__)
            continue
        special = any(str(v) in ("0", "1") for pv in s["param_values"] for v in pv.values())
        ctx.case_done(trcheck.shape_of(s), special or s["ensemble_size"] >= 3)
        ctx.count("isolation_cases")
        diff = isolation_diff(s, o, o2)
        if diff:
            ctx.violation("isolation/other-member-affected", {"spec": s, "perturbed_spec": s2, "difference": diff,
                                                              "X": [[str(x) for x in X] for X in o["X"]]},
                          what="perturbing the last member's data changed another member: %s" % json.dumps(diff, default=str)[:300])
        elif len(ctx.samples) < 1:
            ctx.sample({"spec": s, "perturbed_last_member": s2["param_values"][-1]})

    # ---- B ----
    if rs:
        return
    cases = [c for c in core.corpus_cases(ID) if c.get("k") == "tree"] + dup_tree_cases() + [gen_tree_case(ctx.rng) for _ in range(ctx.n(120, 4000))]
    rows = []
    for c in cases:
        try:
            idx, branches, sidx, nx = observe_tree(c)
        except Exception as e:
            ctx.count("tree_exception_" + type(e).__name__)
            ctx.violation("tree/exception", {"case": c, "error": "%s: %s" % (type(e).__name__, str(e)[:300])}, no_input=True,
                          what="control discretisation raised %s" % type(e).__name__)
            continue
        rows.append((c, idx, branches, sidx, nx))
        c["_deps"] = observe_tree.deps
        c["_boxes"] = observe_tree.boxes
    tree_rows = [(r, dist_table(r[0])) for r in rows if r[0]["mode"] == "tree"]
    tree_rows = [(r, t) for r, t in tree_rows if t is not None]
    for r, t in tree_rows:
        # the hypotheses of C07_coinciding_same_child / C07_not_separated_before on the distances handed to the model
        for L, tb in enumerate(t):
            E_ = len(tb)
            if any(tb[a][b] != tb[b][a] or tb[a][b] < 0 for a in range(E_) for b in range(E_)):
                ctx.violation("tree/distance-hypotheses", {"case": r[0], "depth": L}, no_input=True,
                              what="the distance table of the harness is not symmetric / non-negative")
            ctx.count("coinciding_pairs", sum(1 for a in range(E_) for b in range(a + 1, E_) if tb[a] == tb[b] and tb[a][b] == 0))
    models = core.eval_terms(ID + "tree", ["Xq", "ControlTree"], [tree_term(r[0], t) for r, t in tree_rows], shard=60) if tree_rows else []
    model_of = {id(r[0]): mv for (r, t), mv in zip(tree_rows, models)}
    for c, idx, branches, sidx, nx in rows:
        E = c["E"]
        n = sum(c["seg_lens"])
        ctx.case_done(core.fingerprint(["tree", c["mode"], c["planning"], E, c["seg_lens"], c["nbt"], c["kk"], c["offs"]]),
                      E >= 3 and c["nbt"] >= 2)
        ctx.count("mode_" + c["mode"] + ("_planning" if c["planning"] and c["mode"] == "tree" else ""))
        ctx.count("k_%d" % c["kk"])
        probs = tree_property(c, idx, branches, nx)
        probs += row_isolation(E, idx, sidx, c.pop("_deps", {}))[:3]
        lbx_, ubx_ = c.pop("_boxes")
        probs += box_problems(c, idx, lbx_, ubx_)[:3]
        # states are never shared
        for a in range(E):
            for b in range(a + 1, E):
                if set(sidx[a]) & set(sidx[b]):
                    probs.append("members %d,%d share entries of state y" % (a, b))
        if c["mode"] == "default":
            for var in ("u", "w"):
                if any(idx[(var, m)] != idx[(var, 0)] for m in range(E)):
                    probs.append("default discretisation: control %s not shared by all members" % var)
        if c["mode"] == "planning_only" or (c["mode"] == "tree" and c["planning"]):
            own = ("w", "u") if planning_empty(c) else ("w",)
            for var in own:
                for a in range(E):
                    for b in range(a + 1, E):
                        if set(idx[(var, a)]) & set(idx[(var, b)]):
                            probs.append("planning: control %s (not a planning variable) shared by members %d,%d" % (var, a, b))
            if c["mode"] == "planning_only" and not planning_empty(c) and any(idx[("u", m)] != idx[("u", 0)] for m in range(E)):
                probs.append("planning: planning variable u not shared")
        rep = {"case": c, "indices": {"%s/%d" % kk: v for kk, v in idx.items()},
               "branches": {str(kk): v for kk, v in (branches or {}).items()}}
        if probs:
            ctx.violation("tree/sharing", dict(rep, problems=probs[:6]), what="control sharing violates C07: %s" % probs[0])
            continue
        mv = model_of.get(id(c))
        if mv is not None:
            # decode model tree and classes
            it = iter(mv)
            nb = next(it)
            mt = {}
            for _ in range(nb):
                lp = next(it)
                path = tuple(next(it) for _ in range(lp))
                lm = next(it)
                mt[path] = [next(it) for _ in range(lm)]
            classes = [[next(it) for _ in range(E)] for _ in range(c["nbt"] + 1)]
            impl_t = {kk: sorted(v) for kk, v in branches.items()}
            model_t = {kk: sorted(v) for kk, v in mt.items()}
            segs = seg_of_time(c)
            impl_classes = classes_from_indices(idx, E, n, "u")
            # (with PlanningMixin and no planning variable declared, u does not follow the tree)
            cls_ok = planning_empty(c) or all(impl_classes[i] == classes[segs[i]] for i in range(n))
            if impl_t != model_t or not cls_ok:
                rep["model_tree"] = {str(kk): v for kk, v in mt.items()}
                rep["broken_correspondence"] = "ControlTree.v tree / share_class vs control_tree_branches / control indices"
                ctx.violation("tree/model-mismatch", rep, no_input=True, what="scenario tree differs from the Gallina model (sharing rule still holds)")
            elif len(ctx.samples) < 3 and E >= 3:
                ctx.sample({"case": c, "branches": rep["branches"], "u_indices": {m: idx[("u", m)] for m in range(E)}})


# ---- member data through the CSV mixin: every member reads its own folder only -------------------------------
def csv_member_isolation(ctx):
    """CSV ensemble folders in which only some members have an initial_state.csv (and every member its own
    series): history(m) must come from member m's files alone"""
    from concurrent.futures import ProcessPoolExecutor
    from . import c12
    rng = ctx.rng
    specs = []
    for _ in range(ctx.n(5, 120)):
        c = c12.gen_case(rng, "opt", "csv")
        E = rng.choice([2, 3, 3])
        c["E"] = E
        base = c["series"]["0"]
        c["series"] = {}
        for m in range(E):
            s = json.loads(json.dumps(base))
            s["x"] = [str(Fraction(rng.randint(-12, 12), 4))] + s["x"][1:]
            s["q"] = [str(Fraction(rng.randint(-8, 8), 4)) for _ in s["q"]]
            c["series"][str(m)] = s
        pat = [rng.random() < 0.5 for _ in range(E)]
        if all(pat) or not any(pat):
            pat[rng.randrange(E)] = not pat[0]
        c["initial_state"] = [{"x": str(Fraction(rng.randint(-12, 12), 4))} if has else None for has in pat]
        c["ops"] = []
        specs.append(c)
    with ProcessPoolExecutor(max_workers=8) as ex:
        results = list(ex.map(c12.safe_run, specs))
    for c, res in zip(specs, results):
        ctx.case_done(core.fingerprint(["csv-members", c["E"], [i is not None for i in c["initial_state"]]]), True)
        ctx.count("csv_member_cases")
        if "error" in res:
            ctx.violation("isolation/csv-exception", {"spec": c, "error": res["error"]}, no_input="rtctools" not in res["error"],
                          what="a CSV ensemble folder could not be loaded: %s" % res["error"][:120])
            continue
        for m in range(c["E"]):
            ini = c["initial_state"][m]
            want = float(Fraction(ini["x"])) if ini else float(Fraction(c["series"][str(m)]["x"][0]))
            got = res["history"][str(m)].get("x")
            if got is None or abs(got[1][-1] - want) > 1e-9 or got[0][-1] != 0.0:
                ctx.violation("isolation/csv-member-history", {"spec": c, "member": m, "history_x": got, "expected_x_t0": want,
                                                               "has_initial_state_file": ini is not None},
                              what="member %d's initial condition is %s; its own files say %s (initial_state.csv %s)" % (
                                  m, got, want, "present" if ini else "absent"))
            gq_ = res["history"][str(m)].get("q")
            wq = float(Fraction(c["series"][str(m)]["q"][0]))
            if gq_ is None or abs(gq_[1][-1] - wq) > 1e-9:
                ctx.violation("isolation/csv-member-history", {"spec": c, "member": m, "history_q": gq_, "expected": wq},
                              what="member %d's input history is %s; its own file says %s" % (m, gq_, wq))


_run_core = run


def run(ctx):  # noqa: F811
    _run_core(ctx)
    if not os.environ.get("VERIF_REPLAY"):
        csv_member_isolation(ctx)


# ---- delayed feedback with member-dependent delays (cases and model shared with C16) -----------------------
def delay_member_rows(ctx):
    """ensembles whose delay duration is a parameter that differs between the members: every member's delay rows
    are those of the Gallina model evaluated with that member's own parameter"""
    import random
    from . import c16
    r2 = random.Random(716)
    specs = []
    while len(specs) < ctx.n(6, 80):
        s = c16.gen_case(r2)
        if s["ensemble_size"] < 2 or not s["parameters"]:
            continue
        p0 = s["parameters"][0]
        step = Fraction(s["times"][1]) - Fraction(s["times"][0])
        s["delayed_feedback"][0][2] = ["v", p0]
        for m in range(s["ensemble_size"]):
            s["param_values"][m][p0] = str(step * Fraction(m + 1, 2))
        specs.append(s)
    jobs = []
    for s in specs:
        try:
            X, g, lb, ub = c16.delay_rows_impl(s, r2)
        except Exception as e:  # noqa: BLE001
            ctx.count("delay_member_exception_" + type(e).__name__)
            continue
        jobs.append((s, X, g))
    vals = core.eval_terms(ID + "dly", trcheck.IMPORTS + ["Delay"], [c16.model_term(s, X) for s, X, _ in jobs], shard=12) if jobs else []
    for (s, X, g), v in zip(jobs, vals):
        it = iter(v)
        k = next(it)
        rows = [Fraction(next(it), next(it)) for _ in range(k)]
        ctx.count("delay_member_cases")
        ctx.case_done(core.fingerprint(["delay-members", s["ensemble_size"], len(s["times"]), len(s["delayed_feedback"])]), True)
        bad = [(i, a, float(b)) for i, (a, b) in enumerate(zip(g, rows)) if not tr.close(a, b, 1e-8)] if len(rows) == len(g) else [("row-count", len(g), len(rows))]
        if bad:
            ctx.violation("isolation/delay-rows", {"spec": s, "X": [str(x) for x in X], "differences": bad[:5]},
                          what="delayed feedback rows of an ensemble with member-dependent delays differ from the members' own delays: %s" % (bad[0],))


_run_core_d = run


def run(ctx):  # noqa: F811
    _run_core_d(ctx)
    if not trcheck.replay_spec():
        delay_member_rows(ctx)
