"""C14 — Modelica declarations are honoured: bounds, nominal, start, fixed, types, roles."""
import datetime
import json
import math
import os
import shutil
import tempfile
from concurrent.futures import ProcessPoolExecutor
from fractions import Fraction

from .. import core, mo
from ..core import gq, glist, goption, gbool, gxq
from ..problems import ast_gallina, ast_eval

ID = "C14"
PROPS_FILE = "props/C14.v"
MODEL_FILES = ["Xq", "Expr", "Modelica"]
RULE = ("generated Modelica models (1-3 parameters; 1-2 states, 0-2 algebraics, 1-4 inputs of type Real / Integer / "
        "Boolean; every combination of min / max / start / nominal given as constants or parameter expressions, fixed "
        "true/false, output flag; a negated alias) compiled by pymoca and loaded through the real CSVMixin + "
        "ModelicaMixin (+ an optional class below ModelicaMixin that supplies its own bounds) with generated "
        "timeseries_import.csv (<var>_Min / <var>_Max series with gaps, history / seed columns) and parameters.csv, and a "
        "parameters() override in code: dae_variables roles, output_variables, bounds() at every time, history(), "
        "seed(), parameters(), variable_nominal() (also through the negated alias) and variable_is_discrete() are "
        "compared with Modelica.v evaluated in Coq.  Simulation: generated models through the real SimulationProblem "
        "+ CSVMixin with initial_state.csv and seed() overrides; get_var after initialize() is compared with "
        "Modelica.sim_start; parameters through model <- parameters.csv <- code.  non-trivial = a parameter-dependent "
        "attribute together with a second bound source or an overridden parameter; distinct = attribute shapes")
MODELLED = ("modelica_mixin.py roles / output_variables / parameters / history / bounds / seed / variable_is_discrete / nominals, "
            "io_mixin.py bounds / history / seed / parameters (override chain), simulation_problem.py initialize() start precedence")
NOT_MODELLED = ("pymoca (compiles the generated text, eliminates the alias); whether a simulation start value is imposed or only "
                "a guess is not observed separately (free states take the value either way); lookup-table inputs, delay states")
ASSUMPTIONS = ["class order CSVMixin, ModelicaMixin, CollocatedIntegratedOptimizationProblem as in the documentation and examples"]

T0 = datetime.datetime(2020, 1, 1, 0, 0, 0)
BIG = 1e300


def attr_expr(rng, pars, lo=-6, hi=6, nonzero=False):
    """constant or parameter expression; returns the AST"""
    c = Fraction(rng.randint(lo * 2, hi * 2), 2)
    while nonzero and c == 0:
        c = Fraction(rng.randint(lo * 2, hi * 2), 2)
    r = rng.random()
    if not pars or r < 0.45:
        return ["c", str(c)]
    p = rng.choice(pars)
    if r < 0.65:
        return ["*", ["c", str(c)], ["v", p]]
    if r < 0.85:
        return ["+", ["v", p], ["c", str(c)]]
    return ["neg", ["v", p]]


def gen_opt(rng, idx):
    npar = rng.choice([1, 2, 3])
    pars = ["p%d" % i for i in range(npar)]
    spec = {"name": "A%d" % idx, "kind": "opt", "parameters": [], "states": [], "algebraics": [], "inputs": [], "outputs": [],
            "equations": [], "n": rng.choice([2, 3, 4]), "dt": rng.choice([3600, 900])}
    for p in pars:
        spec["parameters"].append({"name": p, "value": str(Fraction(rng.randint(-8, 8), 2))})
    ns, na, ni = rng.choice([1, 1, 2]), rng.choice([0, 1, 2]), rng.choice([1, 2, 3, 4])

    def decl(name, kind):
        d = {"name": name, "type": "Real"}
        if kind == "input":
            d["type"] = rng.choice(["Real", "Real", "Real", "Integer", "Boolean"])
        if d["type"] == "Real":
            if rng.random() < 0.6:
                d["min"] = attr_expr(rng, pars, -8, 2)
            if rng.random() < 0.6:
                d["max"] = attr_expr(rng, pars, -2, 8)
            if rng.random() < 0.6:
                d["nominal"] = attr_expr(rng, pars) if rng.random() < 0.8 else ["c", rng.choice(["0", "1", "-1"])]
            if kind != "input" and rng.random() < 0.7:
                d["start"] = attr_expr(rng, pars) if rng.random() < 0.85 else ["c", "0"]
        elif d["type"] == "Integer":
            if rng.random() < 0.6:
                d["min"] = ["c", str(rng.randint(-3, 0))]
            if rng.random() < 0.6:
                d["max"] = ["c", str(rng.randint(1, 4))]
        if rng.random() < (0.5 if kind != "alg" else 0.3):
            d["fixed"] = rng.random() < 0.75
        return d

    for i in range(ns):
        spec["states"].append(decl("x%d" % i, "state"))
    for i in range(na):
        spec["algebraics"].append(decl("a%d" % i, "alg"))
    for i in range(ni):
        spec["inputs"].append(decl("u%d" % i, "input"))
    real_inputs = [u["name"] for u in spec["inputs"] if u["type"] == "Real"]
    for i, s in enumerate(spec["states"]):
        rhs = ["neg", ["v", s["name"]]]
        for u in real_inputs[: 1 + i]:
            rhs = ["+", rhs, ["v", u]]
        spec["equations"].append([["v", "der(%s)" % s["name"]], rhs])
    for i, a in enumerate(spec["algebraics"]):
        spec["equations"].append([["v", a["name"]], ["+", ["*", ["c", "2"], ["v", spec["states"][0]["name"]]], ["c", str(i + 1)]]])
    if rng.random() < 0.4:
        tgt = rng.choice(spec["states"] + spec["algebraics"])["name"]
        spec["alias"] = ["neg_" + tgt, tgt]
        # pymoca merges the attributes of an eliminated alias into the canonical variable (largest signed
        # nominal); keep that third-party rule out of the comparison
        for v in spec["states"] + spec["algebraics"]:
            if v["name"] == tgt and "nominal" in v:
                v["nominal"] = ["c", str(rng.choice([2, 5, Fraction(1, 2), 1]))]
    cands = [v["name"] for v in spec["states"] + spec["algebraics"]]
    spec["outputs"] = [c for c in cands if rng.random() < 0.4]
    # overriding sources
    spec["file_params"] = {p: str(Fraction(rng.randint(-8, 8), 2)) for p in pars if rng.random() < 0.35}
    spec["code_params"] = {p: str(Fraction(rng.randint(-8, 8), 2)) for p in pars if rng.random() < 0.25}
    n = spec["n"]
    series = {}
    free = [v for v in spec["states"] + spec["algebraics"] + spec["inputs"] if not (v in spec["inputs"] and v.get("fixed"))]
    for v in free:
        for side in ("Min", "Max"):
            if rng.random() < 0.3:
                base = Fraction(rng.randint(-10, 2) if side == "Min" else rng.randint(-2, 10), 2)
                col = [base + (Fraction(rng.randint(-2, 2), 2) if rng.random() < 0.5 else 0) for _ in range(n)]
                col = [None if rng.random() < 0.15 else str(c) for c in col]
                series["%s_%s" % (v["name"], side)] = col
        if rng.random() < 0.25:
            col = [str(Fraction(rng.randint(-8, 8), 2)) for _ in range(n)]
            if rng.random() < 0.3:
                col[rng.randrange(n)] = None
            if col[0] is None and v in spec["states"]:
                col[0] = "1"
            series[v["name"]] = col
    for v in spec["inputs"]:
        if v.get("fixed"):
            series[v["name"]] = [str(Fraction(rng.randint(-4, 4), 2)) for _ in range(n)]
    if not series:
        series["unrelated"] = ["0"] * n
    spec["series"] = series
    # bounds supplied by a class below ModelicaMixin
    spec["below_bounds"] = {}
    for v in spec["states"] + spec["algebraics"] + spec["inputs"]:
        if rng.random() < 0.2:
            lo = rng.choice([None, Fraction(rng.randint(-12, 0), 2)])
            hi = rng.choice([None, Fraction(rng.randint(0, 12), 2)])
            spec["below_bounds"][v["name"]] = [None if lo is None else str(lo), None if hi is None else str(hi)]
    # a declared output that is an alias of a control (own random stream): exported next to the control itself
    import random
    r2 = random.Random(json.dumps(spec, sort_keys=True, default=str))
    ctl = [u["name"] for u in spec["inputs"] if u["type"] == "Real" and not u.get("fixed")]
    if ctl and (r2.random() < 0.4 or idx < 2):
        u = r2.choice(ctl)
        spec["out_alias"] = ["out_" + u, u, r2.choice([1, -1])]
        # (pymoca merges the attributes of an eliminated alias into the canonical variable - largest signed
        #  nominal -; keep that third-party rule out of the comparison, as for `alias` above)
        for d_ in spec["inputs"]:
            if d_["name"] == u:
                d_.pop("nominal", None)
    return spec


def gen_sim(rng, idx):
    ns = rng.choice([1, 2, 3])
    spec = {"name": "S%d" % idx, "kind": "sim", "parameters": [], "states": [], "algebraics": [], "inputs": [{"name": "u0", "type": "Real"}],
            "outputs": [], "equations": [], "dt": 3600, "n": 3}
    if rng.random() < 0.3:
        spec["inputs"].append({"name": "u1", "type": "Real", "fixed": True})
    spec["parameters"].append({"name": "k", "value": str(Fraction(rng.randint(1, 6), 2))})
    spec["file_params"] = {"k": str(Fraction(rng.randint(1, 6), 2))} if rng.random() < 0.4 else {}
    # (the simulator takes parameter values from the model and the parameter file only)
    spec["code_params"] = {}
    spec["initial_state"], spec["seed"] = {}, {}
    for i in range(ns):
        d = {"name": "x%d" % i, "type": "Real"}
        r = rng.random()
        if r < 0.35:
            d["start"] = ["c", str(Fraction(rng.randint(-8, 8), 2))]
        elif r < 0.5:
            d["start"] = ["c", "0"]
        if rng.random() < 0.5:
            d["fixed"] = rng.random() < 0.6
        if rng.random() < 0.3:
            d["nominal"] = ["c", str(rng.choice([2, 10, Fraction(1, 2)]))]
        spec["states"].append(d)
        spec["equations"].append([["v", "der(x%d)" % i],
                                  ["*", ["c", "1/3600"], ["-", ["v", "u0"], ["*", ["v", "k"], ["v", "x%d" % i]]]]])
        if rng.random() < 0.5:
            spec["initial_state"]["x%d" % i] = str(Fraction(rng.randint(-8, 8), 2))
        if rng.random() < 0.5:
            spec["seed"]["x%d" % i] = str(Fraction(rng.randint(-8, 8), 2))
    spec["algebraics"].append({"name": "y", "type": "Real"})
    # every non-fixed start value is a soft target of the initialisation: keep the algebraic variable
    # independent of the states so that each state can reach its own target exactly
    spec["equations"].append([["v", "y"], ["+", ["*", ["c", "2"], ["v", "u0"]], ["c", "1"]]])
    spec["outputs"] = ["y"]
    spec["series"] = {u["name"]: [str(Fraction(rng.randint(-4, 4), 2)) for _ in range(3)] for u in spec["inputs"]}
    return spec


# ---- model text ----------------------------------------------------------------------------------
def num_mo(e, integer):
    if integer and e[0] == "c":
        return str(int(Fraction(e[1])))
    return mo.ast_mo(e)


def model_text(spec):
    lines = ["model %s" % spec["name"]]
    for p in spec["parameters"]:
        lines.append("  parameter Real %s = %s;" % (p["name"], mo.num(p["value"])))

    def attrs(v):
        parts = []
        for k in ("start", "fixed", "nominal", "min", "max"):
            if k in v:
                if k == "fixed":
                    parts.append("fixed=%s" % ("true" if v[k] else "false"))
                else:
                    parts.append("%s=%s" % (k, num_mo(v[k], v["type"] == "Integer")))
        return "(%s)" % ", ".join(parts) if parts else ""
    for v in spec["states"] + spec["algebraics"]:
        pre = "output " if v["name"] in spec["outputs"] else ""
        lines.append("  %s%s %s%s;" % (pre, v["type"], v["name"], attrs(v)))
    if spec.get("alias"):
        lines.append("  Real %s;" % spec["alias"][0])
    if spec.get("out_alias"):
        lines.append("  output Real %s;" % spec["out_alias"][0])
    for v in spec["inputs"]:
        lines.append("  input %s %s%s;" % (v["type"], v["name"], attrs(v)))
    lines.append("equation")
    for lhs, rhs in spec["equations"]:
        lines.append("  %s = %s;" % (mo.ast_mo(lhs), mo.ast_mo(rhs)))
    if spec.get("alias"):
        lines.append("  %s = -%s;" % tuple(spec["alias"]))
    if spec.get("out_alias"):
        lines.append("  %s = %s%s;" % (spec["out_alias"][0], "-" if spec["out_alias"][2] < 0 else "", spec["out_alias"][1]))
    lines.append("end %s;" % spec["name"])
    return "\n".join(lines) + "\n"


def write_inputs(spec, base):
    mdl, inp, outp = (os.path.join(base, d) for d in ("model", "input", "output"))
    for d in (mdl, inp, outp):
        os.makedirs(d)
    with open(os.path.join(mdl, spec["name"] + ".mo"), "w") as fh:
        fh.write(model_text(spec))
    mo.write_timeseries_csv(os.path.join(inp, "timeseries_import.csv"), T0, spec["dt"], spec["series"])
    if spec.get("file_params"):
        mo.write_row_csv(os.path.join(inp, "parameters.csv"), spec["file_params"])
    if spec.get("initial_state"):
        mo.write_row_csv(os.path.join(inp, "initial_state.csv"), spec["initial_state"])
    return dict(model_folder=mdl, model_name=spec["name"], input_folder=inp, output_folder=outp)


def fnum(x):
    x = float(x)
    if math.isnan(x):
        return "nan"
    if x >= BIG:
        return "inf"
    if x <= -BIG:
        return "-inf"
    return x


def run_opt(spec):
    import logging
    import warnings
    warnings.filterwarnings("ignore")
    logging.disable(logging.CRITICAL)
    import numpy as np
    from rtctools.optimization.collocated_integrated_optimization_problem import CollocatedIntegratedOptimizationProblem
    from rtctools.optimization.csv_mixin import CSVMixin
    from rtctools.optimization.modelica_mixin import ModelicaMixin
    from rtctools.optimization.timeseries import Timeseries

    base = tempfile.mkdtemp(prefix="verif_c14_")
    try:
        kwargs = write_inputs(spec, base)
        below = {k: tuple(-np.inf if i == 0 and b is None else np.inf if b is None else float(Fraction(b)) for i, b in enumerate(v))
                 for k, v in spec["below_bounds"].items()}

        class Below:
            def bounds(self):
                b = super().bounds()
                b.update(below)
                return b

        class P(CSVMixin, ModelicaMixin, Below, CollocatedIntegratedOptimizationProblem):
            def compiler_options(self):
                o = super().compiler_options()
                o["cache"] = False
                return o

            def parameters(self, ensemble_member):
                p = super().parameters(ensemble_member)
                for k, v in spec["code_params"].items():
                    p[k] = float(Fraction(v))
                return p

        p = P(**kwargs)
        p.pre()
        dv = p.dae_variables
        obs = {"roles": {k: [s.name() for s in dv[k]] for k in ("states", "algebraics", "control_inputs", "constant_inputs", "parameters")},
               "outputs": [s.name() for s in p.output_variables],
               "times": [float(t) for t in p.times()], "parameters": {k: float(v) for k, v in p.parameters(0).items()}}
        times = p.times()
        names = [v["name"] for v in spec["states"] + spec["algebraics"] + spec["inputs"]]

        def expand(b):
            if b is None:
                return None
            if isinstance(b, Timeseries):
                assert list(b.times) == list(times), (b.times, times)
                return [fnum(x) for x in b.values]
            return [fnum(b)] * len(times)
        bounds = p.bounds()
        obs["bounds"] = {n: [expand(bounds[n][0]), expand(bounds[n][1])] if n in bounds else None for n in names}
        hist = p.history(0)
        obs["history"] = {n: [[float(t) for t in hist[n].times], [fnum(x) for x in np.atleast_1d(hist[n].values)]] for n in names if n in hist}
        seed = p.seed(0)
        obs["seed"] = {n: [[float(t) for t in seed[n].times], [fnum(x) for x in seed[n].values]] for n in names if n in seed}
        obs["nominal"] = {n: float(p.variable_nominal(n)) for n in names}
        obs["discrete"] = {n: bool(p.variable_is_discrete(n)) for n in names}
        if spec.get("alias"):
            a = spec["alias"][0]
            obs["alias_nominal"] = float(p.variable_nominal(a))
            obs["alias_discrete"] = bool(p.variable_is_discrete(a))
        return obs
    finally:
        shutil.rmtree(base, ignore_errors=True)


def run_sim(spec):
    import logging
    import warnings
    warnings.filterwarnings("ignore")
    logging.disable(logging.CRITICAL)
    from rtctools._internal.alias_tools import AliasDict
    from rtctools.simulation.csv_mixin import CSVMixin
    from rtctools.simulation.simulation_problem import SimulationProblem

    base = tempfile.mkdtemp(prefix="verif_c14_")
    try:
        kwargs = write_inputs(spec, base)

        class S(CSVMixin, SimulationProblem):
            def compiler_options(self):
                o = super().compiler_options()
                o["cache"] = False
                return o

            def parameters(self):
                p = super().parameters()
                for k, v in spec["code_params"].items():
                    p[k] = float(Fraction(v))
                return p

            def seed(self):
                s = super().seed()
                for k, v in spec["seed"].items():
                    s[k] = float(Fraction(v))
                return s

        p = S(**kwargs)
        p.pre()
        p.initialize()
        names = [v["name"] for v in spec["states"]]
        obs = {"t0": {n: float(p.get_var(n)) for n in names + ["k", "y", "u0"]},
               "nominal": {n: float(p.get_variable_nominal(n)) for n in names},
               "parameters": {k: float(v) for k, v in p.parameters().items() if k == "k"},
               "constant_inputs": list(p.get_input_variables().keys())}
        return obs
    finally:
        shutil.rmtree(base, ignore_errors=True)


def safe_run(spec):
    try:
        return run_opt(spec) if spec["kind"] == "opt" else run_sim(spec)
    except Exception as e:  # noqa: BLE001
        import traceback
        return {"error": "%s: %s | %s" % (type(e).__name__, str(e)[:200], traceback.format_exc()[-600:])}


# ---- model terms -----------------------------------------------------------------------------------
def final_params(spec):
    vals = {}
    for p in spec["parameters"]:
        vals[p["name"]] = Fraction(p["value"])
    return vals


def gexpr_opt(e, idx):
    return "None" if e is None else "(Some %s)" % ast_gallina(e, idx)


def mvar_term(spec, v, kind, idx):
    return ("{| mv_kind := %s; mv_type := %s; mv_min := %s; mv_max := %s; mv_start := %s; mv_fixed := %s; "
            "mv_nominal := %s; mv_output := %s |}" % (
                kind, {"Real": "TReal", "Integer": "TInteger", "Boolean": "TBoolean"}[v["type"]],
                gexpr_opt(v.get("min"), idx), gexpr_opt(v.get("max"), idx), gexpr_opt(v.get("start"), idx),
                gbool(bool(v.get("fixed", False))), gexpr_opt(v.get("nominal"), idx), gbool(v["name"] in spec["outputs"])))


def xq_of(s, default):
    return default if s is None else Fraction(s)


def gpair(lo, hi):
    return "(%s, %s)" % (gxq(lo), gxq(hi))


def opt_terms(spec):
    pars = [p["name"] for p in spec["parameters"]]
    idx = {p: i for i, p in enumerate(pars)}
    par_term = glist(pars, lambda p: "(param_value %s %s %s)" % (
        gq(Fraction(next(x["value"] for x in spec["parameters"] if x["name"] == p))),
        goption(spec["file_params"].get(p), lambda s: gq(Fraction(s))),
        goption(spec["code_params"].get(p), lambda s: gq(Fraction(s)))))
    n = spec["n"]
    terms = ["flat_map ser_q %s" % par_term]
    for kind, group in (("KState", spec["states"]), ("KAlg", spec["algebraics"]), ("KInput", spec["inputs"])):
        for v in group:
            nm = v["name"]
            other = spec["below_bounds"].get(nm)
            other_t = "None" if other is None else "(Some %s)" % gpair(xq_of(other[0], float("-inf")), xq_of(other[1], float("inf")))
            is_free = not (kind == "KInput" and v.get("fixed"))
            fmin = spec["series"].get(nm + "_Min") if is_free else None
            fmax = spec["series"].get(nm + "_Max") if is_free else None
            files = []
            for k in range(n):
                if fmin is None and fmax is None:
                    files.append("None")
                else:
                    lo = float("-inf") if fmin is None or fmin[k] is None else Fraction(fmin[k])
                    hi = float("inf") if fmax is None or fmax[k] is None else Fraction(fmax[k])
                    files.append("(Some %s)" % gpair(lo, hi))
            col = spec["series"].get(nm)
            # a column named like the variable: its value at t0 is the history, the whole column the seed
            fhist = "None"
            fseeds = ["None"] * n
            if col is not None:
                if col[0] is not None:
                    fhist = "(Some %s)" % gq(Fraction(col[0]))
                # history keeps NaN (None): handled by the comparison below
                fseeds = ["(Some %s)" % gq(Fraction(c) if c is not None else Fraction(0)) for c in col]
            terms.append("ser_mvar %s %s %s %s %s %s" % (par_term, mvar_term(spec, v, kind, idx), other_t,
                                                       glist(files), fhist, glist(fseeds)))
    return terms


def sim_terms(spec):
    terms = []
    for v in spec["states"]:
        nm = v["name"]
        start = Fraction(v["start"][1]) if "start" in v else Fraction(0)
        terms.append("ser_sim (sim_start %s %s %s %s)" % (
            gq(start), gbool(bool(v.get("fixed", False))),
            goption(spec["initial_state"].get(nm), lambda s: gq(Fraction(s))),
            goption(spec["seed"].get(nm), lambda s: gq(Fraction(s)))))
    pv = spec["parameters"][0]["value"]
    terms.append("ser_q (param_value %s %s %s)" % (gq(Fraction(pv)), goption(spec["file_params"].get("k"), lambda s: gq(Fraction(s))),
                                                   goption(spec["code_params"].get("k"), lambda s: gq(Fraction(s)))))
    return terms


# ---- decoding and comparison -----------------------------------------------------------------------
class It:
    def __init__(self, v):
        self.it = iter(v)

    def z(self):
        return next(self.it)

    def q(self):
        return Fraction(next(self.it), next(self.it))

    def xq(self):
        t = next(self.it)
        return {0: "nan", 1: "-inf", 2: "inf"}.get(t) if t != 3 else self.q()

    def oq(self):
        return None if next(self.it) == 0 else self.q()


def same(impl, model, tol=1e-9):
    if isinstance(model, str) or isinstance(impl, str):
        return impl == model
    return abs(float(impl) - float(model)) <= tol * (1 + abs(float(model)))


ROLE = {0: "states", 1: "algebraics", 2: "control_inputs", 3: "constant_inputs"}


def compare_opt(ctx, spec, obs, vals):
    pars = [p["name"] for p in spec["parameters"]]
    it = It(vals[0])
    bad = []
    for p in pars:
        mv = it.q()
        if not same(obs["parameters"].get(p), mv):
            bad.append(("parameter/override-chain", p, obs["parameters"].get(p), str(mv)))
    n = spec["n"]
    k = 1
    expected_outputs = []
    expected_controls = []
    for group in (spec["states"], spec["algebraics"], spec["inputs"]):
        for v in group:
            nm = v["name"]
            it = It(vals[k])
            k += 1
            role = ROLE[it.z()]
            exported = it.z() == 1
            discrete = it.z() == 1
            if nm not in obs["roles"][role]:
                bad.append(("roles", nm, [r for r, l in obs["roles"].items() if nm in l], role))
            if exported:
                (expected_controls if role == "control_inputs" else expected_outputs).append(nm)
            if obs["discrete"][nm] != discrete:
                bad.append(("discrete", nm, obs["discrete"][nm], discrete))
            ob = obs["bounds"][nm]
            for t in range(n):
                lo, hi = it.xq(), it.xq()
                ilo = "-inf" if ob is None or ob[0] is None else ob[0][t]
                ihi = "inf" if ob is None or ob[1] is None else ob[1][t]
                if not same(ilo, lo) or not same(ihi, hi):
                    bad.append(("bounds/intersection", nm, [t, ilo, ihi], [str(lo), str(hi)]))
            h = it.oq()
            col = spec["series"].get(nm)
            ih = obs["history"].get(nm)
            if col is not None and col[0] is None:
                h = "nan"     # a gap in the file at t0 is handed on as NaN
            if (ih is None) != (h is None) or (ih is not None and (ih[0] != [0.0] or not same(ih[1][0], h))):
                bad.append(("history/fixed-start", nm, ih, str(h)))
            iseed = obs["seed"].get(nm)
            for t in range(n):
                s = it.oq()
                got = None if iseed is None else iseed[1][t]
                # an explicit seed of 0 is the default seed
                if not same(0.0 if got is None else got, Fraction(0) if s is None else s):
                    bad.append(("seed/start", nm, iseed, [t, str(s)]))
            nom = it.q()
            if not same(obs["nominal"][nm], nom) or not obs["nominal"][nm] > 0:
                bad.append(("nominal", nm, obs["nominal"][nm], str(nom)))
            if spec.get("alias") and spec["alias"][1] == nm:
                if not same(obs["alias_nominal"], nom) or obs["alias_discrete"] != discrete:
                    bad.append(("nominal/alias", spec["alias"][0], obs["alias_nominal"], str(nom)))
    if spec.get("out_alias"):
        expected_outputs.append(spec["out_alias"][0])
    if obs["outputs"] != expected_outputs + expected_controls and sorted(obs["outputs"]) != sorted(expected_outputs + expected_controls):
        bad.append(("outputs", "", obs["outputs"], expected_outputs + expected_controls))
    return bad


def compare_sim(ctx, spec, obs, vals):
    bad = []
    for v, val in zip(spec["states"], vals):
        it = It(val)
        src = it.z()
        q = it.q()
        got = obs["t0"][v["name"]]
        ctx.count("sim_source_%s" % {0: "seed", 1: "modelica", 2: "initial_state", 3: "default"}[src])
        if not same(got, q, 1e-6):
            bad.append(("sim/start-precedence", v["name"], got, [src, str(q)]))
    kq = It(vals[len(spec["states"])]).q()
    if not same(obs["t0"]["k"], kq) or not same(obs["parameters"]["k"], kq):
        bad.append(("sim/parameter-chain", "k", [obs["t0"]["k"], obs["parameters"]["k"]], str(kq)))
    for v in spec["states"]:
        exp = abs(Fraction(v["nominal"][1])) if "nominal" in v else 1
        if not same(obs["nominal"][v["name"]], exp):
            bad.append(("sim/nominal", v["name"], obs["nominal"][v["name"]], str(exp)))
    if sorted(obs["constant_inputs"]) != sorted(u["name"] for u in spec["inputs"]):
        bad.append(("sim/roles", "", obs["constant_inputs"], [u["name"] for u in spec["inputs"]]))
    return bad


def shape(spec):
    def sh(v):
        return [v["type"]] + [k + ":" + ("p" if k != "fixed" and "v" in json.dumps(v[k]) else "c") for k in ("min", "max", "start", "nominal", "fixed") if k in v] + \
               [str(v.get("fixed"))]
    if spec["kind"] == "sim":
        return ["sim", [sh(v) + [v["name"] in spec["initial_state"], v["name"] in spec["seed"], v.get("start", ["c", "x"])[1] == "0"]
                        for v in spec["states"]], bool(spec["file_params"]), bool(spec["code_params"])]
    return ["opt", sorted(json.dumps(sh(v)) for v in spec["states"] + spec["algebraics"] + spec["inputs"]),
            sorted(k.split("_")[-1] for k in spec["series"] if k.endswith(("_Min", "_Max"))), bool(spec["below_bounds"]),
            bool(spec["file_params"]), bool(spec["code_params"]), bool(spec.get("alias"))]


def nontrivial(spec):
    if spec["kind"] == "sim":
        return any(v["name"] in spec["initial_state"] or v["name"] in spec["seed"] for v in spec["states"])
    pdep = any("\"v\"" in json.dumps(v.get(k)) for v in spec["states"] + spec["algebraics"] + spec["inputs"] for k in ("min", "max", "start", "nominal") if k in v)
    second = any(k.endswith(("_Min", "_Max")) for k in spec["series"]) or spec["below_bounds"] or spec["file_params"] or spec["code_params"]
    return bool(pdep and second)


def run(ctx):
    replay = os.environ.get("VERIF_REPLAY")
    if replay:
        specs = [json.load(open(replay))["replay"]["spec"]]
    else:
        specs = [c["spec"] for c in core.corpus_cases(ID)]
        specs += [gen_opt(ctx.rng, i) for i in range(ctx.n(40, 1500))]
        specs += [gen_sim(ctx.rng, i) for i in range(ctx.n(16, 500))]
    with ProcessPoolExecutor(max_workers=12) as ex:
        results = list(ex.map(safe_run, specs, chunksize=2))
    terms, meta = [], []
    for spec, res in zip(specs, results):
        if "error" in res:
            ctx.count("model_exception")
            ctx.violation("modelica/exception", {"spec": spec, "model": model_text(spec), "error": res["error"]},
                          no_input="/repo/src/rtctools" not in res["error"],
                          what="a generated model could not be loaded: %s" % res["error"][:200])
            continue
        ts = opt_terms(spec) if spec["kind"] == "opt" else sim_terms(spec)
        meta.append((spec, res, len(terms), len(ts)))
        terms.extend(ts)
    vals = core.eval_terms(ID, ["Xq", "Expr", "Modelica"], terms, shard=150) if terms else []
    for spec, obs, a, k in meta:
        ctx.count("models_" + spec["kind"])
        ctx.case_done(core.fingerprint(shape(spec)), nontrivial(spec))
        v = vals[a:a + k]
        bad = compare_opt(ctx, spec, obs, v) if spec["kind"] == "opt" else compare_sim(ctx, spec, obs, v)
        for v_ in spec["states"] + spec["algebraics"] + spec["inputs"]:
            for key in ("min", "max", "start", "nominal", "fixed"):
                if key in v_:
                    ctx.count("attr_" + key)
            ctx.count("type_" + v_["type"])
        for b in bad:
            ctx.violation("modelica/" + b[0], {"spec": spec, "model": model_text(spec), "variable": b[1], "impl": b[2], "model_value": b[3],
                                               "observed": obs},
                          what="%s of %s: implementation %s, declared semantics %s" % (b[0], b[1], b[2], b[3]))
        if not bad and len(ctx.samples) < 3 and nontrivial(spec):
            ctx.sample({"model": model_text(spec), "bounds": obs.get("bounds"), "history": obs.get("history"), "t0": obs.get("t0")})


# ---- ensembles: start attributes are resolved with each member's own parameter values -------------------------
def run_members(spec):
    import logging
    import warnings
    warnings.filterwarnings("ignore")
    logging.disable(logging.CRITICAL)
    import numpy as np
    from rtctools.optimization.collocated_integrated_optimization_problem import CollocatedIntegratedOptimizationProblem
    from rtctools.optimization.modelica_mixin import ModelicaMixin
    base = tempfile.mkdtemp(prefix="verif_c14_")
    try:
        mdl = os.path.join(base, "model")
        os.makedirs(mdl)
        with open(os.path.join(mdl, spec["name"] + ".mo"), "w") as fh:
            fh.write(model_text(spec))
        E = len(spec["member_params"])

        class P(ModelicaMixin, CollocatedIntegratedOptimizationProblem):
            def compiler_options(self):
                o = super().compiler_options()
                o["cache"] = False
                return o

            def times(self, variable=None):
                return np.array([0.0, 1.0, 2.0])

            @property
            def ensemble_size(self):
                return E

            def parameters(self, ensemble_member):
                p = super().parameters(ensemble_member)
                for k, v in spec["member_params"][ensemble_member].items():
                    p[k] = float(Fraction(v))
                return p

        p = P(model_folder=mdl, model_name=spec["name"])
        names = [v["name"] for v in spec["states"] + spec["algebraics"]]
        out = {"history": [], "seed": []}
        for m in range(E):
            h = p.history(m)
            out["history"].append({n: [float(x) for x in np.atleast_1d(h[n].values)] for n in names if n in h})
            sd = p.seed(m)
            out["seed"].append({n: [float(x) for x in np.atleast_1d(sd[n].values)] for n in names if n in sd})
        return out
    except Exception as e:  # noqa: BLE001
        import traceback
        return {"error": "%s: %s | %s" % (type(e).__name__, str(e)[:200], traceback.format_exc()[-400:])}
    finally:
        shutil.rmtree(base, ignore_errors=True)


def member_cases(ctx):
    rng = ctx.rng
    specs = []
    for i in range(ctx.n(8, 200)):
        s = gen_opt(rng, 5000 + i)
        s["inputs"] = [u for u in s["inputs"] if u["type"] == "Real"][:1] or [{"name": "u0", "type": "Real"}]
        s["equations"] = [[["v", "der(%s)" % st["name"]], ["-", ["v", s["inputs"][0]["name"]], ["v", st["name"]]]] for st in s["states"]] + \
                         [[["v", a["name"]], ["+", ["v", s["states"][0]["name"]], ["c", str(k + 1)]]] for k, a in enumerate(s["algebraics"])]
        s.pop("alias", None)
        s.pop("out_alias", None)
        pars = [p["name"] for p in s["parameters"]]
        # make sure a fixed and a free start depend on a parameter
        s["states"][0].update({"start": ["*", ["c", "3/2"], ["v", pars[0]]], "fixed": True})
        if s["algebraics"]:
            s["algebraics"][0].update({"start": ["+", ["v", pars[-1]], ["c", "1/2"]], "fixed": False})
        E = rng.choice([2, 3])
        s["member_params"] = [{p: str(Fraction(rng.randint(-8, 8), 2)) for p in pars if rng.random() < 0.7} for _ in range(E)]
        specs.append(s)
    with ProcessPoolExecutor(max_workers=10) as ex:
        results = list(ex.map(run_members, specs))
    terms, meta = [], []
    for s, res in zip(specs, results):
        if "error" in res:
            ctx.violation("modelica/member-exception", {"spec": s, "error": res["error"]}, no_input="rtctools" not in res["error"],
                          what="an ensemble model could not be loaded: %s" % res["error"][:160])
            continue
        pars = [p["name"] for p in s["parameters"]]
        idx = {p: i for i, p in enumerate(pars)}
        for m, mp in enumerate(s["member_params"]):
            par_term = glist(pars, lambda p: gq(Fraction(mp[p]) if p in mp else Fraction(next(x["value"] for x in s["parameters"] if x["name"] == p))))
            for kind, group in (("KState", s["states"]), ("KAlg", s["algebraics"])):
                for v in group:
                    terms.append("ser_oq (history_of %s %s) ++ ser_oq (seed_of %s %s)" % (par_term, mvar_term(s, v, kind, idx), par_term, mvar_term(s, v, kind, idx)))
                    meta.append((s, res, m, v["name"]))
    vals = core.eval_terms(ID + "m", ["Xq", "Expr", "Modelica"], terms, shard=200) if terms else []
    seen = set()
    for (s, res, m, nm), v in zip(meta, vals):
        if id(s) not in seen:
            seen.add(id(s))
            ctx.case_done(core.fingerprint(["members", len(s["member_params"]), len(s["states"]), len(s["algebraics"])]), True)
            ctx.count("member_models")
        it = It(v)
        h, sd = it.oq(), it.oq()
        gh = res["history"][m].get(nm)
        gs = res["seed"][m].get(nm)
        if (gh is None) != (h is None) or (h is not None and not same(gh[-1], h)):
            ctx.violation("modelica/member-history", {"spec": s, "model": model_text(s), "member": m, "variable": nm, "impl": gh, "expected": str(h)},
                          what="member %d: initial condition of %s is %s, its own parameter values give %s" % (m, nm, gh, h))
        if not same(0.0 if gs is None else gs[0], Fraction(0) if sd is None else sd):
            ctx.violation("modelica/member-seed", {"spec": s, "model": model_text(s), "member": m, "variable": nm, "impl": gs, "expected": str(sd)},
                          what="member %d: seed of %s is %s, its own parameter values give %s" % (m, nm, gs, sd))


_run_core = run


def run(ctx):  # noqa: F811
    _run_core(ctx)
    if not os.environ.get("VERIF_REPLAY"):
        member_cases(ctx)


# ---- declared min / max at the simulator's initial state ---------------------------------------------------
SIM_BOUND_MODELS = [
    # (name, model text, {variable: (min, max)}, [(lhs variable, rhs as python expression over the t0 values)])
    ("SB1", """model SB1
  parameter Real hm = 2.0;
  input Real u0;
  Real V(start=0.0);
  Real h(min=hm);
equation
  der(V) = (u0 - 0.1 * V) / 3600.0;
  h = 0.5 * V;
end SB1;
""", {"h": (2.0, None)}, [("h", "0.5 * V")]),
    ("SB2", """model SB2
  input Real u0;
  Real x0(start=3.0);
  Real x1(start=3.0);
  Real a0;
  Real a1(max=4.0);
equation
  der(x0) = (u0 - x0) / 3600.0;
  der(x1) = (u0 - 2.0 * x1) / 3600.0;
  a0 = x0 - x1;
  a1 = x0 + x1;
end SB2;
""", {"a1": (None, 4.0)}, [("a0", "x0 - x1"), ("a1", "x0 + x1")]),
    ("SB3", """model SB3
  parameter Real hm = 2.0;
  input Real u0;
  Real x0(start=3.0, min=-8.0);
  Real h(max=2.0 * hm, nominal=10.0);
  Real g(min=-1.5);
equation
  der(x0) = (u0 - x0) / 3600.0;
  h = x0 + 5.0;
  g = x0;
end SB3;
""", {"h": (None, 4.0), "g": (-1.5, None), "x0": (-8.0, None)}, [("h", "x0 + 5.0"), ("g", "x0")]),
    ("SB4", """model SB4
  input Real u0;
  Real x0(start=0.0, min=1.5, nominal=5.0);
  Real y;
equation
  der(x0) = (u0 - x0) / 3600.0;
  y = 2.0 * x0;
end SB4;
""", {"x0": (1.5, None)}, [("y", "2.0 * x0")]),
]


def run_sim_bounds(item):
    import logging
    import warnings
    warnings.filterwarnings("ignore")
    logging.disable(logging.CRITICAL)
    from rtctools.simulation.csv_mixin import CSVMixin
    from rtctools.simulation.simulation_problem import SimulationProblem

    name, text, _, _ = item
    base = tempfile.mkdtemp(prefix="verif_c14_")
    try:
        mdl, inp, outp = (os.path.join(base, d) for d in ("model", "input", "output"))
        for d in (mdl, inp, outp):
            os.makedirs(d)
        with open(os.path.join(mdl, name + ".mo"), "w") as fh:
            fh.write(text)
        mo.write_timeseries_csv(os.path.join(inp, "timeseries_import.csv"), T0, 3600, {"u0": ["1", "1", "1"]})

        class S(CSVMixin, SimulationProblem):
            def compiler_options(self):
                o = super().compiler_options()
                o["cache"] = False
                return o
        p = S(model_folder=mdl, model_name=name, input_folder=inp, output_folder=outp)
        p.pre()
        p.initialize()
        import re
        return {n: float(p.get_var(n)) for n in re.findall(r"^\s+(?:input )?Real (\w+)", text, re.M)}
    except Exception as e:  # noqa: BLE001
        return {"error": "%s: %s" % (type(e).__name__, str(e)[:200])}
    finally:
        shutil.rmtree(base, ignore_errors=True)


def sim_bound_cases(ctx):
    """declared min / max (numbers and parameter expressions) of states and algebraic variables hold at the
    simulator's initial state, together with the model equations"""
    from concurrent.futures import ProcessPoolExecutor
    with ProcessPoolExecutor(max_workers=4) as ex:
        results = list(ex.map(run_sim_bounds, SIM_BOUND_MODELS))
    for (name, text, bnds, eqs), t0 in zip(SIM_BOUND_MODELS, results):
        ctx.case_done(core.fingerprint(["sim-bounds", name]), True)
        ctx.count("sim_bound_models")
        if "error" in t0:
            ctx.count("sim_bound_unsolved")
            ctx.violation("sim/bounds-initialize", {"model": text, "error": t0["error"]}, no_input=True,
                          what="initialize() failed on a model with declared bounds: %s" % t0["error"][:120])
            continue
        for v, (lo, hi) in bnds.items():
            if (lo is not None and t0[v] < lo - 1e-6) or (hi is not None and t0[v] > hi + 1e-6):
                ctx.violation("sim/declared-bound", {"model": text, "variable": v, "value": t0[v], "min": lo, "max": hi, "t0": t0},
                              what="simulation initial state: %s = %g outside its declared [%s, %s]" % (v, t0[v], lo, hi))
        for lhs, rhs in eqs:
            want = eval(rhs, {}, dict(t0))  # noqa: S307 - fixed expressions above
            if abs(t0[lhs] - want) > 1e-6 * (1 + abs(want)):
                ctx.violation("sim/initial-equations", {"model": text, "equation": "%s = %s" % (lhs, rhs), "t0": t0},
                              what="simulation initial state violates %s = %s" % (lhs, rhs))


_run_core3 = run


def run(ctx):  # noqa: F811
    _run_core3(ctx)
    if not os.environ.get("VERIF_REPLAY"):
        sim_bound_cases(ctx)
