"""C18 — homotopy: the real HomotopyMixin.optimize loop driven by a scripted inner optimize()."""
import itertools
import json
import os
from fractions import Fraction

import numpy as np

from .. import core
from ..core import gq, gbool, glist

ID = "C18"
PROPS_FILE = "props/C18.v"
MODEL_FILES = ["Homotopy", "HomotopySpec", "HomotopyGp"]
RULE = ("exhaustive success/failure scripts of the inner solves (all boolean sequences up to the "
        "tier's length) x a grid of (theta_start, delta_theta_0, delta_theta_min) with dyadic values "
        "(exact comparison with the Gallina loop) and non-dyadic values (trace judged by the Coq "
        "trace_ok predicate with tol=1e-9); non-trivial = at least one failed solve or theta_start>0 "
        "or a clamped step; distinct = distinct (options, script) pairs whose trace differs"
        ' Also: real transcribed inner problems whose equations depend on the homotopy parameter, solved by IPOPT under the loop for theta_start in {0, 0.25, 0.3, 0.5}: the returned trajectory solves the theta = 1 equations.')
MODELLED = "src/rtctools/optimization/homotopy_mixin.py optimize() loop, seed() provenance, parameters() theta"
NOT_MODELLED = "binary64 rounding of theta accumulation (non-dyadic options are judged by the trace predicate only); linear_collocation / transcription-cache side effects at theta = 0"
ASSUMPTIONS = ["the inner optimize() is an oracle: any success/failure sequence"]

TOL = Fraction(1, 10**9)


def make_problem_class():
    from rtctools.optimization.homotopy_mixin import HomotopyMixin
    from rtctools.optimization.optimization_problem import OptimizationProblem
    from rtctools.optimization.timeseries import Timeseries

    class Scripted(OptimizationProblem):
        """stands in for everything below HomotopyMixin; records what each inner solve sees"""

        def __init__(self, script, opts):
            self._script = list(script)
            self._opts = opts
            self._log = []
            self._solve_no = 0
            self._last_theta = None
            self._pre = 0
            self._post = 0

        ensemble_size = 1

        def pre(self):
            self._pre += 1

        def post(self):
            self._post += 1

        def times(self, variable=None):
            return np.array([0.0, 1.0, 2.0])

        def seed(self, ensemble_member):
            return {}

        def parameters(self, ensemble_member):
            return {}

        def dynamic_parameters(self):
            return []

        def variable(self, name):
            return name

        def clear_transcription_cache(self):
            pass

        def extract_results(self, ensemble_member=0):
            return {"x": np.full(3, self._last_theta)}

        def optimize(self, preprocessing=True, postprocessing=True, log_solver_failure_as_error=True):
            assert not preprocessing and not postprocessing
            theta = self.parameters(0)["theta"]
            seed = self.seed(0)
            if "x" in seed:
                s = seed["x"]
                assert isinstance(s, Timeseries)
                sv = float(s.values[0])
                assert np.all(s.values == sv)
            else:
                sv = None
            ok = self._script[self._solve_no] if self._solve_no < len(self._script) else True
            self._solve_no += 1
            self._last_theta = theta
            self._log.append((theta, ok, sv))
            if self._solve_no > 390:
                raise RuntimeError("runaway homotopy loop")
            return ok

    for nm in OptimizationProblem.__abstractmethods__:
        if nm not in Scripted.__dict__:
            setattr(Scripted, nm, lambda self, *a, **k: None)
    Scripted.__abstractmethods__ = frozenset()

    class Problem(HomotopyMixin, Scripted):
        def homotopy_options(self):
            o = super().homotopy_options()
            o.update(self._opts)
            return o

    Problem.__abstractmethods__ = frozenset()
    return Problem


def run_impl(Problem, ts, d0, dm, script):
    p = Problem(script, {"theta_start": ts, "delta_theta_0": d0, "delta_theta_min": dm})
    try:
        ret = p.optimize()
    except RuntimeError:
        ret = None
    final_theta = p.parameters(0)["theta"]
    return ret, p._log, p._pre, p._post, p._solve_no, final_theta


def ser_impl(ret, log):
    out = [2 if ret is None else (1 if ret else 0), len(log)]
    for th, ok, sv in log:
        f = Fraction(th)
        out += [f.numerator, f.denominator, 1 if ok else 0]
        if sv is None:
            out += [0]
        else:
            g = Fraction(sv)
            out += [1, g.numerator, g.denominator]
    return out


def gtrace(log):
    return glist(log, lambda e: "(%s, %s, %s)" % (gq(e[0]), gbool(e[1]), "None" if e[2] is None else "(Some %s)" % gq(e[2])))


DYADIC_OPTS = [
    (0.0, 1.0, 0.0625), (0.0, 1.0, 0.25), (0.0, 0.5, 0.125), (0.0, 0.25, 0.0625), (0.25, 1.0, 0.125),
    (0.25, 0.5, 0.125), (0.5, 0.375, 0.0625), (0.0, 0.375, 0.125), (1.0, 1.0, 0.25), (0.75, 0.125, 0.0625),
    (0.0, 2.0, 0.25), (0.3125, 0.3125, 0.078125), (0.0, 0.75, 0.5), (0.0, 1.0, 2.0), (0.875, 0.5, 0.03125),
]
FLOAT_OPTS = [
    (0.0, 1.0, 0.01), (0.3, 1.0, 0.01), (0.0, 0.3, 0.01), (0.0, 0.1, 0.05), (0.0, 0.1, 0.01), (0.7, 0.1, 0.02),
    (0.1, 0.45, 0.1), (0.0, 0.2, 0.06), (0.9, 0.3, 0.01), (0.0, 1.0 / 3.0, 0.04), (0.6, 0.7, 0.3),
]


def scripts(maxlen):
    for n in range(0, maxlen + 1):
        for s in itertools.product([True, False], repeat=n):
            yield list(s)


def run(ctx):
    Problem = make_problem_class()
    replay = os.environ.get("VERIF_REPLAY")
    maxlen = ctx.n(7, 11)
    cases = []
    if replay:
        r = json.load(open(replay))["replay"]
        cases = [(r["opts"][0], r["opts"][1], r["opts"][2], r["script"], r["dyadic"])]
    else:
        for c in core.corpus_cases(ID):
            cases.append((c["opts"][0], c["opts"][1], c["opts"][2], c["script"], c["dyadic"]))
        for (ts, d0, dm) in DYADIC_OPTS:
            for s in scripts(maxlen):
                cases.append((ts, d0, dm, s, True))
        for (ts, d0, dm) in FLOAT_OPTS:
            for s in scripts(maxlen - 1):
                cases.append((ts, d0, dm, s, False))
        # random longer scripts and random options
        for _ in range(ctx.n(300, 5000)):
            dy = ctx.rng.random() < 0.6
            if dy:
                ts = ctx.rng.choice([0, 0, 1, 2, 3, 5, 8, 13, 16]) / 16.0
                d0 = ctx.rng.choice([1, 2, 3, 4, 6, 8, 16, 24]) / 16.0
                dm = ctx.rng.choice([1, 2, 4, 8]) / 64.0
            else:
                ts = round(ctx.rng.random() * ctx.rng.choice([0, 1, 1]), 3)
                d0 = round(0.02 + ctx.rng.random(), 3)
                dm = round(0.005 + ctx.rng.random() * 0.2, 3)
            s = [ctx.rng.random() < 0.6 for _ in range(ctx.rng.randint(5, 30))]
            cases.append((ts, d0, dm, s, dy))
    # a script only matters up to the number of solves actually made: dedupe on the consumed prefix
    seen = set()
    rows = []
    for ts, d0, dm, s, dy in cases:
        ret, log, npre, npost, nsolves, final_theta = run_impl(Problem, ts, d0, dm, s)
        key = (ts, d0, dm, tuple(e[1] for e in log))
        if key in seen:
            continue
        seen.add(key)
        rows.append(dict(opts=[ts, d0, dm], script=[e[1] for e in log], dyadic=dy, ret=ret, log=log,
                         pre=npre, post=npost, final_theta=final_theta))
    # model traces for dyadic cases, trace_ok for all
    dy_rows = [r for r in rows if r["dyadic"]]
    terms = ["run_case %s %s %s %s" % (gq(r["opts"][0]), gq(r["opts"][1]), gq(r["opts"][2]), glist(r["script"], gbool))
             for r in dy_rows]
    vals = core.eval_terms(ID, ["Homotopy"], terms)
    for r, v in zip(dy_rows, vals):
        r["model"] = v
    sterms = []
    for r in rows:
        tol = Fraction(0) if r["dyadic"] else TOL
        sterms.append("spec_case %s %s %s %s %s %s" % (
            gq(r["opts"][0]), gq(r["opts"][1]), gq(r["opts"][2]), gq(tol),
            gbool(bool(r["ret"])), gtrace(r["log"])))
    svals = core.eval_terms(ID + "spec", ["Homotopy", "HomotopySpec"], sterms, shard=300)
    for r, sv in zip(rows, svals):
        impl = ser_impl(r["ret"], r["log"])
        spec_ok = sv == [1] and r["ret"] is not None and r["pre"] == 1 and r["post"] == 1
        # results / parameter after the run: the theta of the last solve
        nontriv = (not all(r["script"])) or r["opts"][0] > 0 or any(e[0] == 1.0 for e in r["log"][:-1])
        ctx.case_done(json.dumps([r["opts"], r["script"]]), nontriv)
        ctx.count("dyadic" if r["dyadic"] else "non_dyadic")
        ctx.count("ret_%s" % r["ret"])
        ctx.count("solves", len(r["log"]))
        if len(ctx.samples) < 3 and not all(r["script"]) and len(r["script"]) > 3:
            ctx.sample({"opts": r["opts"], "script": r["script"], "impl_trace": [[e[0], e[1], e[2]] for e in r["log"]],
                        "ret": r["ret"], "model": r.get("model")})
        rep = {"opts": r["opts"], "script": r["script"], "dyadic": r["dyadic"], "ret": r["ret"],
               "impl_trace": [[e[0], e[1], e[2]] for e in r["log"]], "model": r.get("model"),
               "trace_ok": sv, "pre_calls": r["pre"], "post_calls": r["post"]}
        if not spec_ok:
            ctx.violation("homotopy/trace-violates-spec", rep,
                          what="homotopy trace violates trace_ok (C18_protocol): opts=%s script=%s" % (r["opts"], r["script"]))
        elif r["dyadic"] and r["model"] != impl:
            rep["broken_correspondence"] = "Homotopy.v loop vs HomotopyMixin.optimize; theorems C18_* no longer apply to the code"
            ctx.violation("homotopy/model-mismatch", rep, no_input=True,
                          what="homotopy trace differs from the Gallina loop although trace_ok holds")
    ctx.extra["exhaustive"] = False
    ctx.extra["exhaustive_note"] = "all scripts up to length %d for %d dyadic and (length %d) %d non-dyadic option triples" % (
        maxlen, len(DYADIC_OPTS), maxlen - 1, len(FLOAT_OPTS))


# ---- the real inner problem under the homotopy loop: what is returned solves the theta = 1 problem -----------
def real_homotopy_runs(ctx):
    """a transcribed model whose equations depend on the homotopy parameter, solved by IPOPT under the real
    HomotopyMixin for several (theta_start, delta_theta_0): the returned trajectory must satisfy the
    equations at theta = 1, and every inner solve must have used the theta the loop announced"""
    import numpy as np
    from fractions import Fraction
    from rtctools.optimization.homotopy_mixin import HomotopyMixin
    from .. import problems
    rng = ctx.rng
    for _ in range(ctx.n(6, 60)):
        ts = rng.choice([0.0, 0.0, 0.25, 0.5, 0.3])
        d0 = rng.choice([1.0, 0.5, 0.25])
        a, b = rng.randint(2, 6), rng.randint(-3, 3)
        spec = {"times": ["0", "1", "2"], "states": [], "algebraics": ["y", "w"], "controls": [], "parameters": ["hth"],
                "param_values": [{"hth": "0"}],
                # y = a * hth + b ;  w = y * hth
                "residual": [["-", ["v", "y"], ["+", ["*", ["c", str(a)], ["v", "hth"]], ["c", str(b)]]],
                             ["-", ["v", "w"], ["*", ["v", "y"], ["v", "hth"]]]]}
        Base = problems.make_base(spec)
        log = []

        class P(HomotopyMixin, Base):
            def homotopy_options(self):
                o = super().homotopy_options()
                o.update({"homotopy_parameter": "hth", "theta_start": ts, "delta_theta_0": d0, "delta_theta_min": 0.01})
                return o

            def solver_options(self):
                o = super().solver_options()
                o["ipopt"] = {"print_level": 0, "tol": 1e-10}
                o["print_time"] = False
                return o

            def priority_completed(self, priority):
                pass

            def transcribe(self):
                log.append(float(self.parameters(0)["hth"]))
                return super().transcribe()

        try:
            p = P()
            ok = p.optimize()
            r = p.extract_results(0)
            y, w = [float(v) for v in r["y"]], [float(v) for v in r["w"]]
        except Exception as e:  # noqa: BLE001
            ctx.violation("homotopy/real-run-exception", {"theta_start": ts, "delta_theta_0": d0, "error": "%s: %s" % (type(e).__name__, str(e)[:160])},
                          what="a real inner problem under the homotopy loop raised %s" % type(e).__name__)
            continue
        ctx.case_done(core.fingerprint(["real", ts, d0]), ts > 0)
        ctx.count("real_homotopy_runs")
        rep = {"theta_start": ts, "delta_theta_0": d0, "a": a, "b": b, "thetas_at_transcribe": log, "y": y, "w": w, "returned": bool(ok)}
        if not ok:
            ctx.violation("homotopy/real-run-failed", rep, what="a solvable homotopy run returned failure")
        elif any(abs(v - (a + b)) > 1e-6 for v in y) or any(abs(v - (a + b)) > 1e-6 for v in w):
            ctx.violation("homotopy/not-the-final-problem", rep,
                          what="optimize() returned success but y = %s, w = %s do not solve the theta = 1 equations (y = w = %s); thetas solved: %s" % (
                              y[:2], w[:2], a + b, log))
        elif not log or abs(log[-1] - 1.0) > 1e-12:
            ctx.violation("homotopy/last-theta", rep, what="the last inner solve was at theta = %s" % (log[-1:] or None))


_run_core = run


def run(ctx):  # noqa: F811
    _run_core(ctx)
    if not os.environ.get("VERIF_REPLAY"):
        real_homotopy_runs(ctx)


# ---- homotopy around goal programming: what every inner solve is seeded with ---------------------------------
def gp_homotopy_run(script, ts=0.0, d0=1.0):
    """HomotopyMixin over GoalProgrammingMixin (two priorities) on a transcribed model; the solver is scripted:
    solve number k returns the constant vector k+1 and succeeds iff script[k].  Returns the log of
    (theta, priority, ok, first entry of x0)."""
    import casadi as ca
    import numpy as np
    from rtctools.optimization.goal_programming_mixin import GoalProgrammingMixin
    from rtctools.optimization.goal_programming_mixin_base import Goal
    from rtctools.optimization.homotopy_mixin import HomotopyMixin
    from .. import problems

    spec = {"times": ["0", "1", "2"], "states": [], "algebraics": ["y", "w"], "controls": ["u"], "parameters": ["hth"],
            "param_values": [{"hth": "0"}], "var_times": {"u": ["0", "2"]},          # (the control lives on a grid of its own)
            "residual": [["-", ["v", "y"], ["+", ["*", ["c", "3"], ["v", "hth"]], ["v", "u"]]],
                         ["-", ["v", "w"], ["*", ["v", "y"], ["v", "hth"]]]]}
    Base = problems.make_base(spec, (HomotopyMixin, GoalProgrammingMixin))
    log = []

    class G(Goal):
        def __init__(self, prio, var):
            self.priority = prio
            self._var = var

        def function(self, op, em):
            return op.state(self._var)

    evec = ca.MX.sym("evec", 2)

    class P(Base):
        def homotopy_options(self):
            o = super().homotopy_options()
            o.update({"homotopy_parameter": "hth", "theta_start": ts, "delta_theta_0": d0, "delta_theta_min": 0.01})
            return o

        @property
        def extra_variables(self):
            # a vector-valued extra variable of the user next to the violation variables of the goals
            return super().extra_variables + [evec]

        def path_goals(self):
            return [G(1, "y"), G(2, "w")]

        def priority_started(self, priority):
            self._cur_prio = int(priority)
            super().priority_started(priority)

        def seed(self, ensemble_member):
            # (NumPy 2: one-element arrays of extra variables cannot be cast in the Timeseries seed path)
            s = super().seed(ensemble_member)
            for k in list(s.keys()):
                v = s[k]
                if isinstance(v, np.ndarray) and v.shape == (1,):
                    s[k] = float(v[0])
            return s

        def solver_options(self):
            o = super().solver_options()
            prob = self

            def solver(name, plugin, nlp, opts):
                class S:
                    def __call__(self, x0, lbx, ubx, lbg, ubg):
                        k = len(log)
                        ok = script[k] if k < len(script) else True
                        n = nlp["x"].shape[0]
                        xs = np.array(x0).ravel()
                        fi = ca.Function("i", [prob.solver_input], [ca.vertcat(*[prob.state_vector(v_, 0) for v_ in ("y", "w", "u", "evec")])])
                        mine = [int(round(float(q))) for q in np.array(fi(ca.DM(list(range(n))))).ravel()]
                        log.append({"theta": float(prob.parameters(0)["hth"]), "priority": prob._cur_prio, "ok": bool(ok),
                                    "x0": float(xs[0]), "x0_model_variables": [float(xs[i]) for i in mine]})
                        self._ok = ok
                        if k > 390:
                            raise RuntimeError("runaway loop")
                        return {"x": ca.DM(np.full(n, float(k + 1))), "f": ca.DM(0.0), "lam_g": ca.DM.zeros(nlp["g"].shape[0]),
                                "lam_x": ca.DM.zeros(n)}

                    def stats(self):
                        return {"success": self._ok, "return_status": "Solve_Succeeded" if self._ok else "Infeasible_Problem_Detected"}
                return S()
            o["casadi_solver"] = solver
            return o

    p = P()
    try:
        ret = p.optimize()
    except RuntimeError:
        ret = None
    return ret, log


def gp_homotopy_cases(ctx):
    """every solve of priority 1 after the first homotopy step starts from the last accepted solution (the final
    priority of the last successful step), every later priority from the priority before it"""
    scripts = [[True, True, True, False], [True, True, False], [True, True, True, False, True, False], [True, True, True, True],
               [True, True, True, False, False]]
    for _ in range(ctx.n(3, 40)):
        scripts.append([ctx.rng.random() < 0.7 for _ in range(8)])
    runs = []
    for sc in scripts:
        sc = [True, True] + sc[2:]          # the first homotopy step succeeds
        try:
            ret, log = gp_homotopy_run(sc)
            runs.append((sc, ret, log))
        except Exception as e:  # noqa: BLE001
            ctx.violation("homotopy/gp-run-exception", {"script": sc, "error": "%s: %s" % (type(e).__name__, str(e)[:200])}, no_input=True,
                          what="homotopy over goal programming raised %s" % type(e).__name__)
            continue
        ctx.case_done(core.fingerprint(["gp-homotopy", sc[:len(log)]]), not all(sc[:len(log)]))
        ctx.count("gp_homotopy_runs")
        accepted, step_first, prev_ok = None, 0, True
        for k, e in enumerate(log):
            if e["priority"] == 1:
                want = 0.0 if accepted is None else accepted
                step_ok = True
            else:
                want = float(k)             # the solve before it returned the vector k
            if abs(e["x0"] - want) > 1e-9 or any(abs(x - want) > 1e-9 for x in e["x0_model_variables"]):
                ctx.violation("homotopy/gp-seed", {"script": sc, "log": log, "solve": k, "expected_start": want},
                              what="solve %d (theta %s, priority %d) started from the solution tagged %s, expected %s (last accepted solution%s)" % (
                                  k, e["theta"], e["priority"], e["x0"], want, "" if e["priority"] == 1 else " of the previous priority"))
                break
            step_ok = step_ok and e["ok"]
            if e["priority"] == 2 and step_ok:
                accepted = float(k + 1)
    # the same scripts through the Gallina model of the nested loop (HomotopyGp.v): identical traces
    vals = core.eval_terms(ID + "gp", ["Homotopy", "HomotopyGp"],
                           ["grun_case 0 1 (1 # 100) 2%%nat %s" % glist(sc, gbool) for sc, _, _ in runs]) if runs else []
    for (sc, ret, log), v in zip(runs, vals):
        impl = [2 if ret is None else (1 if ret else 0), len(log)]
        for e in log:
            th = Fraction(e["theta"])
            impl += [th.numerator, th.denominator, e["priority"] - 1, 1 if e["ok"] else 0, int(round(e["x0"]))]
        if impl != list(v):
            ctx.violation("homotopy/gp-model-mismatch", {"script": sc, "log": log, "returned": ret, "model": list(v),
                                                         "broken_correspondence": "HomotopyGp.grun vs HomotopyMixin over GoalProgrammingMixin; C18_gp_* no longer apply"},
                          no_input=True, what="the nested homotopy / goal-programming loop differs from HomotopyGp.v")


_run_core_gp = run


def run(ctx):  # noqa: F811
    _run_core_gp(ctx)
    if not os.environ.get("VERIF_REPLAY"):
        gp_homotopy_cases(ctx)
