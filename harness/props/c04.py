"""C04 — target goals stay inside their epsilon envelope; critical goals are hard; ill-formed goals
are rejected before any solve."""
import json
import math
from fractions import Fraction

import casadi as ca
import numpy as np

from .. import core, gp
from ..core import gq, gbool, glist, gz
from . import c02

ID = "C04"
PROPS_FILE = "props/C04.v"
MODEL_FILES = ["Xq", "Interval", "Goals", "GoalValidate"]
RULE = ("(A) goal lists for _gp_validate_goals: a mostly-valid stream plus a malformed stream (target outside / "
        "on the edge of the range, non-positive nominal or weight, critical minimisation goal, missing range, "
        "range on a minimisation goal, Timeseries target on a point goal, negative relaxation, relaxation with "
        "keep_soft_constraints, non-monotone targets on one function key, min > max), numeric / Timeseries targets "
        "with NaN / inf entries; accept/reject compared with GoalValidate.validate; (B) real multi-priority "
        "solves: every target goal, member and step with a finite target lies in the envelope of the reported "
        "eps in [0,1]; critical goals are met in every solution from their priority on or optimize() fails. "
        "non-trivial = a rejected list, or a run with a NaN-gap / critical goal; distinct = abstracted shapes"
        ' Also: violation variables checked in every later solution that still contains them (violation-shift cases), two critical goals on one quantity in either order, three-goal monotonicity chains.')
MODELLED = ("goal_programming_mixin_base.py _gp_validate_goals (604-772), soft constraint rows (915-962), "
            "critical goals in _gp_goal_hard_constraint / _gp_update_constraint_store")
NOT_MODELLED = "vector goals (size > 1); exception messages; the solver (runs are sampled, tolerance 1e-6)"
ASSUMPTIONS = ["solver contract: success => feasible within tolerance"]


# ---------------------------------------------------------------------------------------------------
# A. validation
# ---------------------------------------------------------------------------------------------------
DEFECTS = ["non_monotone_chain_min", "non_monotone_chain_max","none", "none", "none", "none", "tmin_below_range", "tmin_eq_lo", "tmax_above_range", "tmax_eq_hi",
           "nominal_zero", "nominal_negative", "weight_zero", "critical_minimisation", "no_range", "range_on_min",
           "series_on_point", "negative_relax", "relax_keep_soft", "non_monotone_min", "non_monotone_max",
           "min_gt_max", "lo_ge_hi", "tmin_above_hi"]


def gen_vcase(rng):
    n = rng.choice([2, 3, 4])
    is_path = rng.random() < 0.6
    keep_soft = rng.random() < 0.25
    monotone = rng.random() < 0.85
    defect = rng.choice(DEFECTS)
    ngoals = rng.randint(1, 4)
    goals = []
    for k in range(ngoals):
        kind = rng.choice(["min", "max", "both", "minimize", "critical"])
        fk = rng.choice([1, 1, 2, 3])
        g = {"fk": fk, "prio": rng.choice([1, 2, 2, 3, "5/2"]), "lo": -10.0, "hi": 10.0, "nominal": rng.choice([1, 2, "1/4"]),
             "weight": rng.choice([1, "1/2", 3]), "critical": kind == "critical", "relax": 0, "tmin": None, "tmax": None,
             "smin": False, "smax": False}

        def tgt(base):
            if is_path and rng.random() < 0.5:
                vals = []
                for _ in range(n):
                    r = rng.random()
                    vals.append("nan" if r < 0.2 else ("-inf" if base < 0 else "inf") if r < 0.28 else str(base))
                if all(v in ("nan", "inf", "-inf") for v in vals) and rng.random() < 0.8:
                    vals[0] = str(base)
                return vals, True
            return str(base), False
        level = int(Fraction(str(g["prio"])))
        if kind in ("min", "both", "critical"):
            g["tmin"], g["smin"] = tgt(-6 + level)
        if kind in ("max", "both") or (kind == "critical" and rng.random() < 0.4):
            g["tmax"], g["smax"] = tgt(8 - level)
        if kind == "minimize":
            g["lo"], g["hi"] = "nan", "nan"
        if kind == "critical" and rng.random() < 0.5:
            g["lo"], g["hi"] = "nan", "nan"
        if not keep_soft and rng.random() < 0.2 and kind != "critical":
            g["relax"] = "1/8"
        goals.append(g)
    t = rng.choice(goals)
    has_t = t["tmin"] is not None or t["tmax"] is not None

    def setall(key, val):
        t[key] = [val if x not in ("nan",) else x for x in t[key]] if isinstance(t[key], list) else val
    if defect == "tmin_below_range" and t["tmin"] is not None and not t["critical"]:
        setall("tmin", "-11")
    elif defect == "tmin_eq_lo" and t["tmin"] is not None and not t["critical"]:
        setall("tmin", "-10")
    elif defect == "tmin_above_hi" and t["tmin"] is not None and not t["critical"]:
        setall("tmin", "11")
    elif defect == "tmax_above_range" and t["tmax"] is not None and not t["critical"]:
        setall("tmax", "12")
    elif defect == "tmax_eq_hi" and t["tmax"] is not None and not t["critical"]:
        setall("tmax", "10")
    elif defect == "nominal_zero":
        t["nominal"] = 0
    elif defect == "nominal_negative":
        t["nominal"] = -1
    elif defect == "weight_zero":
        t["weight"] = 0
    elif defect == "critical_minimisation" and not has_t:
        t["critical"] = True
    elif defect == "no_range" and has_t:
        t["lo"], t["hi"] = "nan", "nan"
    elif defect == "range_on_min" and not has_t:
        t["lo"], t["hi"] = -10.0, 10.0
    elif defect == "series_on_point" and not is_path and t["tmin"] is not None:
        t["tmin"], t["smin"] = [t["tmin"]], True
    elif defect == "negative_relax":
        t["relax"] = "-1/8"
    elif defect == "relax_keep_soft":
        t["relax"] = "1/8"
        keep_soft = True
    elif defect == "non_monotone_min" and len(goals) > 1:
        a, b = goals[0], goals[1]
        b["fk"] = a["fk"]
        a["prio"], b["prio"] = 1, 2
        if a["tmin"] is not None and b["tmin"] is not None and not isinstance(a["tmin"], list) and not isinstance(b["tmin"], list):
            a["tmin"], b["tmin"] = "-2", "-4"
    elif defect == "non_monotone_max" and len(goals) > 1:
        a, b = goals[0], goals[1]
        b["fk"] = a["fk"]
        a["prio"], b["prio"] = 1, 2
        if a["tmax"] is not None and b["tmax"] is not None and not isinstance(a["tmax"], list) and not isinstance(b["tmax"], list):
            a["tmax"], b["tmax"] = "3", "5"
    elif defect in ("non_monotone_chain_min", "non_monotone_chain_max"):
        # three goals on one quantity: the third is fine against the first but not against the second
        while len(goals) < 3:
            goals.append(json.loads(json.dumps(goals[0])))
        key = "tmin" if defect.endswith("min") else "tmax"
        vals = ["-6", "-2", "-4"] if key == "tmin" else ["8", "2", "5"]
        if rng.random() < 0.3:
            vals = ["-6", "-4", "-2"] if key == "tmin" else ["8", "5", "2"]      # the monotone control
        for i, g in enumerate(goals[:3]):
            g.update({"fk": 7, "prio": i + 1, "critical": False, "lo": -10.0, "hi": 10.0, "tmin": None, "tmax": None,
                      "smin": False, "smax": False, "relax": 0})
            g[key] = vals[i]
    elif defect == "min_gt_max" and t["tmin"] is not None and t["tmax"] is not None and not isinstance(t["tmin"], list) and not isinstance(t["tmax"], list):
        t["tmin"], t["tmax"] = "4", "2"
    elif defect == "lo_ge_hi" and has_t:
        t["lo"], t["hi"] = 5.0, 5.0
    return {"k": "validate", "n": n, "is_path": is_path, "keep_soft": keep_soft, "monotone": monotone,
            "defect": defect, "goals": goals}


_env = {}


def host_problem(n):
    if n not in _env:
        case = {"times": list(range(n)), "E": 1, "variant": "multi", "goals": []}
        p, _, _ = gp.build(case)
        _env[n] = p
    return _env[n]


def impl_validate(c):
    from rtctools.optimization.goal_programming_mixin_base import Goal
    from rtctools.optimization.timeseries import Timeseries

    p = host_problem(c["n"])
    times = np.arange(c["n"], dtype=float)
    objs = []
    for g in c["goals"]:
        class G(Goal):
            def function(self, op, em):
                return op.state("y")
        o = G()
        o.priority = int(Fraction(str(g["prio"]))) if Fraction(str(g["prio"])).denominator == 1 else float(Fraction(str(g["prio"])))
        o.function_key = "k%d" % g["fk"]
        o.function_nominal = gp.fnum(g["nominal"])
        o.weight = gp.fnum(g["weight"])
        o.critical = g["critical"]
        o.relaxation = gp.fnum(g["relax"])
        if not (g["lo"] == "nan" and g["hi"] == "nan"):
            o.function_range = (gp.fnum(g["lo"]), gp.fnum(g["hi"]))

        def tv(v, series):
            if v is None:
                return np.nan
            if series:
                vv = [gp.fnum(x) for x in v]
                tt = times[:len(vv)] if len(vv) != len(times) else times
                return Timeseries(tt, np.array(vv))
            return gp.fnum(v)
        o.target_min = tv(g["tmin"], g["smin"])
        o.target_max = tv(g["tmax"], g["smax"])
        objs.append(o)
    opts = dict(p.goal_programming_options())
    opts["keep_soft_constraints"] = c["keep_soft"]
    opts["check_monotonicity"] = c["monotone"]
    p.goal_programming_options = lambda: opts
    try:
        p._gp_validate_goals(objs, is_path_goal=c["is_path"])
        return 1, ""
    except Exception as e:
        return 0, "%s: %s" % (type(e).__name__, str(e)[:120])
    finally:
        del p.goal_programming_options


def gx(v):
    return c02.gxf(gp.fnum(v))


def vterm(c):
    n = c["n"] if c["is_path"] else 1

    def arr(v, series):
        if v is None:
            return glist(["nan"] * n, gx)
        if isinstance(v, list):
            vv = list(v)
            if series and len(vv) == 1 and n > 1:
                vv = vv * n
            return glist(vv, gx)
        return glist([v] * n, gx)
    gs = glist(c["goals"], lambda g: "(mk_vgoal %s %s %s %s %s %s %s %s %s %s %s %s)" % (
        gz(g["fk"]), gq(Fraction(str(g["prio"]))), arr(g["tmin"], g["smin"]), arr(g["tmax"], g["smax"]),
        gbool(g["smin"]), gbool(g["smax"]), gx(g["lo"]), gx(g["hi"]),
        gq(c02.fx(gp.fnum(g["nominal"]))), gq(c02.fx(gp.fnum(g["weight"]))), gbool(g["critical"]),
        gq(c02.fx(gp.fnum(g["relax"])))))
    return "[if validate {| vo_keep_soft := %s; vo_monotone := %s |} %s %s then 1%%Z else 0%%Z]" % (
        gbool(c["keep_soft"]), gbool(c["monotone"]), gbool(c["is_path"]), gs)


# ---------------------------------------------------------------------------------------------------
# B. envelope / critical goals on real runs
# ---------------------------------------------------------------------------------------------------
def envelope_check(c, out, tol=1e-6):
    n = len(c["times"])
    bad = []
    snaps = out["snaps"]
    for i, s in enumerate(snaps):
        for is_path in (False, True):
            gl = [g for g in c["goals"] if int(Fraction(str(g["prio"]))) == s["priority"] and g["path"] == is_path]
            for j, gs in enumerate(gl):
                if gs.get("tmin") is None and gs.get("tmax") is None:
                    continue
                lo, hi = gs.get("range", gp.FRANGE[gs["fn"]])
                tm, tM = gp.target_arrays(gs, n)
                for m in range(c["E"]):
                    if gs.get("critical"):
                        # met in every solution from its priority on (up to the slack the user grants every
                        # hard constraint through the constraint_relaxation option, in units of the nominal)
                        slack = gp.fnum(c.get("options", {}).get("constraint_relaxation", 0)) * gp.fnum(gs.get("nominal", 1))
                        for jj in range(i, len(snaps)):
                            f = c02.fsteps(gs, snaps[jj]["results"][m], n)
                            for k, (fv, a, b) in enumerate(zip(f, tm, tM)):
                                if (math.isfinite(a) and fv < a - slack - tol * (1 + abs(a))) or (math.isfinite(b) and fv > b + slack + tol * (1 + abs(b))):
                                    bad.append({"critical_goal": gs, "member": m, "step": k, "value": fv,
                                                "target": [a, b], "solution_of_priority": snaps[jj]["priority"]})
                        continue
                    nm = ("path_eps_%d_%d" if is_path else "eps_%d_%d") % (i, j)
                    if c["variant"].startswith("single"):
                        nm = ("path_eps_%d_%d" if is_path else "eps_%d_%d") % (i, j)
                    # the priority's own solution, and every later solution in which the violation
                    # variable is still a variable (keep_soft_constraints / single pass)
                    for jj in range(i, len(snaps)):
                        sj = snaps[jj]
                        if nm not in sj["results"][m]:
                            continue
                        eps = [float(x) for x in np.ravel(sj["results"][m][nm])]
                        f = c02.fsteps(gs, sj["results"][m], n)
                        for k, (fv, e, a, b) in enumerate(zip(f, eps, tm, tM)):
                            where = {"goal": gs, "member": m, "step": k, "solution_of_priority": sj["priority"]}
                            if e < -tol or e > 1 + tol:
                                bad.append(dict(where, eps_out_of_unit_interval=e))
                            if math.isfinite(a) and fv < a + e * (lo - a) - tol * (1 + abs(a)):
                                bad.append(dict(where, value=fv, eps=e, below_envelope=a + e * (lo - a)))
                            if math.isfinite(b) and fv > b + e * (hi - b) + tol * (1 + abs(b)):
                                bad.append(dict(where, value=fv, eps=e, above_envelope=b + e * (hi - b)))
    return bad


def nan_step_equivalence(ctx):
    """steps whose target is NaN / infinite impose nothing: a path goal whose target series is NaN or -inf / +inf
    at some steps is the same problem as point goals at the remaining steps (same objective values, same
    trajectory of the goal function)"""
    import random
    r2 = random.Random(404)
    for i in range(ctx.n(6, 60)):
        n = 3 if i < 3 else r2.choice([3, 4])
        fn = ["y", "z", "y"][i % 3]
        lo, hi = gp.FRANGE[fn]
        act = [k for k in range(n) if r2.random() < 0.5] or [1]
        if len(act) == n:
            act = act[:-1]
        blank = ["nan", "-inf", "nan"][i % 3]
        t = float(r2.choice([5, 6, 8]))
        tmin = [str(t) if k in act else blank for k in range(n)]
        # a second goal of the same priority keeps the function low where the first one has no target
        other = {"path": True, "fn": fn, "prio": 1, "order": 2, "weight": 1, "nominal": 1,
                 "tmax": [str(-3.0) if k not in act else "nan" for k in range(n)]}
        later = {"path": True, "fn": fn, "prio": 2, "order": 1, "weight": 1, "nominal": 1}
        a = {"k": "run", "times": list(range(n)), "E": 1, "p": [0], "variant": "multi", "options": {},
             "goals": [{"path": True, "fn": fn, "prio": 1, "order": 2, "weight": 1, "nominal": 1, "tmin": tmin}, other, later]}
        b = json.loads(json.dumps(a))
        b["goals"] = [{"path": False, "fn": fn, "prio": 1, "k": k, "order": 2, "weight": 1, "nominal": 1, "tmin": t} for k in act] + [other, later]
        outs = [c02.run_case(c) for c in (a, b)]
        ctx.count("nan_step_pairs")
        ctx.case_done(core.fingerprint(["nan-steps", n, fn, act, blank]), True)
        if any("error" in o or not o.get("ok") for o in outs):
            ctx.count("nan_step_pair_unsolved")
            continue
        fa = [[float(v) for v in s_["results"][0][fn]] for s_ in outs[0]["snaps"]]
        fb = [[float(v) for v in s_["results"][0][fn]] for s_ in outs[1]["snaps"]]
        oa = [float(s_["objective_value"]) for s_ in outs[0]["snaps"]]
        ob = [float(s_["objective_value"]) for s_ in outs[1]["snaps"]]
        if any(abs(x - y) > 1e-5 * (1 + abs(y)) for x, y in zip(oa, ob)) or \
                any(abs(x - y) > 1e-4 * (1 + abs(y)) for ra, rb in zip(fa, fb) for x, y in zip(ra, rb)):
            ctx.violation("envelope/inactive-step-imposes", {"case": a, "point_goal_case": b, "objectives": [oa, ob], fn: [fa, fb]},
                          what="a path goal with %s at steps %s differs from point goals at the other steps: objective values %s vs %s, %s %s vs %s" % (
                              blank, [k for k in range(n) if k not in act], oa, ob, fn, fa[-1], fb[-1]))


def clipped_by_retained(c, out, b):
    """does the constraint store, as it stood before the critical goal's priority, hold bounds for the goal's
    function key that exclude its target at the failing step?"""
    gs = b["critical_goal"]
    fk = gs.get("fk")
    if not fk:
        return False
    prios = [s_["priority"] for s_ in out["snaps"]]
    pr = int(Fraction(str(gs["prio"])))
    if pr not in prios:
        return False
    snap = out["snaps"][prios.index(pr)]
    nom = gp.fnum(gs.get("nominal", 1))
    for key, lo, hi in snap["stores_before"][1 if gs["path"] else 0][b["member"]]:
        if key != fk:
            continue
        k = b["step"] if len(lo) > 1 else 0
        a, t = b["target"]
        if (math.isfinite(a) and hi[k] * nom < a - 1e-9) or (math.isfinite(t) and lo[k] * nom > t + 1e-9):
            return True
    return False


def conflict_probe(ctx):
    """a critical goal that contradicts what an earlier priority retained must make optimize() fail
    (or be met); it must not be clipped silently"""
    case = {"times": [0, 1, 2], "E": 1, "variant": "multi",
            "goals": [{"path": True, "fn": "y", "prio": 1, "tmax": 3, "fk": "Y"},
                      {"path": True, "fn": "y", "prio": 2, "tmin": 5, "critical": True, "fk": "Y"},
                      {"path": True, "fn": "z", "prio": 2, "order": 2}]}
    out = c02.run_case(case)
    ctx.count("conflict_probe")
    if "error" in out or not out["ok"]:
        return
    y = out["snaps"][-1]["results"][0]["y"]
    if min(y) < 5 - 1e-6:
        ctx.violation("critical/conflict-clipped",
                      {"case": case, "final_y": [float(v) for v in y], "optimize_returned": True,
                       "stores": out["snaps"][-1]["stores_after"]},
                      what="critical goal y >= 5 at priority 2 conflicts with y <= 3 retained from priority 1: optimize() returned True with y = %s" % [round(float(v), 4) for v in y])


def gen_critical_pair_case(rng):
    """two critical goals on one quantity (a lower and an upper one, listed in either order), then a
    priority that pushes against one of them: both must hold in every solution"""
    n = rng.choice([2, 3])
    E = rng.choice([1, 1, 2])
    fn = rng.choice(["y", "z"])
    lo, hi = float(rng.randint(-4, 1)), float(rng.randint(2, 6))
    path = rng.random() < 0.7
    k = rng.randrange(n)
    a = {"path": path, "fn": fn, "prio": 1, "k": k, "order": 2, "weight": 1, "nominal": 1, "tmin": lo, "critical": True, "fk": "crit"}
    b = {"path": path, "fn": fn, "prio": 1, "k": k, "order": 2, "weight": 1, "nominal": 1, "tmax": hi, "critical": True, "fk": "crit"}
    pair = [a, b] if rng.random() < 0.5 else [b, a]
    up = rng.random() < 0.5
    push = {"path": path, "fn": fn, "prio": 2, "k": k, "order": rng.choice([1, 2]), "weight": 1, "nominal": 1, "fk": "push"}
    push.update({"tmin": 11.0} if up else {"tmax": -11.0})
    return {"k": "run", "times": list(range(n)), "E": E, "p": [0, "1/2"][:E], "variant": "multi", "goals": pair + [push], "options": {}}


def gen_shift_case(rng):
    """violation variables that stay variables: a met order-1 path goal, then a later priority that would
    gain from shifting violation between time steps if the violation variables were not kept in [0, 1]"""
    n = rng.choice([3, 4])
    E = rng.choice([1, 1, 2])
    fn = rng.choice(["y", "z"])
    t = float(rng.randint(3, 8))
    side = rng.choice(["tmin", "tmax"])
    g1 = {"path": True, "fn": fn, "prio": 1, "k": 0, "order": 1, "weight": 1, "nominal": rng.choice([1, 2]), side: (t if side == "tmin" else -t)}
    g2 = {"path": rng.random() < 0.5, "fn": fn, "prio": 2, "k": rng.randrange(n), "order": 1, "weight": 1, "nominal": 1}
    if side == "tmax":
        # later priority pushes upwards: minimise -f is not expressible, so use a target far above
        g2.update({"tmin": 30.0 if fn == "z" else 11.5, "order": rng.choice([1, 2])})
    return {"k": "run", "times": list(range(n)), "E": E, "p": [0, "1/2"][:E], "variant": rng.choice(["multi_keep_soft", "multi_keep_soft", "single_append"]),
            "goals": [g1, g2], "options": {}}


# ---------------------------------------------------------------------------------------------------
# ---------------------------------------------------------------------------------------------------
# C. ill-formed goals handed to optimize() of every configuration: rejected before any solver exists
# ---------------------------------------------------------------------------------------------------
REJECT_DEFECTS = ["target_above_range", "target_below_range", "nominal_zero", "nominal_negative", "weight_zero",
                  "weight_negative", "critical_minimisation", "non_monotone_min", "non_monotone_max",
                  "vector_tmax_outside", "vector_tmin_outside", "vector_tmax_series_outside"]
REJECT_CONTROLS = ["ok_scalar", "ok_vector"]


def reject_cases():
    out = []
    for variant in ("multi", "multi_keep_soft", "single_append", "single_update"):
        for path in (True, False):
            for d in REJECT_DEFECTS + REJECT_CONTROLS:
                if "vector" in d and variant == "multi":
                    continue            # vector goals need keep_soft_constraints
                if d == "vector_tmax_series_outside" and not path:
                    continue
                if d in REJECT_CONTROLS and not (path or variant in ("multi", "single_append")):
                    continue
                out.append({"k": "reject", "variant": variant, "path": path, "defect": d})
    return out


def run_reject(c):
    from rtctools.optimization.goal_programming_mixin_base import Goal
    from rtctools.optimization.timeseries import Timeseries

    calls = []

    def counting(name, plugin, nlp, opts):
        calls.append(name)
        opts = dict(opts)
        ip = dict(opts.get("ipopt", {}))
        ip.update({"print_level": 0, "sb": "yes"})
        opts["ipopt"] = ip
        opts["print_time"] = False
        return ca.nlpsol(name, plugin, nlp, opts)

    times = [0, 1, 2]
    p, snaps, goals_all = gp.build({"times": times, "E": 1, "variant": c["variant"], "goals": [], "options": {}}, solver=counting)
    path, d = c["path"], c["defect"]

    def mk(prio=1, fk=None, vector=False, **kw):
        class G(Goal):
            size = 2 if vector else 1

            def function(self, op, em):
                def st(nm):
                    return op.state(nm) if path else op.state_at(nm, 1.0, em)
                return ca.vertcat(st("y"), st("z")) if vector else st("y")
        g = G()
        g.priority = prio
        g.order = 2
        if fk:
            g.function_key = fk
        for k, v in kw.items():
            setattr(g, k, v)
        g._spec = {"path": path}
        return g
    rng_s = (-12.0, 12.0)
    rng_v = (np.array([-12.0, -20.0]), np.array([12.0, 20.0]))
    if d == "target_above_range":
        gl = [mk(function_range=rng_s, target_max=13.0)]
    elif d == "target_below_range":
        gl = [mk(function_range=rng_s, target_min=-13.0)]
    elif d == "nominal_zero":
        gl = [mk(function_range=rng_s, target_max=5.0, function_nominal=0.0)]
    elif d == "nominal_negative":
        gl = [mk(function_nominal=-2.0)]
    elif d == "weight_zero":
        gl = [mk(function_range=rng_s, target_max=5.0, weight=0.0)]
    elif d == "weight_negative":
        gl = [mk(function_range=rng_s, target_min=-5.0, weight=-1.0)]
    elif d == "critical_minimisation":
        gl = [mk(critical=True)]
    elif d == "non_monotone_min":
        gl = [mk(1, "q", function_range=rng_s, target_min=-2.0), mk(2, "q", function_range=rng_s, target_min=-4.0)]
    elif d == "non_monotone_max":
        gl = [mk(1, "q", function_range=rng_s, target_max=3.0), mk(2, "q", function_range=rng_s, target_max=5.0)]
    elif d == "vector_tmax_outside":
        gl = [mk(vector=True, function_range=rng_v, target_max=np.array([13.0, 5.0]))]
    elif d == "vector_tmin_outside":
        gl = [mk(vector=True, function_range=rng_v, target_min=np.array([-5.0, -21.0]))]
    elif d == "vector_tmax_series_outside":
        gl = [mk(vector=True, function_range=rng_v,
                 target_max=Timeseries(np.array(times, dtype=float), np.array([[5.0, 5.0], [5.0, 21.0], [5.0, 5.0]])))]
    elif d == "ok_scalar":
        gl = [mk(function_range=rng_s, target_max=5.0), mk(2, function_range=rng_s, target_min=-5.0)]
    else:
        gl = [mk(vector=True, function_range=rng_v, target_max=np.array([11.0, 5.0]), target_min=np.array([-5.0, -19.0]))]
    goals_all[:] = gl
    try:
        ok = p.optimize()
        return {"raised": False, "ok": bool(ok), "solvers_created": len(calls)}
    except Exception as e:  # noqa: BLE001
        return {"raised": True, "message": "%s: %s" % (type(e).__name__, str(e)[:150]), "solvers_created": len(calls)}


def reject_as_vcase(c):
    """the goal list of run_reject() as a `validate` case of part A (scalar defects only)"""
    d = c["defect"]

    def g(prio=1, fk=1, lo=-12.0, hi=12.0, tmin=None, tmax=None, nominal=1, weight=1, critical=False):
        return {"fk": fk, "prio": prio, "lo": lo, "hi": hi, "nominal": nominal, "weight": weight, "critical": critical, "relax": 0,
                "tmin": None if tmin is None else str(Fraction(tmin)), "tmax": None if tmax is None else str(Fraction(tmax)),
                "smin": False, "smax": False}
    nr = {"lo": "nan", "hi": "nan"}
    goals = {"target_above_range": [g(tmax=13)], "target_below_range": [g(tmin=-13)], "nominal_zero": [g(tmax=5, nominal=0)],
             "nominal_negative": [dict(g(nominal=-2), **nr)], "weight_zero": [g(tmax=5, weight=0)], "weight_negative": [g(tmin=-5, weight=-1)],
             "critical_minimisation": [dict(g(critical=True), **nr)],
             "non_monotone_min": [g(1, 7, tmin=-2), g(2, 7, tmin=-4)], "non_monotone_max": [g(1, 7, tmax=3), g(2, 7, tmax=5)],
             "ok_scalar": [g(1, 1, tmax=5), g(2, 2, tmin=-5)]}[d]
    return {"k": "validate", "n": 3, "is_path": c["path"], "keep_soft": c["variant"] != "multi", "monotone": True, "defect": d, "goals": goals}


def check_reject(ctx, c):
    r = run_reject(c)
    ill = c["defect"] in REJECT_DEFECTS
    ctx.count("reject_" + ("ill_formed" if ill else "control"))
    ctx.case_done(core.fingerprint(["reject", c["variant"], c["path"], c["defect"]]), ill)
    if ill and (not r["raised"] or r["solvers_created"] > 0):
        ctx.violation("validate/ill-formed-accepted", {"case": c, "outcome": r},
                      what="%s with an ill-formed %s goal (%s) was %s" % (
                          c["variant"], "path" if c["path"] else "point", c["defect"],
                          "solved" if not r["raised"] else "rejected only after a solver had been created"))
    elif not ill and (r["raised"] or not r.get("ok")):
        ctx.violation("validate/well-formed-rejected", {"case": c, "outcome": r}, no_input=False,
                      what="%s with a well-formed %s goal (%s) did not solve: %s" % (
                          c["variant"], "path" if c["path"] else "point", c["defect"], r.get("message")))


def run(ctx):
    import os
    replay = os.environ.get("VERIF_REPLAY")
    cases = []
    if replay:
        cases = [json.load(open(replay))["replay"]["case"]]
    else:
        cases += core.corpus_cases(ID)
        for _ in range(ctx.n(500, 20000)):
            cases.append(gen_vcase(ctx.rng))
        cases += [c for c in c02.fixed_runs() if not c.get("expect_failure")]
        # critical goals with a function nominal other than 1, a later priority pushing against them
        cases.append({"k": "run", "times": [0, 1, 2], "E": 1, "p": [0], "variant": "multi", "options": {},
                      "goals": [{"path": True, "fn": "y", "prio": 1, "critical": True, "tmax": 6.0, "nominal": 10},
                                {"path": True, "fn": "ny", "prio": 2, "order": 1, "weight": 1, "nominal": 1}]})
        cases.append({"k": "run", "times": [0, 1, 2], "E": 1, "p": [0], "variant": "multi", "options": {},
                      "goals": [{"path": False, "fn": "y", "k": 2, "prio": 1, "critical": True, "tmin": 8.0, "nominal": "1/10"},
                                {"path": False, "fn": "y", "k": 2, "prio": 2, "order": 1, "weight": 1, "nominal": 1}]})
        for _ in range(ctx.n(14, 500)):
            cases.append(c02.gen_run(ctx.rng))
        for _ in range(ctx.n(6, 150)):
            cases.append(gen_shift_case(ctx.rng))
        for _ in range(ctx.n(6, 150)):
            cases.append(gen_critical_pair_case(ctx.rng))
    vc = [c for c in cases if c.get("k") == "validate"]
    if vc:
        impl = [impl_validate(c) for c in vc]
        mod = core.eval_terms(ID + "v", ["Xq", "GoalValidate"], [vterm(c) for c in vc])
        for c, (acc, msg), mv in zip(vc, impl, mod):
            ctx.case_done(core.fingerprint(["validate", c["is_path"], c["keep_soft"], c["monotone"], c["defect"],
                                            [[g["fk"], g["critical"], g["tmin"], g["tmax"], g["lo"], g["nominal"], g["weight"], g["relax"]] for g in c["goals"]]]),
                          acc == 0)
            ctx.count("defect_" + c["defect"])
            ctx.count("accepted" if acc else "rejected")
            if acc == 0 and len(ctx.samples) < 2:
                ctx.sample({"case": c, "impl": msg, "model_accepts": mv[0]})
            if [acc] != mv:
                ctx.violation("validate/accept-reject", {"case": c, "impl_accepts": acc, "impl_message": msg, "model_accepts": mv[0]},
                              what="goal validation %s a goal list the specification %s (defect stream: %s; %s)" % (
                                  "accepts" if acc else "rejects", "rejects" if acc else "accepts", c["defect"], msg))
    runs = [c for c in cases if c.get("k") == "run"]
    for c in runs:
        out = c02.run_case(c)
        if "error" in out:
            ctx.count("run_rejected")
            continue
        ctx.runtime_samples += 1
        if not out["ok"]:
            ctx.count("run_failed_solve")
            continue
        special = any(g.get("critical") or isinstance(g.get("tmin"), list) or isinstance(g.get("tmax"), list) for g in c["goals"])
        ctx.case_done(core.fingerprint(["run", c["variant"], c["E"], len(c["times"]),
                                        [[g["prio"], g["fn"], g["path"], g.get("critical", False), g.get("tmin"), g.get("tmax")] for g in c["goals"]]]), special)
        ctx.count("run_" + c["variant"])
        bad = envelope_check(c, out)
        if c["variant"] == "multi":
            # ... and in every later solution the function stays inside the envelope of the violation reported
            # at the goal's own priority (the violation variable is gone by then)
            bad += [b for b in c02.attainment_check(c, out) if "violation_later" in b]
        if bad:
            sig = "critical/not-met" if "critical_goal" in bad[0] else "envelope/left"
            if sig == "critical/not-met" and clipped_by_retained(c, out, bad[0]):
                # the known finding: the bounds retained from an earlier priority on the same function key
                # contradict the critical goal, which is then silently clipped
                sig = "critical/conflict-clipped"
            ctx.violation(sig, {"case": c, "violations": bad[:5]},
                          what="a solution leaves the epsilon envelope / misses a critical goal: %s" % json.dumps(bad[0], default=str)[:300])
    if not replay:
        nan_step_equivalence(ctx)
    rj = [c for c in cases if c.get("k") == "reject"] if replay else reject_cases()
    for c in rj:
        check_reject(ctx, c)
    # what the Gallina specification (GoalValidate.validate, C04_validate_iff_wellformed / C04_rejections) says
    # about the scalar ones of these goal lists
    sc = [c for c in rj if "vector" not in c["defect"]]
    if sc:
        mv = core.eval_terms(ID + "r", ["Xq", "GoalValidate"], [vterm(reject_as_vcase(c)) for c in sc])
        for c, v in zip(sc, mv):
            ill = c["defect"] in REJECT_DEFECTS
            if v[0] != (0 if ill else 1):
                ctx.violation("validate/specification-disagrees", {"case": c, "model_accepts": v[0],
                                                                   "broken_correspondence": "GoalValidate.validate vs the ill-formed goals of the end-to-end pass"},
                              no_input=True, what="the specification %s the %s goal list" % ("accepts" if v[0] else "rejects", c["defect"]))
    if not replay:
        conflict_probe(ctx)
