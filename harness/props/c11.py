"""C11 — time-series files round-trip: what is written is what is read."""
import datetime
import json
import math
import os
import shutil
import struct
import tempfile
from fractions import Fraction

import numpy as np

from .. import core, pifiles
from ..core import gq, glist, goption, gbool, gz
from ..pifiles import T0, dts

ID = "C11"
PROPS_FILE = "props/C11.v"
MODEL_FILES = ["PiSeries"]
RULE = ("generated PI XML files (equidistant steps from a minute to several days, and non-equidistant axes; 1-3 variables "
        "with and without qualifiers; no ensemble, full ensembles and series shared by all members; series covering any "
        "sub-range of the global range; missing values; forecast date at any position, absent, off the grid or outside "
        "the range) read by the real pi.Timeseries and compared with PiSeries.pi_read evaluated in Coq; stores written "
        "as new files in XML and binary form, re-read and compared with the original (binary at float32) and with "
        "pi_read (pi_write st); files read, written back through the existing tree and re-read; sequences of resize() "
        "compared with PiSeries.resize after every step and after write + read; csv.save / csv.load with both "
        "delimiters, decimal commas, empty columns and NaN against fmt6; NetCDF export / import; ParameterConfig "
        "get / set / write / re-read against param_set.  non-trivial = a series shorter than the global range, an "
        "ensemble, missing values or a resize that moves both ends; distinct = abstracted file shapes")
MODELLED = ("pi.py Timeseries.__init__ (global range, axis, forecast index, ensemble structure, missing values, padding), write() of "
            "new files, resize(); csv.py number format; ParameterConfig typed get/set")
NOT_MODELLED = ("the XML / binary / text / netCDF codecs themselves (ElementTree, numpy, netCDF4 are exercised, their bytes are not "
                "modelled); time zone field (copied verbatim); NetCDF has no Coq model beyond the index mapping checked by the harness")
ASSUMPTIONS = ["event dates lie on the declared axis (pi_validate_times=False, the default)", "no value equals the file's missVal"]

STEPS = [60, 900, 3600, 7200, 10800, 86400, 129600, 172800, 25200]


# ---- generators ------------------------------------------------------------------------------------
def gen_value(rng, exact32=False):
    v = gen_value_raw(rng, exact32)
    while Fraction(v) in (-999, -9999):      # a value equal to the file's missVal is, by the format, a missing value
        v = gen_value_raw(rng, exact32)
    return v


def gen_value_raw(rng, exact32=False):
    r = rng.random()
    if r < 0.5 or exact32:
        return str(Fraction(rng.randint(-4000, 4000), rng.choice([1, 2, 4, 8, 64])))
    if r < 0.8:
        return str(Fraction(repr(round(rng.uniform(-1e4, 1e4), rng.choice([1, 3, 6])))))
    return str(Fraction(rng.uniform(-1, 1) * 10 ** rng.randint(-8, 8)))


def gen_vars(rng, n):
    out = []
    for i in range(n):
        v = {"id": "var%d" % i, "location": "Loc%d" % rng.randint(0, 1), "parameter": "P%d" % i}
        if rng.random() < 0.3:
            v["qualifiers"] = rng.sample(["qb", "qa", "qc"], rng.choice([1, 2]))
        out.append(v)
    return out


def gen_axis(rng):
    if rng.random() < 0.7:
        dt = rng.choice(STEPS)
        n = rng.randint(2, 8)
        start = rng.choice([0, 3600, -7200, 86400, dt * 3])
        return dt, [start + i * dt for i in range(n)]
    n = rng.randint(2, 8)
    t = rng.choice([0, 1800, -3600])
    axis = [t]
    for _ in range(n - 1):
        t += rng.choice([60, 600, 3600, 5400, 86400, 100000])
        axis.append(t)
    return None, axis


def gen_file(rng):
    dt, axis = gen_axis(rng)
    n = len(axis)
    nv = rng.choice([1, 2, 3])
    vars_ = gen_vars(rng, nv)
    ens = rng.choice([None, None, 2, 3])
    series = []
    # forecast
    r = rng.random()
    if r < 0.2:
        fc = None
    elif r < 0.75:
        fc = axis[rng.randrange(n)]
    elif r < 0.85 and dt:
        fc = axis[rng.randrange(n)] + rng.choice([dt // 4, dt // 2 + 1, (3 * dt) // 4]) if dt >= 60 else axis[0]
    else:
        fc = axis[0] - (dt or 3600) * rng.randint(1, 3) if rng.random() < 0.5 else axis[-1] + (dt or 3600) * rng.randint(1, 3)
    full_given = False
    members = [None] if ens is None else list(range(ens))
    for vi, v in enumerate(vars_):
        shared = ens is not None and rng.random() < 0.3          # no member index in an ensemble file
        for m in ([None] if shared else members):
            if ens is not None and m is not None and m > 0 and rng.random() < 0.15:
                continue                                          # this member lacks the series
            a = 0 if rng.random() < 0.6 else rng.randrange(n)
            b = n - 1 if rng.random() < 0.6 else rng.randrange(a, n)
            if not full_given:
                a, b = 0, n - 1
                full_given = True
            times = axis[a:b + 1]
            vals = [None if rng.random() < 0.15 else gen_value(rng) for _ in times]
            if dt and rng.random() < 0.1 and len(times) > 1:      # fewer events than the header announces
                k = rng.randint(1, len(times) - 1)
                times, vals = times[:k], vals[:k]
            s = {"var": v, "member": m, "start": axis[a], "end": axis[b], "forecast": fc, "times": times, "values": vals,
                 "unit": rng.choice(["m", "m3/s", "-"]), "miss": rng.choice(["-999.0", "-999", "NaN", "-9999.0"])}
            if v.get("qualifiers") and rng.random() < 0.5:
                s["qualifier_order"] = list(reversed(v["qualifiers"]))
            series.append(s)
    if fc is None and series:
        pass
    # the series that defines a non-equidistant axis must be the first longest one: put the full one first or anywhere
    if rng.random() < 0.5:
        rng.shuffle(series)
        if dt is None:
            # keep "first longest = full range"
            full = max(series, key=lambda s: len(s["times"]))
            if len(full["times"]) < n:
                series.sort(key=lambda s: -len(s["times"]))
    if dt is None:
        longest = max(len(s["times"]) for s in series)
        first_longest = next(s for s in series if len(s["times"]) == longest)
        if len(first_longest["times"]) != n:
            series.sort(key=lambda s: -len(s["times"]))
    return {"dt": dt, "axis": axis, "vars": vars_, "series": series, "timezone": rng.choice([None, "0.0", "1.0"])}


def gen_store(rng):
    dt, axis = gen_axis(rng)
    n = len(axis)
    vars_ = gen_vars(rng, rng.choice([1, 2, 3]))
    ens = rng.choice([1, 1, 2, 3])
    fc = axis[rng.randrange(n)]
    entries = []
    for m in range(ens):
        for v in vars_:
            if m > 0 and m < ens - 1 and rng.random() < 0.15:
                continue
            vals = [None if rng.random() < 0.15 else gen_value(rng) for _ in axis]
            entries.append({"m": m, "var": v, "values": vals, "unit": rng.choice(["m", "m3/s", None])})
    return {"dt": dt, "axis": axis, "vars": vars_, "ens": ens, "forecast": fc, "entries": entries,
            "timezone": rng.choice([None, 0.0, 1.0])}


def gen_resizes(rng, dt, axis):
    ops = []
    cur = list(axis)
    for _ in range(rng.choice([1, 2, 3])):
        if dt:
            a = cur[0] + dt * rng.randint(-3, min(3, len(cur) - 1))
            hi = cur[-1] + dt * rng.randint(-min(3, len(cur) - 1), 3)
            b = max(hi, a)
            cur = list(range(a, b + 1, dt))
        else:
            i = rng.randrange(len(cur))
            j = rng.randrange(i, len(cur))
            a, b = cur[i], cur[j]
            cur = cur[i:j + 1]
        ops.append([a, b])
    return ops


# ---- implementation side --------------------------------------------------------------------------------
def fval(x):
    x = float(x)
    return None if math.isnan(x) else x


def observe_ts(ts, var_ids):
    out = {"times": [int((t - T0).total_seconds()) for t in ts.times],
           "dt": None if ts.dt is None else int(ts.dt.total_seconds()),
           "forecast_index": ts.forecast_index,
           "forecast": None if ts.forecast_datetime is None else int((ts.forecast_datetime - T0).total_seconds()),
           "contains_ensemble": bool(ts.contains_ensemble), "ensemble_size": ts.ensemble_size, "values": {}, "units": {}}
    for m in range(ts.ensemble_size):
        for v in var_ids:
            try:
                arr = ts.get(v, m)
            except (KeyError, IndexError):
                continue
            out["values"]["%d/%s" % (m, v)] = [fval(x) for x in arr]
            out["units"]["%d/%s" % (m, v)] = ts.get_unit(v, m)
    return out


def impl_read(spec):
    import rtctools.data.pi as pi
    import rtctools.data.rtc as rtc
    base = tempfile.mkdtemp(prefix="verif_c11_")
    try:
        pifiles.write_data_config(base, spec["vars"])
        pifiles.write_pi(base, "timeseries_import", spec)
        dc = rtc.DataConfig(base)
        ts = pi.Timeseries(dc, base, "timeseries_import", binary=False)
        ids = [v["id"] for v in spec["vars"]]
        obs = observe_ts(ts, ids)
        # write back through the existing tree, re-read
        out = os.path.join(base, "out")
        os.makedirs(out)
        ts.write(out, "again")
        ts2 = pi.Timeseries(dc, out, "again", binary=False)
        obs2 = observe_ts(ts2, ids)
        res = {"read": obs, "reread": obs2}
        if spec.get("resizes"):
            steps = []
            for a, b in spec["resizes"]:
                try:
                    ts.resize(dts(a), dts(b))
                except ValueError as e:
                    steps.append({"raised": str(e)[:80]})
                    break
                steps.append(observe_ts(ts, ids))
            res["resized"] = steps
            if steps and "raised" not in steps[-1]:
                ts.write(out, "resized")
                res["resized_reread"] = observe_ts(pi.Timeseries(dc, out, "resized", binary=False), ids)
        return res
    finally:
        shutil.rmtree(base, ignore_errors=True)


def impl_write_new(st, binary):
    import rtctools.data.pi as pi
    import rtctools.data.rtc as rtc
    base = tempfile.mkdtemp(prefix="verif_c11_")
    try:
        pifiles.write_data_config(base, st["vars"])
        dc = rtc.DataConfig(base)
        ts = pi.Timeseries(dc, base, "timeseries_export", binary=binary, make_new_file=True)
        ts.times = [dts(t) for t in st["axis"]]
        ts.forecast_datetime = dts(st["forecast"])
        ts.dt = datetime.timedelta(seconds=st["dt"]) if st["dt"] else None
        ts.timezone = st["timezone"]
        # the order PIMixin.write() uses (a new object has no ensemble attributes yet)
        if st["ens"] > 1:
            ts.contains_ensemble = True
        ts.ensemble_size = st["ens"]
        # (force_ens: an ensemble file with a single member, e.g. the export of a simulation fed by an ensemble import)
        ts.contains_ensemble = st["ens"] > 1 or bool(st.get("force_ens"))
        for e in st["entries"]:
            vals = np.array([np.nan if v is None else float(Fraction(v)) for v in e["values"]])
            ts.set(e["var"]["id"], vals, unit=e["unit"], ensemble_member=e["m"])
        ids = [v["id"] for v in st["vars"]]
        res = {}
        if st.get("resizes"):
            for a, b in st["resizes"]:
                ts.resize(dts(a), dts(b))
            res["resized"] = observe_ts(ts, ids)
        ts.write()
        ts.write()     # a second write must not duplicate anything
        ts2 = pi.Timeseries(dc, base, "timeseries_export", binary=binary)
        res["reread"] = observe_ts(ts2, ids)
        res["timezone"] = ts2.timezone
        return res
    finally:
        shutil.rmtree(base, ignore_errors=True)


# ---- model terms -----------------------------------------------------------------------------------------
UNITS = {"m": 1, "m3/s": 2, "-": 3, "unit_unknown": 0, None: 0}
UNIT_NAMES = {1: "m", 2: "m3/s", 3: "-", 0: "unit_unknown"}


def gval(v):
    # the exact rational of the double that the implementation handles
    return "None" if v is None else "(Some %s)" % gq(Fraction(float(Fraction(v))))


def gzl(xs):
    return glist(xs, gz)


def file_term(spec):
    vidx = {v["id"]: i for i, v in enumerate(spec["vars"])}
    ss = []
    for s in spec["series"]:
        ss.append("{| s_var := %d%%nat; s_member := %s; s_start := %s; s_end := %s; s_forecast := %s; s_times := %s; "
                  "s_events := %s; s_unit := %d%%nat |}" % (
                      vidx[s["var"]["id"]], goption(s["member"], lambda m: "%d%%nat" % m), gz(s["start"]), gz(s["end"]),
                      goption(s["forecast"], gz), gzl(s["times"]), glist(s["values"], gval), UNITS[s["unit"]]))
    return "{| f_dt := %s; f_series := %s |}" % (goption(spec["dt"], gz), glist(ss))


def store_term(st):
    vidx = {v["id"]: i for i, v in enumerate(st["vars"])}
    es = []
    for e in st["entries"]:
        es.append("{| e_m := %d%%nat; e_v := %d%%nat; e_vals := %s; e_unit := %d%%nat |}" % (
            e["m"], vidx[e["var"]["id"]], glist(e["values"], gval), UNITS[e["unit"]]))
    return ("{| st_dt := %s; st_times := %s; st_fc := %s; st_fci := %s; st_ens := %s; st_size := %d%%nat; st_entries := %s |}" % (
        goption(st["dt"], gz), gzl(st["axis"]), gz(st["forecast"]), gz(st["axis"].index(st["forecast"])),
        gbool(st["ens"] > 1 or bool(st.get("force_ens"))), st["ens"], glist(es)))


def keys_term(nv, size):
    return glist([(m, v) for m in range(size) for v in range(nv)], lambda k: "(%d%%nat, %d%%nat)" % k)


def decode_store(v, nv, size, ids):
    it = iter(v)
    dt = next(it)
    n = next(it)
    times = [next(it) for _ in range(n)]
    fc, fci, ens, sz = next(it), next(it), next(it), next(it)
    vals, units = {}, {}
    for m in range(size):
        for k in range(nv):
            if next(it) == 0:
                continue
            units["%d/%s" % (m, ids[k])] = UNIT_NAMES[next(it)]
            ln = next(it)
            arr = []
            for _ in range(ln):
                if next(it) == 0:
                    arr.append(None)
                else:
                    arr.append(Fraction(next(it), next(it)))
            vals["%d/%s" % (m, ids[k])] = arr
    return {"dt": dt or None, "times": times, "forecast": fc, "forecast_index": fci, "contains_ensemble": bool(ens), "ensemble_size": sz,
            "values": vals, "units": units}


def same_vals(a, b, tol):
    if len(a) != len(b):
        return False
    for x, y in zip(a, b):
        if (x is None) != (y is None):
            return False
        if x is not None and abs(float(x) - float(y)) > tol * max(1.0, abs(float(y))):
            return False
    return True


def diff_store(impl, model, tol=0.0, fields=("times", "forecast_index", "contains_ensemble", "ensemble_size", "dt")):
    bad = []
    for k in fields:
        if impl[k] != model[k]:
            bad.append((k, impl[k], model[k]))
    keys = set(impl["values"]) | set(model["values"])
    for k in sorted(keys):
        if k not in impl["values"] or k not in model["values"]:
            # members beyond the stored ones, or variables a member does not have
            if model["values"].get(k) or impl["values"].get(k):
                bad.append(("series-present " + k, k in impl["values"], k in model["values"]))
            continue
        if not same_vals(impl["values"][k], model["values"][k], tol):
            bad.append(("values " + k, impl["values"][k], [None if x is None else float(x) for x in model["values"][k]]))
        if impl["units"].get(k) != model["units"].get(k):
            bad.append(("unit " + k, impl["units"].get(k), model["units"].get(k)))
    return bad


def shape_file(spec):
    return ["file", "eq" if spec["dt"] else "noneq", len(spec["axis"]), len(spec["vars"]),
            sorted((s["member"] is None, s["start"] != spec["axis"][0], s["end"] != spec["axis"][-1], None in s["values"],
                    len(s["times"]) < len([t for t in spec["axis"] if s["start"] <= t <= s["end"]])) for s in spec["series"]).__repr__()[:160],
            "fc" + ("none" if spec["series"][0]["forecast"] is None else "in" if spec["series"][0]["forecast"] in spec["axis"] else "off"),
            len(spec.get("resizes", []))]


# ---- other back-ends -------------------------------------------------------------------------------------
def csv_cases(ctx):
    import rtctools.data.csv as rcsv
    rng = ctx.rng
    terms, meta = [], []
    base = tempfile.mkdtemp(prefix="verif_c11_")
    try:
        for k in range(ctx.n(30, 600)):
            ncol = rng.randint(1, 4)
            nrow = rng.randint(1, 7)
            delim = rng.choice([",", ";"])
            with_time = rng.random() < 0.6
            names = (["time"] if with_time else []) + ["c%d" % i for i in range(ncol)]
            cols = [[None if rng.random() < 0.12 else gen_value(rng) for _ in range(nrow)] for _ in range(ncol)]
            dtype = ([("time", "O")] if with_time else []) + [("c%d" % i, "f8") for i in range(ncol)]
            data = np.empty(nrow, dtype=dtype)
            if with_time:
                data["time"] = [dts(3600 * i) for i in range(nrow)]
            for i in range(ncol):
                data["c%d" % i] = [np.nan if v is None else float(Fraction(v)) for v in cols[i]]
            path = os.path.join(base, "f%d.csv" % k)
            try:
                rcsv.save(path, data, delimiter=delim, with_time=with_time)
                back = rcsv.load(path, delimiter=delim, with_time=with_time)
            except Exception as e:  # noqa: BLE001
                ctx.violation("csv/exception", {"columns": cols, "delimiter": delim, "with_time": with_time, "error": "%s: %s" % (type(e).__name__, str(e)[:200])},
                              what="csv.save / csv.load raised %s" % type(e).__name__)
                continue
            back = np.atleast_1d(back)
            ctx.count("csv_files")
            ctx.case_done(core.fingerprint(["csv", ncol, nrow, delim, with_time, any(None in c for c in cols)]), any(None in c for c in cols))
            if with_time:
                tt = [t for t in back["time"]]
                if tt != [dts(3600 * i) for i in range(nrow)]:
                    ctx.violation("csv/times", {"columns": cols, "delimiter": delim, "read": [str(t) for t in tt]}, what="time stamps changed in a CSV round trip")
            for i in range(ncol):
                got = [fval(x) for x in np.atleast_1d(back["c%d" % i])]
                terms.append("ser_fmt6 %s" % glist(cols[i], gval))
                meta.append((cols[i], got, delim, with_time))
        # hand-written files: decimal comma, empty column, integers without decimals
        for k in range(ctx.n(10, 200)):
            nrow = rng.randint(2, 6)
            vals = [[rng.choice([None, str(Fraction(rng.randint(-5000, 5000), rng.choice([1, 10, 100, 1000])))]) if rng.random() < 0.2
                     else str(Fraction(rng.randint(-5000, 5000), rng.choice([1, 10, 100, 1000]))) for _ in range(nrow)] for _ in range(3)]
            empty_col = rng.random() < 0.3
            whole_first = rng.random() < 0.4 and nrow >= 2
            if whole_first:
                # a writer that drops meaningless decimals: the first row holds whole numbers only
                for c in vals:
                    c[0] = str(rng.randint(-50, 50))
                vals[0][1] = str(Fraction(rng.randint(-5000, 5000) * 2 + 1, 10))
            path = os.path.join(base, "h%d.csv" % k)
            with open(path, "w") as fh:
                fh.write("Time;a;b;c" + (";e" if empty_col else "") + "\n")
                for i in range(nrow):
                    cells = []
                    for c in vals:
                        if c[i] is None:
                            cells.append("nan")
                        else:
                            f = Fraction(c[i])
                            txt = ("%d" % f) if f.denominator == 1 and (rng.random() < 0.5 or (whole_first and i == 0)) else ("%.3f" % float(f))
                            cells.append(txt.replace(".", ","))
                    fh.write(dts(3600 * i).strftime("%Y-%m-%d %H:%M:%S") + ";" + ";".join(cells) + (";" if empty_col else "") + "\n")
            has_comma = any("," in ln for ln in open(path).read().split("\n", 1)[1][:1024].split("\n"))
            try:
                back = np.atleast_1d(rcsv.load(path, delimiter=";", with_time=True))
            except Exception as e:  # noqa: BLE001
                ctx.violation("csv/decimal-comma-exception", {"file": open(path).read(), "error": "%s: %s" % (type(e).__name__, str(e)[:200])},
                              what="a semicolon separated file with decimal commas could not be read")
                continue
            ctx.count("csv_handwritten")
            ctx.case_done(core.fingerprint(["csvh", nrow, empty_col, has_comma]), True)
            for name, c in zip("abc", vals):
                got = [fval(x) for x in np.atleast_1d(back[name])]
                exp = [None if v is None else float(Fraction(v)) for v in c]
                if not same_vals(got, exp, 1e-12):
                    ctx.violation("csv/decimal-comma", {"file": open(path).read(), "column": name, "read": got, "expected": exp},
                                  what="decimal-comma values read %s, expected %s" % (got, exp))
            if empty_col and not all(x is None for x in [fval(x) for x in np.atleast_1d(back["e"])]):
                ctx.violation("csv/empty-column", {"file": open(path).read()}, what="an empty column did not read as missing")
    finally:
        shutil.rmtree(base, ignore_errors=True)
    vals = core.eval_terms(ID + "csv", ["PiSeries"], terms, shard=300) if terms else []
    for (col, got, delim, with_time), v in zip(meta, vals):
        it = iter(v)
        exp = []
        for _ in col:
            exp.append(None if next(it) == 0 else Fraction(next(it), next(it)))
        ok = len(got) == len(exp) and all((g is None) == (e is None) and (g is None or abs(g - float(e)) <= 1e-12 * max(1, abs(float(e)))) for g, e in zip(got, exp))
        prec = all(e is None or abs(Fraction(c) - e) <= Fraction(1, 2000000) for c, e in zip(col, exp))
        if not ok or not prec:
            ctx.violation("csv/six-decimals", {"written": col, "read": got, "model": [None if e is None else str(e) for e in exp], "delimiter": delim},
                          what="CSV round trip differs from six-decimal rounding: read %s, expected %s" % (got, [None if e is None else float(e) for e in exp]))


def netcdf_cases(ctx):
    import rtctools.data.netcdf as rnc
    from netCDF4 import Dataset
    rng = ctx.rng
    base = tempfile.mkdtemp(prefix="verif_c11_")
    try:
        for k in range(ctx.n(12, 300)):
            nst = rng.randint(1, 3)
            npar = rng.randint(1, 3)
            E = rng.choice([1, 1, 2, 3])
            n = rng.randint(2, 6)
            dt, axis = gen_axis(rng)
            axis = axis[:n] if len(axis) >= n else axis
            n = len(axis)
            fci = rng.randrange(n)
            if k % 3 == 1:
                # years away from the reference date, odd seconds: needs all 53 bits of a double
                # ... also relative to the forecast time the file is written against
                off = 86400 * 400 * (1 + k % 4) + 7
                axis = [axis[0]] + [t + off for t in axis[1:]] if k % 2 else [t - off for t in axis[:-1]] + [axis[-1]]
                fci = 0 if k % 2 else n - 1
            stations = ["st%d" % i + "x" * rng.randint(0, 3) for i in range(nst)]
            pars = ["par%d" % i for i in range(npar)]
            data = {(s, p, m): [None if rng.random() < 0.15 else float(Fraction(gen_value(rng))) for _ in range(n)]
                    for s in stations for p in pars for m in range(E)}
            # an input data set supplies the station attributes
            src = os.path.join(base, "src%d.nc" % k)
            ds = Dataset(src, "w", format="NETCDF3_CLASSIC")
            ds.createDimension("time", None)
            ds.createDimension("station", nst)
            ds.createDimension("char_leng_id", max(len(s) for s in stations))
            tv = ds.createVariable("time", "f8", ("time",))
            tv.standard_name = "time"
            tv.units = "seconds since 2020-01-01 00:00:00"
            tv.axis = "T"
            tv[:] = [0.0]
            sv = ds.createVariable("station_id", "c", ("station", "char_leng_id"))
            sv.cf_role = "timeseries_id"
            width = max(len(s) for s in stations)
            for i, s in enumerate(stations):
                sv[i, :] = np.array(list(s.ljust(width, "\0")), dtype="S1")
            lat = ds.createVariable("lat", "f8", ("station",))
            lat[:] = [float(i) + 0.5 for i in range(nst)]
            ds.close()
            rep = {"stations": stations, "parameters": pars, "ensemble": E, "axis": axis, "forecast_index": fci}
            try:
                imp = rnc.ImportDataset(base, "src%d" % k)
                st_data = imp.read_station_data()
                exp = rnc.ExportDataset(base, "out%d" % k)
                times_sec = np.array([float(t - axis[fci]) for t in axis])
                exp.write_times(times_sec, 0.0, dts(axis[fci]))
                exp.write_station_data(st_data, stations)
                exp.write_ensemble_data(E)
                exp.create_variables(pars, E)
                for (s, p, m), vals in data.items():
                    exp.write_output_values(s, p, m, np.array([np.nan if v is None else v for v in vals]), E)
                exp.close()
                back = rnc.ImportDataset(base, "out%d" % k)
                bt = [int((t - T0).total_seconds()) for t in back.read_import_times()]
            except Exception as e:  # noqa: BLE001
                ctx.violation("netcdf/exception", dict(rep, error="%s: %s" % (type(e).__name__, str(e)[:200])),
                              what="NetCDF export / import raised %s: %s" % (type(e).__name__, str(e)[:100]))
                continue
            ctx.count("netcdf_files")
            ctx.case_done(core.fingerprint(["nc", nst, npar, E, n, fci, dt is None]), E > 1 or fci > 0)
            if bt != axis:
                ctx.violation("netcdf/times", dict(rep, read=bt), what="NetCDF time stamps read back as %s, written %s" % (bt, axis))
            if back.ensemble_size != E:
                ctx.violation("netcdf/ensemble", dict(rep, read=back.ensemble_size), what="NetCDF ensemble size %s, written %s" % (back.ensemble_size, E))
            ids = list(back.read_station_data().station_ids)
            if ids != stations:
                ctx.violation("netcdf/stations", dict(rep, read=ids), what="station ids read back as %s" % ids)
            if sorted(back.find_timeseries_variables()) != sorted(pars):
                ctx.violation("netcdf/variables", dict(rep, read=back.find_timeseries_variables()), what="time series variables differ")
                continue
            for (s, p, m), vals in data.items():
                got = [fval(x) for x in back.read_timeseries_values(stations.index(s), p, m)]
                if not same_vals(got, vals, 0.0):
                    ctx.violation("netcdf/values", dict(rep, key=[s, p, m], read=got, written=vals), what="NetCDF values of %s/%s member %d differ" % (s, p, m))
    finally:
        shutil.rmtree(base, ignore_errors=True)


def param_cases(ctx):
    import rtctools.data.pi as pi
    rng = ctx.rng
    base = tempfile.mkdtemp(prefix="verif_c11_")
    terms, meta = [], []
    try:
        for k in range(ctx.n(15, 300)):
            groups = []
            shared = rng.random() < 0.4          # several groups with one id, told apart by model (and location)
            shared_loc = rng.choice([None, "L"])
            for gi in range(rng.randint(2 if shared else 1, 3)):
                g = {"id": "g%d" % gi, "location": rng.choice([None, "L%d" % gi]), "model": rng.choice([None, "M%d" % gi]), "parameters": []}
                if shared:
                    g.update({"id": "shared", "location": shared_loc if rng.random() < 0.7 else "L%d" % gi, "model": "M%d" % gi})
                for pi_ in range(rng.randint(1, 4)):
                    ty = rng.choice(["bool", "int", "dbl", "dbl", "str"])
                    val = {"bool": rng.random() < 0.5, "int": rng.randint(-50, 50), "dbl": float(Fraction(gen_value(rng))), "str": "text%d" % pi_}[ty]
                    text = {"bool": "true" if val else "false", "int": str(val), "dbl": repr(val), "str": val}[ty]
                    g["parameters"].append({"id": "p%d" % pi_, "type": ty, "value": val, "text": text,
                                            "description": "about" if rng.random() < 0.3 else None})
                groups.append(g)
            path = os.path.join(base, "rtcParameterConfig%d.xml" % k)
            with open(path, "w") as fh:
                fh.write(pifiles.parameter_xml(groups))
            pc = pi.ParameterConfig(base, "rtcParameterConfig%d" % k)
            ctx.count("parameter_files")
            ctx.case_done(core.fingerprint(["par", [[p["type"], bool(p["description"])] for g in groups for p in g["parameters"]]]), True)
            listed = {(loc, mod, pid): val for loc, mod, pid, val in pc}
            expect = {}
            for g in groups:
                for p in g["parameters"]:
                    got = pc.get(g["id"], p["id"], g["location"], g["model"])
                    if got != p["value"] or type(got) is not type(p["value"]):
                        ctx.violation("param/get", {"groups": groups, "parameter": [g["id"], p["id"]], "read": repr(got)}, what="parameter read as %r, file holds %r" % (got, p["value"]))
                    if listed.get((g["location"], g["model"], p["id"])) != p["value"] and len([1 for g2 in groups if (g2["location"], g2["model"]) == (g["location"], g["model"])]) == 1:
                        ctx.violation("param/iter", {"groups": groups, "parameter": [g["id"], p["id"]]}, what="iteration does not list the parameter value")
                    # set a new value
                    newty = rng.choice([p["type"]] * 3 + ["bool", "int", "dbl"])
                    new = {"bool": rng.random() < 0.5, "int": rng.randint(-50, 50), "dbl": float(Fraction(gen_value(rng))), "str": "zz"}[newty]
                    try:
                        pc.set(g["id"], p["id"], new, g["location"], g["model"])
                        outcome = "ok"
                    except Exception as e:  # noqa: BLE001
                        outcome = "raise:" + str(e)[:60]
                    expect[(len(expect), g["id"], p["id"])] = (p, new, newty, outcome, g)
            pc.write(base, "out%d" % k)
            pc2 = pi.ParameterConfig(base, "out%d" % k)
            for (_, gid, pid), (p, new, newty, outcome, g) in expect.items():
                try:
                    got = pc2.get(gid, pid, g["location"], g["model"])
                except Exception as e:  # noqa: BLE001
                    ctx.violation("param/reread-exception", {"groups": groups, "parameter": [gid, pid], "old": repr(p["value"]), "new": repr(new),
                                                             "error": "%s: %s" % (type(e).__name__, str(e)[:200])},
                                  what="after set(%r) on a %s parameter the written file cannot be read: %s" % (new, p["type"], str(e)[:80]))
                    continue

                def pv(ty, v):
                    return {"bool": lambda: "(PBool %s)" % gbool(v), "int": lambda: "(PInt %s)" % gz(v), "dbl": lambda: "(PDbl %s)" % gq(Fraction(v)),
                            "str": lambda: "(PStr 0%nat)"}[ty]()
                terms.append("match param_set %s %s with PRaise => [9%%Z] | POk (PBool b) => [0; if b then 1 else 0]%%Z | POk (PInt z) => [1%%Z; z] "
                             "| POk (PDbl q) => 2%%Z :: ser_q q | POk (PStr _) => [3%%Z] end" % (pv(p["type"], p["value"]), pv(newty, new)))
                meta.append((groups, gid, pid, p, new, newty, outcome, got))
    finally:
        shutil.rmtree(base, ignore_errors=True)
    vals = core.eval_terms(ID + "par", ["PiSeries"], terms, shard=300) if terms else []
    for (groups, gid, pid, p, new, newty, outcome, got), v in zip(meta, vals):
        rep = {"groups": groups, "parameter": [gid, pid], "old": repr(p["value"]), "new": repr(new), "outcome": outcome, "reread": repr(got)}
        if v[0] == 9:
            if outcome == "ok" and p["type"] != "str" and not (p["type"] == "bool"):
                pass
            # a refused set must leave the stored value alone
            if outcome != "ok" and (got != p["value"]):
                ctx.violation("param/failed-set-changed-value", rep, what="a rejected set() changed the stored value")
            if outcome == "ok" and p["type"] in ("bool", "str"):
                ctx.violation("param/set-accepted-wrong-type", rep, what="set(%r) on a %s parameter was accepted" % (new, p["type"]))
            continue
        if outcome != "ok":
            ctx.violation("param/set-raised", rep, what="set(%r) on a %s parameter raised: %s" % (new, p["type"], outcome))
            continue
        exp = {0: lambda: bool(v[1]), 1: lambda: int(v[1]), 2: lambda: float(Fraction(v[1], v[2]))}[v[0]]()
        if got != exp or type(got) is not type(exp):
            ctx.violation("param/roundtrip", rep, what="parameter set to %r read back as %r (expected %r)" % (new, got, exp))


# ---- main ------------------------------------------------------------------------------------------------
def run(ctx):
    replay = os.environ.get("VERIF_REPLAY")
    rng = ctx.rng
    if replay:
        r = json.load(open(replay))["replay"]
        files = [r["spec"]] if "series" in r.get("spec", {}) else []
        stores = [r["spec"]] if "entries" in r.get("spec", {}) else []
    else:
        corpus = [c["spec"] for c in core.corpus_cases(ID)]
        files = [c for c in corpus if "series" in c]
        stores = [c for c in corpus if "entries" in c]
        for _ in range(ctx.n(60, 2500)):
            f = gen_file(rng)
            if rng.random() < 0.5:
                f["resizes"] = gen_resizes(rng, f["dt"], f["axis"])
            files.append(f)
        for _ in range(ctx.n(30, 1200)):
            s = gen_store(rng)
            # the binary form carries no time stamps: only equidistant axes can be recovered from it
            s["binary"] = rng.random() < 0.5 and s["dt"] is not None
            if rng.random() < 0.3:
                s["resizes"] = gen_resizes(rng, s["dt"], s["axis"])
            if s["ens"] == 1 and len(stores) % 3 == 0:
                s["force_ens"] = True
            stores.append(s)
    terms, meta = [], []
    for spec in files:
        try:
            res = impl_read(spec)
        except Exception as e:  # noqa: BLE001
            import traceback
            ctx.count("file_exception")
            ctx.violation("pi/read-exception", {"spec": spec, "xml": pifiles.pi_xml(spec), "error": "%s: %s | %s" % (type(e).__name__, str(e)[:200], traceback.format_exc()[-500:])},
                          what="reading / writing a generated PI file raised %s: %s" % (type(e).__name__, str(e)[:120]))
            continue
        nv = len(spec["vars"])
        size = max(1, max([s["member"] + 1 for s in spec["series"] if s["member"] is not None] or [1]))
        keys = keys_term(nv, size)
        ft = file_term(spec)
        terms.append("ser_store (pi_read %s) %s" % (ft, keys))
        meta.append(("read", spec, res, nv, size))
        if "resized" in res:
            cur = "(pi_read %s)" % ft
            for i, (a, b) in enumerate(spec["resizes"][:len(res["resized"])]):
                terms.append("(if resize_allowed %s %s %s then 1 else 0)%%Z :: ser_store (resize %s %s %s) %s" % (cur, gz(a), gz(b), cur, gz(a), gz(b), keys))
                meta.append(("resize", spec, res, nv, size, i))
                cur = "(resize %s %s %s)" % (cur, gz(a), gz(b))
            if "resized_reread" in res:
                terms.append("ser_store (pi_read (pi_write %s)) %s" % (cur, keys))
                meta.append(("resize_reread", spec, res, nv, size))
    for st in stores:
        try:
            res = impl_write_new(st, st.get("binary", False))
        except Exception as e:  # noqa: BLE001
            import traceback
            ctx.count("store_exception")
            ctx.violation("pi/write-exception", {"spec": st, "error": "%s: %s | %s" % (type(e).__name__, str(e)[:200], traceback.format_exc()[-500:])},
                          what="writing a new PI file raised %s: %s" % (type(e).__name__, str(e)[:120]))
            continue
        nv = len(st["vars"])
        cur = store_term(st)
        for a, b in st.get("resizes", []):
            cur = "(resize %s %s %s)" % (cur, gz(a), gz(b))
        terms.append("ser_store %s %s" % (cur, keys_term(nv, st["ens"])))
        meta.append(("store", st, res, nv, st["ens"]))
        terms.append("ser_store (pi_read (pi_write %s)) %s" % (cur, keys_term(nv, st["ens"])))
        meta.append(("store_rw", st, res, nv, st["ens"]))
    vals = core.eval_terms(ID, ["PiSeries"], terms, shard=120) if terms else []
    for m, v in zip(meta, vals):
        kind, spec, res, nv, size = m[:5]
        ids = [x["id"] for x in spec["vars"]]
        if kind == "read":
            model = decode_store(v, nv, size, ids)
            nontriv = any(s["start"] != spec["axis"][0] or s["end"] != spec["axis"][-1] or None in s["values"] or s["member"] is not None for s in spec["series"])
            ctx.case_done(core.fingerprint(shape_file(spec)), nontriv)
            ctx.count("pi_files_" + ("equidistant" if spec["dt"] else "nonequidistant"))
            bad = diff_store(res["read"], model)
            if bad:
                ctx.violation("pi/read", {"spec": spec, "xml": pifiles.pi_xml(spec), "differences": bad[:4]},
                              what="PI file read differs from the file's content: %s impl %s, expected %s" % bad[0])
                continue
            bad = diff_store(res["reread"], model)
            if bad:
                ctx.violation("pi/rewrite", {"spec": spec, "xml": pifiles.pi_xml(spec), "differences": bad[:4]},
                              what="read -> write -> read changed the content: %s impl %s, expected %s" % bad[0])
            elif len(ctx.samples) < 2 and nontriv:
                ctx.sample({"xml": pifiles.pi_xml(spec)[:1500], "read": res["read"]})
        elif kind == "resize":
            i = m[5]
            allowed = v[0] == 1
            step = res["resized"][i]
            ctx.count("resize_ops")
            if "raised" in step:
                if allowed:
                    ctx.violation("pi/resize-raised", {"spec": spec, "step": i, "error": step["raised"]}, what="an admissible resize raised")
                continue
            if not allowed:
                ctx.violation("pi/resize-accepted", {"spec": spec, "step": i}, what="a non-equidistant series was stretched beyond its range")
                continue
            model = decode_store(v[1:], nv, size, ids)
            bad = diff_store(step, model, fields=("times", "forecast_index"))
            if bad:
                ctx.violation("pi/resize", {"spec": spec, "xml": pifiles.pi_xml(spec), "step": i, "resizes": spec["resizes"], "differences": bad[:4]},
                              what="resize(%s, %s): %s impl %s, expected %s" % (tuple(spec["resizes"][i]) + bad[0]))
        elif kind == "resize_reread":
            model = decode_store(v, nv, size, ids)
            bad = diff_store(res["resized_reread"], model, fields=("times", "forecast_index"))
            if bad:
                ctx.violation("pi/resize-write", {"spec": spec, "xml": pifiles.pi_xml(spec), "resizes": spec["resizes"], "differences": bad[:4]},
                              what="resize + write + read: %s impl %s, expected %s" % bad[0])
        elif kind in ("store", "store_rw"):
            model = decode_store(v, nv, size, ids)
            tol = 1e-6 if spec.get("binary") else 0.0
            if kind == "store":
                ctx.case_done(core.fingerprint(["store", bool(spec["dt"]), len(spec["axis"]), nv, size, spec.get("binary"), len(spec.get("resizes", [])),
                                                any(None in e["values"] for e in spec["entries"])]), size > 1 or bool(spec.get("resizes")))
                ctx.count("pi_new_files_" + ("binary" if spec.get("binary") else "xml"))
                if "resized" in res:
                    bad = diff_store(res["resized"], model, fields=("times", "forecast_index"))
                    if bad:
                        ctx.violation("pi/resize", {"spec": spec, "differences": bad[:4]}, what="resize of a new series: %s impl %s, expected %s" % bad[0])
                        continue
            bad = diff_store(res["reread"], model, tol=tol)
            if spec["timezone"] != res["timezone"]:
                bad.append(("timezone", res["timezone"], spec["timezone"]))
            if bad:
                ctx.violation("pi/roundtrip" if kind == "store" else "pi/roundtrip-model", {"spec": spec, "differences": bad[:4]},
                              what="written PI series read back differently: %s impl %s, expected %s" % bad[0])
    if not replay:
        csv_cases(ctx)
        netcdf_cases(ctx)
        param_cases(ctx)
