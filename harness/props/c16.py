"""C16 — delayed feedback equals the delayed expression, history included (optimisation transcription;
the simulator's delay buffer is exercised in C09)."""
import json
import os
from fractions import Fraction

import casadi as ca
import numpy as np

from .. import core, tr, trcheck, problems
from ..core import gq, glist
from ..problems import ast_gallina

ID = "C16"
PROPS_FILE = "props/C16.v"
MODEL_FILES = ["Xq", "Interp", "Expr", "Transcribe", "Delay"]
RULE = ("generated models with 1-2 delayed feedbacks y = delay(expr, tau): expr a state, an algebraic or a "
        "linear combination; tau zero, shorter / longer than a step, parameter-dependent, longer than the "
        "supplied history; non-equidistant grids; per-member histories (complete, too short, absent, with gaps "
        "for variables the expression does not use); nominals; the delay rows of nlp g are compared with "
        "Delay.v at a rational decision vector. non-trivial = tau > 0 and a history that is used or found "
        "incomplete; distinct = abstracted shapes")
MODELLED = "transcribe() delayed feedback block (history assembly, enough-history decision, interpolation of out_values, row nominal)"
NOT_MODELLED = ("delayed expressions that mention constant inputs or time (their values on the history are not part of the "
                "model), aliases of the receiving variable; the simulator's delay buffer is proved in C09_delay_weight and exercised "
                "here on generated models against the interpolated delayed expression")
ASSUMPTIONS = ["history series end at t0"]


def gen_case(rng):
    s = tr.gen_spec(rng, {"history": False, "own_grid": False})
    while not (s["states"] or s["algebraics"]):
        s = tr.gen_spec(rng, {"history": False, "own_grid": False})
    coll = s["states"] + s["algebraics"] + s["controls"]
    E = s["ensemble_size"]
    times = [Fraction(t) for t in s["times"]]
    # the receiving variables: fresh algebraics without own equation (like ModelicaMixin's delay inputs)
    nd = rng.choice([1, 1, 2])
    delays = []
    src = s["states"] + s["algebraics"]
    for k in range(nd):
        name = "dly%d" % k
        s["algebraics"].append(name)
        r = rng.random()
        if r < 0.6:
            e = ["v", rng.choice(src)]
        else:
            e = ["+", ["*", ["c", str(rng.choice([1, 2, -1, Fraction(1, 2)]))], ["v", rng.choice(src)]],
                 ["*", ["c", str(rng.choice([1, -1, 3]))], ["v", rng.choice(src)]]]
            if rng.random() < 0.3:
                e = ["+", e, ["c", str(rng.randint(1, 3))]]
        rt = rng.random()
        step = times[1] - times[0]
        if rt < 0.15:
            tau = "0"
        elif rt < 0.4:
            tau = str(step * Fraction(rng.randint(1, 3), 4))
        elif rt < 0.7:
            tau = str(step * Fraction(rng.randint(5, 12), 4))
        elif rt < 0.85 and s["parameters"]:
            tau = ["v", s["parameters"][0]]
            for m in range(E):
                s["param_values"][m][s["parameters"][0]] = str(Fraction(rng.randint(0, 9), 4))
        else:
            tau = str(step * rng.randint(1, 2))
        delays.append([e, name, tau])
        if rng.random() < 0.4:
            s.setdefault("nominals", {})[name] = str(rng.choice([2, Fraction(1, 4), 10]))
    s["delayed_feedback"] = delays
    # what an IO mixin reports about its (equidistant) import data; the axis of history ++ horizon that the
    # delayed expression is interpolated on is a different matter
    s["equidistant"] = rng.random() < 0.5
    # histories
    hs = []
    for m in range(E):
        h = {}
        kind = rng.choice(["complete", "complete", "short", "absent", "partial"])
        if kind != "absent":
            k = rng.choice([2, 3, 4]) if kind != "short" else 2
            span = rng.choice([Fraction(1, 2), 1, 2]) if kind == "short" else rng.choice([2, 3, 5])
            ht = sorted({times[0] - span * Fraction(k - 1 - i, max(k - 1, 1)) for i in range(k)})
            ht[-1] = times[0]
            for v in coll:
                if kind == "partial" and rng.random() < 0.4:
                    continue
                tt = ht if rng.random() < 0.7 else ht[-2:]
                h[v] = {"times": [str(t) for t in tt], "values": [str(tr.dy(rng)) for _ in tt]}
        hs.append(h)
    s["history"] = hs
    return s


def delay_rows_impl(s, rng):
    P = problems.make_base(s)
    p = P()
    d, lbx, ubx, lbg, ubg, x0, nlp = p.transcribe()
    nx = nlp["x"].shape[0]
    X = [Fraction(rng.randint(-12, 12), rng.choice([1, 2, 4])) for _ in range(nx)]
    g = [float(v) for v in np.array(ca.Function("g", [nlp["x"]], [nlp["g"]])(ca.DM([float(x) for x in X]))).ravel()]
    lb = [float(v) for v in np.array(ca.veccat(*lbg)).ravel()]
    ub = [float(v) for v in np.array(ca.veccat(*ubg)).ravel()]
    return X, g, lb, ub


def alias_variant(ctx, s):
    """the receiving variable addressed through a negated alias, the delayed expression negated: every row is
    the same row or its negation"""
    import random
    r2 = random.Random(json.dumps(s, sort_keys=True, default=str))
    s2 = json.loads(json.dumps(s))
    d = s2["delayed_feedback"][r2.randrange(len(s2["delayed_feedback"]))]
    s2["aliases"] = [[d[1], "-n" + d[1]]]
    d[0], d[1] = ["neg", d[0]], "n" + d[1]
    try:
        seed = r2.random()
        X, g, _, _ = delay_rows_impl(s, random.Random(seed))
        X2, g2, _, _ = delay_rows_impl(s2, random.Random(seed))
    except Exception as e:  # noqa: BLE001
        ctx.count("alias_variant_exception_" + type(e).__name__)
        return
    ctx.count("alias_variants")
    if len(g) != len(g2) or any(not (tr.close(a, b, 1e-8) or tr.close(a, -b, 1e-8)) for a, b in zip(g, g2)):
        bad = [(i, a, b) for i, (a, b) in enumerate(zip(g, g2)) if not (tr.close(a, b, 1e-8) or tr.close(a, -b, 1e-8))]
        ctx.violation("delay/alias-target", {"spec": s, "alias_spec": s2, "X": [str(x) for x in X], "differences": bad[:5]},
                      what="a delayed feedback received through a negated alias (expression negated) gives other rows: %s" % (bad[:2],))


def member_variant(ctx, s):
    """two members that differ only in a constant input (given before t0 as well) entering a delayed expression:
    the delay rows of member 0 are those of the problem in which both members have member 0's series"""
    import random
    r2 = random.Random("m" + json.dumps(s, sort_keys=True, default=str))
    times = [Fraction(t) for t in s["times"]]
    base = json.loads(json.dumps(s))
    base["ensemble_size"] = 2
    for key in ("param_values", "constant_input_values", "history"):
        first = base.get(key, [{}])[0]
        base[key] = [json.loads(json.dumps(first)), json.loads(json.dumps(first))]
    base.pop("probabilities", None)
    stamps = [times[0] - 3, times[0] - 2, times[0] - 1] + times
    base["constant_inputs"] = list(base.get("constant_inputs", [])) + ["cd"]
    A = [str(tr.dy(r2)) for _ in stamps]
    B = [str(tr.dy(r2) + 20) for _ in stamps]
    d = base["delayed_feedback"][r2.randrange(len(base["delayed_feedback"]))]
    d[0] = ["+", d[0], ["v", "cd"]]
    # a history that reaches back far enough for every variable (complete history)
    coll = base["states"] + base["algebraics"] + base["controls"]
    for m in range(2):
        for v in coll:
            if v.startswith("dly"):
                continue
            base["history"][m][v] = {"times": [str(t) for t in stamps[:4]], "values": [str(tr.dy(r2)) for _ in range(4)]}
    base["history"][1] = json.loads(json.dumps(base["history"][0]))

    def rows(series_1):
        sp = json.loads(json.dumps(base))
        for m, vals in enumerate((A, series_1)):
            sp["constant_input_values"][m]["cd"] = {"times": [str(t) for t in stamps], "values": vals}
        p = problems.make_base(sp)()
        _, _, _, _, _, _, nlp = p.transcribe()
        nx = nlp["x"].shape[0]
        X = ca.DM([float(Fraction(random.Random(7).randint(-12, 12), 4)) for _ in range(nx)])
        g = [float(v) for v in np.array(ca.Function("g", [nlp["x"]], [nlp["g"]])(X)).ravel()]
        sp_ = ca.jacobian(nlp["g"], nlp["x"]).sparsity()
        f = ca.Function("i", [p.solver_input], [ca.vertcat(p.state_vector(d[1], 0)), ca.vertcat(p.state_vector(d[1], 1))])
        i0, i1 = ([int(round(float(x))) for x in np.array(o).ravel()] for o in f(ca.DM(list(range(nx)))))
        own = []
        for r in range(sp_.size1()):
            cols = set(sp_.get_col()[sp_.row() == r]) if False else {c for c in range(nx) if sp_.has_nz(r, c)}
            if cols & set(i0) and not cols & set(i1):
                own.append(r)
        return g, own, sp
    try:
        g_ab, own, sp = rows(B)
        g_aa, own2, _ = rows(A)
    except Exception as e:  # noqa: BLE001
        ctx.count("member_variant_exception_" + type(e).__name__)
        return
    ctx.count("member_variants")
    bad = [(r, g_aa[r], g_ab[r]) for r in own if not tr.close(g_aa[r], g_ab[r], 1e-9)]
    if own != own2 or bad:
        ctx.violation("delay/other-member-data", {"spec": sp, "rows_of_member_0": own, "differences": bad[:5]},
                      what="the delay rows of member 0 change with member 1's constant input series: %s" % (bad[:2],))


def block_input_variant(ctx, s):
    """a piecewise-constant constant input inside a delayed expression, given once on every stamp (history and
    horizon) and once on every second stamp only: the same signal, so the same rows"""
    import random
    r2 = random.Random("b" + json.dumps(s, sort_keys=True, default=str))
    times = [Fraction(t) for t in s["times"]]
    base = json.loads(json.dumps(s))
    base["ensemble_size"] = 1
    for key in ("param_values", "constant_input_values", "history"):
        base[key] = [json.loads(json.dumps(base.get(key, [{}])[0]))]
    base.pop("probabilities", None)
    hist = [times[0] - 4, times[0] - 3, times[0] - 2, times[0] - 1, times[0]]
    stamps = hist + times[1:]
    base["constant_inputs"] = list(base.get("constant_inputs", [])) + ["cb"]
    base.setdefault("interpolation", {})["cb"] = r2.choice([1, 1, 2])          # previous / next value
    mode = base["interpolation"]["cb"]
    coarse = [t for i, t in enumerate(stamps) if i % 2 == 0] + ([stamps[-1]] if len(stamps) % 2 == 0 else [])
    cvals = [tr.dy(r2) for _ in coarse]

    def value(t):
        if mode == 1:
            return cvals[max(i for i, c_ in enumerate(coarse) if c_ <= t)]
        return cvals[min(i for i, c_ in enumerate(coarse) if c_ >= t)]
    fine = [value(t) for t in stamps]
    d = base["delayed_feedback"][r2.randrange(len(base["delayed_feedback"]))]
    d[0] = ["+", d[0], ["*", ["c", "2"], ["v", "cb"]]]
    coll = base["states"] + base["algebraics"] + base["controls"]
    for v in coll:
        if not v.startswith("dly"):
            base["history"][0][v] = {"times": [str(t) for t in hist], "values": [str(tr.dy(r2)) for _ in hist]}

    def rows(ts, vs):
        sp = json.loads(json.dumps(base))
        sp["constant_input_values"][0]["cb"] = {"times": [str(t) for t in ts], "values": [str(x) for x in vs]}
        p = problems.make_base(sp)()
        _, _, _, _, _, _, nlp = p.transcribe()
        nx = nlp["x"].shape[0]
        rr = random.Random(11)
        X = ca.DM([float(Fraction(rr.randint(-12, 12), 4)) for _ in range(nx)])
        return [float(v) for v in np.array(ca.Function("g", [nlp["x"]], [nlp["g"]])(X)).ravel()], sp
    try:
        g_fine, sp1 = rows(stamps, fine)
        g_coarse, sp2 = rows(coarse, cvals)
    except Exception as e:  # noqa: BLE001
        ctx.count("block_variant_exception_" + type(e).__name__)
        return
    ctx.count("block_input_variants")
    bad = [(i, a, b) for i, (a, b) in enumerate(zip(g_fine, g_coarse)) if not tr.close(a, b, 1e-9)]
    if len(g_fine) != len(g_coarse) or bad:
        ctx.violation("delay/input-interpolation-on-history", {"spec": sp1, "coarse_spec": sp2, "differences": bad[:5]},
                      what="a piecewise-constant input inside a delayed expression gives other rows when its series has fewer stamps: %s" % (bad[:2],))


def model_term(s, X):
    ei = tr.env_index(s)
    q = lambda v: gq(tr.fx(Fraction(v)))  # noqa: E731
    coll = s["states"] + s["algebraics"] + s["controls"]
    E = s["ensemble_size"]
    n = len(s["times"])
    res = glist(s.get("residual", []), lambda e: ast_gallina(e, ei))
    res0 = glist(s.get("initial_residual", []), lambda e: ast_gallina(e, ei))

    def taus(tau, m):
        if isinstance(tau, list):
            v = Fraction(s["param_values"][m][tau[1]])
            return [v] * n
        return [Fraction(tau)] * n
    parts = []
    for m in range(E):
        ds = glist(s["delayed_feedback"], lambda d: "{| d_expr := %s; d_in := %d%%nat; d_tau := %s |}" % (
            ast_gallina(d[0], ei), coll.index(d[1]), glist(taus(d[2], m), q)))
        parts.append("(init_der_rows P X %d%%nat ++ collocation_rows F P X %d%%nat ++ flat_map (delay_rows P X %d%%nat) %s)" % (m, m, m, ds))
    return ("let P := %s in let X := %s in let F := F_of %s in let F0 := F_of %s in\n"
            "  ser_ql (flat_map (initial_rows F F0 P X) (seq 0 %d) ++ %s)"
            % (tr.problem_term(s), glist(X, q), res, res0, E, " ++ ".join(parts)))


def reference_rows(s, X, g_impl):
    return None


def run(ctx):
    replay = os.environ.get("VERIF_REPLAY")
    if replay:
        specs = [json.load(open(replay))["replay"]["spec"]]
    else:
        specs = [c["spec"] for c in core.corpus_cases(ID)] + [gen_case(ctx.rng) for _ in range(ctx.n(120, 4000))]
    jobs = []
    for si, s in enumerate(specs):
        if not replay and si % 3 == 0:
            alias_variant(ctx, s)
        if not replay and si % 3 == 1:
            member_variant(ctx, s)
        if not replay and si % 3 == 2:
            block_input_variant(ctx, s)
        try:
            X, g, lb, ub = delay_rows_impl(s, ctx.rng)
        except Exception as e:
            ctx.count("impl_exception_" + type(e).__name__)
            ctx.violation("delay/exception", {"spec": s, "error": "%s: %s" % (type(e).__name__, str(e)[:300])},
                          what="transcribe() raised %s on a delayed feedback model" % type(e).__name__)
            continue
        jobs.append((s, X, g, lb, ub))
    vals = core.eval_terms(ID, trcheck.IMPORTS + ["Delay"], [model_term(s, X) for s, X, _, _, _ in jobs], shard=12)
    for (s, X, g, lb, ub), v in zip(jobs, vals):
        it = iter(v)
        k = next(it)
        rows = [Fraction(next(it), next(it)) for _ in range(k)]
        taus = [d[2] for d in s["delayed_feedback"]]
        used = any(h for h in s["history"])
        ctx.case_done(core.fingerprint([trcheck.shape_of(s), [[str(d[0])[:40], str(d[2])] for d in s["delayed_feedback"]]]),
                      used and any(str(t) != "0" for t in taus))
        for t in taus:
            ctx.count("tau_param" if isinstance(t, list) else "tau_zero" if str(t) == "0" else "tau_positive")
        if len(rows) != len(g):
            ctx.violation("delay/row-count", {"spec": s, "impl": len(g), "model": len(rows)},
                          what="number of rows differs: %d vs %d" % (len(g), len(rows)))
            continue
        bad = [(i, a, float(b)) for i, (a, b) in enumerate(zip(g, rows)) if not tr.close(a, b, 1e-8)]
        if any(x != 0.0 for x in lb) or any(x != 0.0 for x in ub):
            bad.append(("bounds", lb, ub))
        if bad:
            ctx.violation("delay/rows", {"spec": s, "X": [str(x) for x in X], "differences": bad[:5]},
                          what="delayed feedback rows differ from y(t) = expr(t - tau): row %s impl %s model %s" % bad[0][:3])
        elif len(ctx.samples) < 3 and used:
            ctx.sample({"spec": s, "rows_impl": g[-6:], "rows_model": [str(r) for r in rows[-6:]]})


# ---- the simulator's delay buffer (same property, simulation side) ------------------------------------------
def sim_delay_cases(ctx):
    """pymoca-compiled models with delay(expr, tau), tau an integer or non-integer multiple of the step, a
    fraction of it, zero, or a parameter: the delayed variable must be the expression, linearly interpolated,
    tau seconds earlier (the value at t0 held before t0)"""
    from concurrent.futures import ProcessPoolExecutor
    from . import c09
    rng = ctx.rng
    specs = []
    k = 0
    while len(specs) < ctx.n(6, 200):
        k += 1
        m = c09.gen_model(rng, 1000 + k)
        if not m["delays"]:
            m.pop("multiples", None)            # a delay buffer needs a fixed step
            src = rng.choice(m["states"] + m["algebraics"])["name"]
            mult = rng.choice([1, 2, Fraction(1, 2), Fraction(3, 2), Fraction(5, 4), 0, 3])
            m["algebraics"].append({"name": "dly0"})
            m["delays"].append(["dly0", ["v", src], str(mult * m["dt"])])
        if len(specs) < 2:
            # (independent of the random stream) delays of 5/4 and 9/4 steps: longer than a step, not a multiple
            # of it, nearer to the smaller multiple
            m["delays"][0][2] = str([Fraction(5, 4), Fraction(9, 4)][len(specs)] * m["dt"])
        m["nsteps"] = max(m["nsteps"], 5)
        for u in m["series"]:
            m["series"][u] = m["series"][u][: m["nsteps"] + 1]
            while len(m["series"][u]) < m["nsteps"] + 1:
                m["series"][u].append(str(Fraction(rng.randint(-16, 16), 4)))
        specs.append(m)
    with ProcessPoolExecutor(max_workers=8) as ex:
        results = list(ex.map(c09.safe_run, specs))
    for spec, res in zip(specs, results):
        mult = Fraction(spec["delays"][0][2]) / spec["dt"]
        ctx.case_done(core.fingerprint(["simdelay", str(mult), len(spec["states"]), len(spec["algebraics"])]), mult > 0)
        ctx.count("sim_delay_models")
        ctx.count("sim_delay_integer_multiple" if mult.denominator == 1 and mult > 0 else "sim_delay_other")
        if "error" in res:
            ctx.violation("simdelay/exception", {"spec": spec, "error": res["error"]}, no_input=True,
                          what="simulation of a generated delay model failed: %s" % res["error"][:160])
            continue
        if res["raised"]:
            ctx.violation("simdelay/step-raised", {"spec": spec, "raised": res["raised"]}, no_input=True, what="update() raised: %s" % res["raised"]["error"])
            continue
        obs = res["obs"]
        for name, expr, tau in spec["delays"]:
            ref = c09.delayed_reference(spec, obs, name, expr, tau)
            got = [o[name] for o in obs]
            if any(abs(a - b) > 1e-6 * (1 + abs(b)) for a, b in list(zip(got, ref))[1:]):
                ctx.violation("simdelay/value", {"spec": spec, "delay": [name, expr, tau], "simulated": got, "expected": ref},
                              what="simulated delayed variable %s (tau = %s x dt) is %s, the delayed expression is %s" % (name, mult, got, ref))


_run_core = run


def run(ctx):  # noqa: F811
    _run_core(ctx)
    if not os.environ.get("VERIF_REPLAY"):
        sim_delay_cases(ctx)
