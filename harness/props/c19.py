"""C19 — interpolation and bound merging: OptimizationProblem.interpolate / merge_bounds and the
symbolic interpolator against the Gallina models Interp.v / MergeBounds.v."""
import json
import math
import os
from fractions import Fraction

import casadi as ca
import numpy as np

from .. import core
from ..core import gq, glist, gz

ID = "C19"
PROPS_FILE = "props/C19.v"
MODEL_FILES = ["Xq", "Interp", "MergeBounds"]
RULE = ("interpolate: strictly increasing knot vectors (2-6 knots, dyadic and non-dyadic, t0 != 0) x query "
        "layouts (scalar; array on / between / left / right of knots; array equal to the knots = early "
        "exit) x 3 modes x fills (None, NaN, +-inf, finite) x 1-D / 2-D values; symbolic interp1d on the "
        "same data; merge_bounds: all pairs of bound kinds (int, float, 1-element vector, vector, "
        "Timeseries 1-D / 2-D) with matching and mismatching shapes / time stamps, +-inf entries. "
        "non-trivial = query off the knots or a kind-mixing merge; distinct = distinct abstracted shapes")
MODELLED = ("optimization_problem.py interpolate/__interpolate (787-880), merge_bounds (499-590); "
            "casadi_helpers.interpolate as casadi.interp1d (clamped linear/floor/ceil)")
NOT_MODELLED = "binary64 rounding inside numpy.interp (linear mode between knots compared to 1e-9); NaN function values"
ASSUMPTIONS = ["knot vectors are sorted (the code assumes it too)"]


def F(x):
    return Fraction(x)


# ---------------------------------------------------------------------------------------------------
# interpolate
# ---------------------------------------------------------------------------------------------------
def gen_q(rng, dyadic=True):
    if dyadic:
        return Fraction(rng.randint(-24, 40), rng.choice([1, 1, 2, 4, 8]))
    return Fraction(rng.randint(-24, 40), rng.choice([1, 3, 5, 7, 10]))


def fx(x):
    """exact rational value of the binary64 nearest to x, as a string"""
    return str(Fraction(float(Fraction(x))))


def gen_fill(rng):
    r = rng.random()
    if r < 0.25:
        return None
    if r < 0.5:
        return "nan"
    if r < 0.6:
        return "inf"
    if r < 0.7:
        return "-inf"
    return fx(gen_q(rng))


def gen_interp(rng):
    n = rng.randint(1, 6)
    dy = rng.random() < 0.7
    t0 = gen_q(rng, dy)
    ts = [t0]
    for _ in range(n - 1):
        ts.append(ts[-1] + abs(gen_q(rng, dy)) + Fraction(1, 8))
    kind = rng.choice(["scalar", "scalar", "array", "array", "array_eq", "2d", "2d_eq", "array_near", "2d_near"])
    ncol = rng.randint(1, 3) if kind.startswith("2d") else 1
    cols = [[gen_q(rng, dy) for _ in range(n)] for _ in range(ncol)]

    def qpoint():
        r = rng.random()
        if r < 0.3:
            return rng.choice(ts)
        if r < 0.65 and n > 1:
            i = rng.randrange(n - 1)
            w = Fraction(rng.randint(1, 7), 8)
            return ts[i] + (ts[i + 1] - ts[i]) * w
        if r < 0.8:
            return ts[0] - abs(gen_q(rng, dy)) - Fraction(1, 4)
        if r < 0.95:
            return ts[-1] + abs(gen_q(rng, dy)) + Fraction(1, 4)
        return ts[0]

    if kind == "scalar":
        tq = [qpoint()]
    elif kind in ("array_eq", "2d_eq"):
        tq = list(ts)
    elif kind in ("array_near", "2d_near"):
        # as many query points as knots, each a hair (2^-30) away from its knot: still not the knots
        tiny = Fraction(1, 2 ** 30)
        tq = [t + rng.choice([tiny, -tiny, 0]) for t in ts]
        if all(a == b for a, b in zip(tq, ts)):
            tq[-1] = ts[-1] + tiny
        import random
        r2 = random.Random(repr((ts, cols)))        # (own stream: the main one is left as it was)
        if n >= 3 and r2.random() < 0.5:
            # same number of points, same first and last point, other points in between
            tq = [ts[0]] + [ts[i] + (ts[i + 1] - ts[i]) * Fraction(r2.randint(1, 7), 8) for i in range(1, n - 1)] + [ts[-1]]
    else:
        tq = [qpoint() for _ in range(rng.randint(1, 5))]
    return {"k": "interp", "kind": kind, "mode": rng.randint(0, 2), "ts": [fx(x) for x in ts],
            "cols": [[fx(x) for x in c] for c in cols], "tq": [fx(x) for x in tq],
            "fl": gen_fill(rng), "fr": gen_fill(rng)}


def pyfill(f):
    return None if f is None else float(f) if f in ("nan", "inf", "-inf") else float(Fraction(f))


def gfill(f):
    if f is None:
        return "None"
    if f == "nan":
        return "(Some XNaN)"
    if f == "inf":
        return "(Some XPInf)"
    if f == "-inf":
        return "(Some XNInf)"
    return "(Some (XFin %s))" % gq(Fraction(f))


def ser_x(v):
    v = float(v)
    if math.isnan(v):
        return [0]
    if math.isinf(v):
        return [2] if v > 0 else [1]
    f = Fraction(v)
    return [3, f.numerator, f.denominator]


class _P:
    pass


def interp_impl(case):
    from rtctools.optimization.optimization_problem import OptimizationProblem

    ts = np.array([float(F(x)) for x in case["ts"]])
    cols = [np.array([float(F(x)) for x in c]) for c in case["cols"]]
    tq = [float(F(x)) for x in case["tq"]]
    fl, fr = pyfill(case["fl"]), pyfill(case["fr"])
    kind = case["kind"]
    interp = OptimizationProblem.interpolate
    obj = _P()
    obj.INTERPOLATION_LINEAR = 0
    obj.INTERPOLATION_PIECEWISE_CONSTANT_FORWARD = 1
    obj.INTERPOLATION_PIECEWISE_CONSTANT_BACKWARD = 2
    obj.interpolate = lambda *a, **k: interp(obj, *a, **k)
    setattr(obj, "_OptimizationProblem__interpolate",
            lambda *a, **k: OptimizationProblem._OptimizationProblem__interpolate(obj, *a, **k))
    aliased = False
    try:
        if kind == "scalar":
            r = interp(obj, tq[0], ts, cols[0], fl, fr, case["mode"])
            out = [8] + ser_x(r)
            flat = [r]
        elif kind in ("array", "array_eq", "array_near"):
            fs = cols[0]
            r = interp(obj, np.array(tq), ts, fs, fl, fr, case["mode"])
            aliased = np.shares_memory(r, fs)
            out = [8, len(r)]
            for v in r:
                out += ser_x(v)
            flat = list(r)
        else:
            fs = np.stack(cols, axis=1)
            r = interp(obj, np.array(tq), ts, fs, fl, fr, case["mode"])
            aliased = np.shares_memory(r, fs)
            assert r.shape == (len(tq), len(cols))
            out = [8, len(cols)]
            flat = []
            for j in range(len(cols)):
                out += [len(tq)]
                for v in r[:, j]:
                    out += ser_x(v)
                    flat.append(v)
    except AssertionError:
        raise
    except Exception:
        out = [9]
        flat = None
    return out, flat, aliased


def interp_term(case):
    m = "(mode_of %d)" % case["mode"]
    ts = glist(case["ts"], lambda x: gq(F(x)))
    tq = [gq(F(x)) for x in case["tq"]]
    cols = [glist(c, lambda x: gq(F(x))) for c in case["cols"]]
    fl, fr = gfill(case["fl"]), gfill(case["fr"])
    if case["kind"] == "scalar":
        return "ser_res_x (interp_scalar %s %s %s %s %s %s)" % (m, ts, cols[0], fl, fr, tq[0])
    if case["kind"] in ("array", "array_eq", "array_near"):
        return "ser_res_l (interp_array %s %s %s %s %s %s)" % (m, ts, cols[0], fl, fr, glist(tq))
    return "ser_res_ll (interp_2d %s %s %s %s %s %s)" % (m, ts, glist(cols), fl, fr, glist(tq))


def interp_reference(case):
    """the property, written from its text with Fractions (used to classify a disagreement)"""
    ts = [F(x) for x in case["ts"]]
    fl, fr = case["fl"], case["fr"]
    res = []
    for c in case["cols"]:
        fs = [F(x) for x in c]
        col = []
        for t in [F(x) for x in case["tq"]]:
            if t < ts[0]:
                if fl is None:
                    return None
                col.append(pyfill(fl))
            elif t > ts[-1]:
                if fr is None:
                    return None
                col.append(pyfill(fr))
            elif t in ts:
                col.append(fs[ts.index(t)])
            else:
                i = max(j for j in range(len(ts)) if ts[j] < t)
                if case["mode"] == 0:
                    col.append(fs[i] + (fs[i + 1] - fs[i]) * (t - ts[i]) / (ts[i + 1] - ts[i]))
                elif case["mode"] == 1:
                    col.append(fs[i])
                else:
                    col.append(fs[i + 1])
        res.append(col)
    return res


def unser_vals(ser):
    """list of floats from a serialised Val result (ignoring structure)"""
    out = []
    i = 0
    # skip header ints that are counts: parse generically by walking tags is ambiguous; use structure
    return out


def close(a, b):
    a = float(a)
    b = float(b)
    if math.isnan(a) or math.isnan(b):
        return math.isnan(a) and math.isnan(b)
    if math.isinf(a) or math.isinf(b):
        return a == b
    return abs(a - b) <= 1e-9 * (1 + abs(a))


def model_vals(case, ser):
    """decode the model's serialised answer into a flat list of floats in the order of `flat`"""
    if ser == [9]:
        return None
    it = iter(ser[1:])

    def rd():
        tag = next(it)
        if tag == 0:
            return float("nan")
        if tag == 1:
            return float("-inf")
        if tag == 2:
            return float("inf")
        n = next(it)
        d = next(it)
        return Fraction(n, d)

    if case["kind"] == "scalar":
        return [rd()]
    if case["kind"] in ("array", "array_eq", "array_near"):
        n = next(it)
        return [rd() for _ in range(n)]
    nc = next(it)
    out = []
    for _ in range(nc):
        n = next(it)
        out += [rd() for _ in range(n)]
    return out


def span_knot_cases():
    """non-uniform knot vectors whose span equals (number of intervals) x (first step) - they look equidistant
    from the first step and the end points alone; queried at every knot, between knots and outside, all modes"""
    out = []
    for ts in ([0, 1, Fraction(3, 2), 3], [0, 3600, 5400, 7200, 10800, 18000], [2, Fraction(5, 2), 4, Fraction(7, 2) + 1, 5],
               [-1, 0, Fraction(1, 4), 2]):
        ts = [Fraction(t) for t in ts]
        fs = [Fraction((7 * i * i - 11 * i) % 13 - 5, 2) for i in range(len(ts))]
        tq = list(ts) + [a + (b - a) * w for a, b in zip(ts, ts[1:]) for w in (Fraction(1, 4), Fraction(1, 2))]
        for mode in (0, 1, 2):
            out.append({"k": "interp", "kind": "array", "mode": mode, "ts": [fx(x) for x in ts], "cols": [[fx(x) for x in fs]],
                        "tq": [fx(x) for x in tq], "fl": "nan", "fr": "nan"})
    return out


# ---- symbolic -------------------------------------------------------------------------------------
def symbolic_impl(case):
    from rtctools._internal.casadi_helpers import interpolate as sym_interp

    ts = np.array([float(F(x)) for x in case["ts"]])
    fs = [float(F(x)) for x in case["cols"][0]]
    xs = ca.MX.sym("xs", len(ts))
    tq = np.array([float(F(t)) for t in case["tq"]])
    e = sym_interp(ts, xs, tq, False, case["mode"])
    f = ca.Function("f", [xs], [e])
    return [float(x) for x in np.array(f(ca.DM(fs))).ravel()]


def symbolic_term(case):
    m = "(mode_of %d)" % case["mode"]
    ts = glist(case["ts"], lambda x: gq(F(x)))
    fs = glist(case["cols"][0], lambda x: gq(F(x)))
    return "flat_map (fun t => ser_q (interp1d %s %s %s t)) %s" % (m, ts, fs, glist(case["tq"], lambda x: gq(F(x))))


# ---------------------------------------------------------------------------------------------------
# merge_bounds
# ---------------------------------------------------------------------------------------------------
def gen_x(rng):
    r = rng.random()
    if r < 0.12:
        return "inf"
    if r < 0.24:
        return "-inf"
    return str(Fraction(rng.randint(-20, 20), rng.choice([1, 1, 2, 4])))


def gen_bnd(rng, ctxshape):
    """ctxshape: (n_times, times, n_comp) shared so that compatible shapes are frequent"""
    n, times, k = ctxshape
    r = rng.random()
    if r < 0.22:
        x = gen_x(rng)
        if x not in ("inf", "-inf") and Fraction(x).denominator == 1 and rng.random() < 0.5:
            return ["int", x]
        return ["num", x]
    if r < 0.30:
        return ["vec", [gen_x(rng)]]
    if r < 0.50:
        kk = k if rng.random() < 0.8 else k + 1
        return ["vec", [gen_x(rng) for _ in range(kk)]]
    if r < 0.75:
        tt = list(times)
        if rng.random() < 0.12:
            tt = tt[:-1] if len(tt) > 1 else tt
        elif rng.random() < 0.12:
            tt = [str(F(x) + 1) for x in tt]
        elif rng.random() < 0.15 and len(tt) > 1:
            # same length, same first stamp, one other stamp moved: still incompatible time stamps
            j = rng.randrange(1, len(tt))
            tt[j] = str(F(tt[j]) + Fraction(1, 4))
        return ["ts", tt, [gen_x(rng) for _ in tt]]
    tt = list(times)
    if rng.random() < 0.1:
        tt = [str(F(x) + 1) for x in tt]
    elif rng.random() < 0.12 and len(tt) > 1:
        j = rng.randrange(1, len(tt))
        tt[j] = str(F(tt[j]) + Fraction(1, 4))
    kk = k if rng.random() < 0.85 else k + 1
    return ["ts2", tt, [[gen_x(rng) for _ in range(kk)] for _ in tt]]


def gen_merge(rng):
    n = rng.randint(2, 4)
    times = [str(Fraction(i * rng.choice([1, 2]), 1)) for i in range(n)]
    k = rng.randint(2, 3)
    sh = (n, times, k)
    return {"k": "merge", "a": gen_bnd(rng, sh), "A": gen_bnd(rng, sh), "b": gen_bnd(rng, sh), "B": gen_bnd(rng, sh)}


def pyx(x):
    return float(x) if x in ("inf", "-inf", "nan") else float(Fraction(x))


def py_bnd(b):
    from rtctools.optimization.timeseries import Timeseries

    if b[0] == "int":
        return int(Fraction(b[1]))
    if b[0] == "num":
        return pyx(b[1])
    if b[0] == "vec":
        return np.array([pyx(x) for x in b[1]])
    if b[0] == "ts":
        return Timeseries(np.array([float(F(x)) for x in b[1]]), np.array([pyx(x) for x in b[2]]))
    return Timeseries(np.array([float(F(x)) for x in b[1]]), np.array([[pyx(x) for x in r] for r in b[2]]))


def gx(x):
    if x == "inf":
        return "XPInf"
    if x == "-inf":
        return "XNInf"
    if x == "nan":
        return "XNaN"
    return "(XFin %s)" % gq(Fraction(x))


def g_bnd(b):
    if b[0] in ("int", "num"):
        return "(BNum %s)" % gx(b[1])
    if b[0] == "vec":
        return "(BVec %s)" % glist(b[1], gx)
    if b[0] == "ts":
        # Timeseries constructor: a 1-element value list is broadcast over the time stamps
        vals = b[2] if len(b[2]) != 1 else [b[2][0]] * len(b[1])
        return "(BTs %s %s)" % (glist(b[1], lambda x: gq(F(x))), glist(vals, gx))
    return "(BTs2 %s %s)" % (glist(b[1], lambda x: gq(F(x))), glist(b[2], lambda r: glist(r, gx)))


def ser_pybnd(v):
    from rtctools.optimization.timeseries import Timeseries

    if isinstance(v, Timeseries):
        t = [Fraction(float(x)) for x in v.times]
        tt = []
        for x in t:
            tt += [x.numerator, x.denominator]
        if v.values.ndim == 1:
            out = [22, len(t)] + tt + [len(v.values)]
            for x in v.values:
                out += ser_x(x)
            return out
        out = [23, len(t)] + tt + [v.values.shape[0]]
        for r in v.values:
            out += [len(r)]
            for x in r:
                out += ser_x(x)
        return out
    if isinstance(v, np.ndarray):
        out = [21, len(v)]
        for x in v:
            out += ser_x(x)
        return out
    return [20] + ser_x(v)


def merge_impl(case):
    from rtctools.optimization.optimization_problem import OptimizationProblem

    a, A, b, B = (py_bnd(case[k]) for k in ("a", "A", "b", "B"))
    try:
        m, M = OptimizationProblem.merge_bounds((a, A), (b, B))
    except Exception:
        return [9]
    return [8] + ser_pybnd(m) + ser_pybnd(M)


def merge_term(case, swap=False):
    ks = ("b", "B", "a", "A") if swap else ("a", "A", "b", "B")
    return "ser_mres (merge_bounds %s)" % " ".join(g_bnd(case[k]) for k in ks)


def merge_reference(case):
    """pointwise max/min after broadcasting; None = must be rejected"""
    def shape(b):
        if b[0] in ("int", "num"):
            return ("s",)
        if b[0] == "vec":
            return ("s",) if len(b[1]) == 1 else ("v", len(b[1]))
        if b[0] == "ts":
            return ("t", tuple(F(x) for x in b[1]))
        return ("t2", tuple(F(x) for x in b[1]), len(b[2][0]))

    def get(b, i, j):
        if b[0] in ("int", "num"):
            return pyx(b[1])
        if b[0] == "vec":
            return pyx(b[1][0]) if len(b[1]) == 1 else pyx(b[1][j])
        if b[0] == "ts":
            return pyx(b[2][i] if len(b[2]) > 1 else b[2][0])
        return pyx(b[2][i][j])

    out = []
    for (p, q, f) in ((case["a"], case["b"], max), (case["A"], case["B"], min)):
        sp, sq = shape(p), shape(q)
        rank = {"s": 0, "v": 1, "t": 2, "t2": 3}
        big = sp if rank[sp[0]] >= rank[sq[0]] else sq
        small = sq if big is sp else sp
        if big[0] == small[0] and big != small:
            return None
        if big[0] == "t" and small[0] == "v":
            return None
        if big[0] == "t2" and small[0] == "t":
            return None
        if big[0] == "t2" and small[0] == "v" and small[1] != big[2]:
            return None
        if big[0] == "s":
            out.append(("s", [[f(get(p, 0, 0), get(q, 0, 0))]]))
        elif big[0] == "v":
            out.append(("v", [[f(get(p, 0, j), get(q, 0, j)) for j in range(big[1])]]))
        elif big[0] == "t":
            out.append(("t", [[f(get(p, i, 0), get(q, i, 0))] for i in range(len(big[1]))]))
        else:
            out.append(("t2", [[f(get(p, i, j), get(q, i, j)) for j in range(big[2])] for i in range(len(big[1]))]))
    return out


def merge_impl_matches_reference(case, impl):
    ref = merge_reference(case)
    if ref is None:
        return impl == [9]
    if impl == [9]:
        return False
    # decode impl
    it = iter(impl[1:])

    def rdx():
        tag = next(it)
        if tag == 0:
            return float("nan")
        if tag == 1:
            return float("-inf")
        if tag == 2:
            return float("inf")
        n = next(it)
        d = next(it)
        return float(Fraction(n, d))

    got = []
    for _ in range(2):
        tag = next(it)
        if tag == 20:
            got.append(("s", [[rdx()]]))
        elif tag == 21:
            n = next(it)
            got.append(("v", [[rdx() for _ in range(n)]]))
        elif tag == 22:
            n = next(it)
            for _ in range(2 * n):
                next(it)
            m = next(it)
            got.append(("t", [[rdx()] for _ in range(m)]))
        else:
            n = next(it)
            for _ in range(2 * n):
                next(it)
            m = next(it)
            rows = []
            for _ in range(m):
                k = next(it)
                rows.append([rdx() for _ in range(k)])
            got.append(("t2", rows))
    return got == ref


# ---------------------------------------------------------------------------------------------------
def run(ctx):
    replay = os.environ.get("VERIF_REPLAY")
    cases = []
    if replay:
        cases = [json.load(open(replay))["replay"]["case"]]
    else:
        cases += core.corpus_cases(ID)
        for _ in range(ctx.n(900, 30000)):
            cases.append(gen_interp(ctx.rng))
        for _ in range(ctx.n(700, 30000)):
            cases.append(gen_merge(ctx.rng))
        cases += span_knot_cases()
    icases = [c for c in cases if c["k"] == "interp"]
    mcases = [c for c in cases if c["k"] == "merge"]

    # ---- interpolate ----
    impls = [interp_impl(c) for c in icases]
    models = core.eval_terms(ID + "i", ["Xq", "Interp"], [interp_term(c) for c in icases]) if icases else []
    scases = [c for c in icases if c["kind"] in ("scalar", "array") and len(c["ts"]) >= 2]
    smodels = core.eval_terms(ID + "s", ["Xq", "Interp"], [symbolic_term(c) for c in scases], typ="list Z") if scases else []
    for c, (impl, flat, aliased), mser in zip(icases, impls, models):
        ts = [F(x) for x in c["ts"]]
        off = any(F(t) not in ts for t in c["tq"])
        ctx.case_done(core.fingerprint([c["kind"], c["mode"], len(ts), c["fl"], c["fr"],
                                        [("L" if F(t) < ts[0] else "R" if F(t) > ts[-1] else "K" if F(t) in ts else "B") for t in c["tq"]]]),
                      off)
        ctx.count("interp_" + c["kind"])
        ctx.count("interp_mode_%d" % c["mode"])
        if off:
            ctx.sample({"case": c, "impl": impl, "model": mser})
        mv = model_vals(c, mser)
        agree = (flat is None and mv is None) or (flat is not None and mv is not None and len(flat) == len(mv)
                                                  and all(close(a, b) for a, b in zip(flat, mv)))
        exact_needed = c["mode"] != 0
        if agree and exact_needed and impl != mser:
            agree = False
        if aliased or not agree:
            ref = interp_reference(c)
            rflat = None if ref is None else [x for col in ref for x in col]
            ok_ref = (flat is None and rflat is None) or (flat is not None and rflat is not None and len(flat) == len(rflat)
                                                          and all(close(a, b) for a, b in zip(flat, rflat)))
            rep = {"case": c, "impl": impl, "model": mser, "reference": None if ref is None else [[str(x) for x in col] for col in ref],
                   "result_aliases_input": bool(aliased)}
            if aliased or not ok_ref:
                ctx.violation("interpolate/spec-mismatch", rep,
                              what="interpolate() differs from the documented interpolation (kind=%s mode=%d)" % (c["kind"], c["mode"]))
            else:
                rep["broken_correspondence"] = "Interp.v interp_* vs OptimizationProblem.interpolate; C19 interpolation theorems no longer apply"
                ctx.violation("interpolate/model-mismatch", rep, no_input=True, what="interpolate() differs from the Gallina model")
    for c, ms in zip(scases, smodels):
        sv = symbolic_impl(c)
        mvals = [Fraction(ms[2 * i], ms[2 * i + 1]) for i in range(len(sv))]
        ctx.count("symbolic")
        if not all(close(a, b) for a, b in zip(sv, mvals)):
            # inside the range numeric and symbolic must agree (property); outside the model clamps
            ts = [F(x) for x in c["ts"]]
            ref = interp_reference(dict(c, fl=c["cols"][0][0], fr=c["cols"][0][-1]))
            rflat = [x for col in ref for x in col]
            rep = {"case": c, "symbolic": sv, "model_interp1d": [str(x) for x in mvals], "numeric_reference": [str(x) for x in rflat]}
            if not all(close(a, b) for a, b in zip(sv, rflat)):
                ctx.violation("interpolate/symbolic-vs-numeric", rep,
                              what="symbolic interpolator disagrees with the numeric one (mode %d)" % c["mode"])
            else:
                ctx.violation("interpolate/symbolic-model-mismatch", rep, no_input=True,
                              what="casadi_helpers.interpolate differs from the interp1d model")

    # ---- merge_bounds ----
    mimpl = [merge_impl(c) for c in mcases]
    mmod = core.eval_terms(ID + "m", ["Xq", "Interp", "MergeBounds"], [merge_term(c) for c in mcases]) if mcases else []
    for c, impl, mser in zip(mcases, mimpl, mmod):
        kinds = [c[k][0] for k in ("a", "A", "b", "B")]
        mixing = kinds[0] != kinds[2] or kinds[1] != kinds[3]
        ctx.case_done(core.fingerprint(["merge", kinds, impl == [9], [len(c[k][1]) if c[k][0] != "num" and c[k][0] != "int" else 0 for k in ("a", "A", "b", "B")]]), mixing)
        ctx.count("merge_" + ("reject" if impl == [9] else "ok"))
        for k in set(kinds):
            ctx.count("merge_kind_" + k)
        if mixing and impl != [9]:
            ctx.sample({"case": c, "impl": impl, "model": mser})
        # commutativity on the implementation itself (the property states it)
        swapped = merge_impl({"a": c["b"], "A": c["B"], "b": c["a"], "B": c["A"]})
        if impl != mser or swapped != impl:
            rep = {"case": c, "impl": impl, "model": mser, "impl_swapped_arguments": swapped}
            if not merge_impl_matches_reference(c, impl) or swapped != impl:
                ctx.violation("merge_bounds/spec-mismatch", rep,
                              what="merge_bounds differs from element-wise max/min after broadcasting, or depends on argument order (kinds %s)" % kinds)
            else:
                rep["broken_correspondence"] = "MergeBounds.v merge_bounds vs OptimizationProblem.merge_bounds; C19_merge_* no longer apply"
                ctx.violation("merge_bounds/model-mismatch", rep, no_input=True, what="merge_bounds differs from the Gallina model")
