"""C09 — simulation steps satisfy the backward-Euler model equations (and C16's simulator part, C08's
physical-unit accessors of the simulator)."""
import datetime
import json
import math
import os
import shutil
import tempfile
from concurrent.futures import ProcessPoolExecutor
from fractions import Fraction

import numpy as np

from .. import core, mo, tr
from ..core import gq, glist
from ..problems import ast_gallina

ID = "C09"
PROPS_FILE = "props/C09.v"
MODEL_FILES = ["Xq", "Interp", "Expr", "Transcribe", "Sim"]
RULE = ("generated Modelica models (1-2 states, 0-2 algebraics, negated aliases, nominals, parameters, inputs, "
        "occasional bilinear terms, delays of integer and non-integer multiples of the step) compiled by pymoca "
        "and run through the real SimulationProblem + CSVMixin: after initialize() and after every update() all "
        "variables are read with get_var; the model equations with der = (x(t+dt)-x(t))/dt and inputs at t+dt are "
        "evaluated in Coq (Sim.step_residual) on the rational images of those values (<= 1e-7), the same "
        "trajectory is substituted into the theta = 1 collocation rows of the optimisation transcription model, "
        "delayed variables are compared with the linearly interpolated delayed expression, outputs are read "
        "back from the exported CSV, set_var/get_var round-trip through nominals and negated aliases, and an "
        "unsolvable step must raise. non-trivial = >= 3 steps with an input change; distinct = model shapes"
        ' Also: outputs that are (negated) aliases or share an alias class, update(dt) spanning several import intervals, initial equations on scaled states, user extra variables with nominals, the unsolvable step with the nlpsol / fast_newton / newton rootfinders.')
MODELLED = "simulation_problem.py residual assembly of initialize()/update(), delay buffer weights; simulation/io_mixin.py output recording"
NOT_MODELLED = ("the rootfinder / IPOPT initialisation (their results are inputs to the residual check); pymoca (compiles the "
                "generated model text); initial-state precedence rules (C14)")
ASSUMPTIONS = ["rootfinder contract: success => residual ~ 0 (that is what is checked)"]

T0 = datetime.datetime(2020, 1, 1, 0, 0, 0)


def gen_model(rng, idx):
    ns = rng.choice([1, 1, 2])
    na = rng.choice([0, 1, 2])
    ni = rng.choice([1, 1, 2])
    npar = rng.choice([0, 1, 2])
    states = ["x%d" % i for i in range(ns)]
    algs = ["y%d" % i for i in range(na)]
    inputs = ["u%d" % i for i in range(ni)]
    pars = ["k%d" % i for i in range(npar)]
    dt = rng.choice([3600, 3600, 900, 7200])
    nsteps = rng.choice([3, 4, 5])

    def dyc(lo=-2, hi=2):
        return Fraction(rng.randint(lo * 4, hi * 4), 4)
    spec = {"name": "M%d" % idx, "dt": dt, "nsteps": nsteps,
            "states": [], "algebraics": [], "inputs": [{"name": u} for u in inputs], "outputs": [],
            "parameters": [{"name": k, "value": str(dyc(0, 2))} for k in pars], "equations": [], "delays": [], "aliases": []}
    scale = Fraction(1, dt)        # keep dynamics slow relative to the step
    for s in states:
        d = {"name": s, "start": str(dyc(-4, 4)), "fixed": True}
        if rng.random() < 0.5:
            d["nominal"] = str(rng.choice([2, 10, Fraction(1, 4), 100]))
        spec["states"].append(d)
        rhs = ["*", ["c", str(-abs(dyc(0, 2)) * scale)], ["v", s]]
        rhs = ["+", rhs, ["*", ["c", str(dyc() * scale)], ["v", rng.choice(inputs)]]]
        if pars and rng.random() < 0.6:
            # damping only (negative feedback), so that 1 - a*dt never vanishes in the implicit step
            rhs = ["-", rhs, ["*", ["*", ["c", str(scale * Fraction(1, 4))], ["v", rng.choice(pars)]], ["v", s]]]
        if algs and rng.random() < 0.5:
            rhs = ["+", rhs, ["*", ["c", str(dyc() * scale)], ["v", rng.choice(algs)]]]
        if rng.random() < 0.2:
            # bilinear in state and input: nonlinear model, but every implicit step stays solvable
            rhs = ["-", rhs, ["*", ["*", ["c", str(Fraction(1, 32) * scale)], ["v", s]], ["v", rng.choice(inputs)]]]
        spec["equations"].append([["v", "der(%s)" % s], rhs])
    if rng.random() < 0.35:
        # an initial equation instead of a fixed start value (the state keeps its nominal)
        st = rng.choice(spec["states"])
        st.pop("start", None)
        st.pop("fixed", None)
        rhs0 = ["c", str(dyc(-4, 4))] if not pars or rng.random() < 0.5 else ["*", ["c", str(dyc(1, 3))], ["v", rng.choice(pars)]]
        spec["initial_equations"] = [[["v", st["name"]], rhs0]]
    for a in algs:
        d = {"name": a}
        if rng.random() < 0.4:
            d["nominal"] = str(rng.choice([2, 5, Fraction(1, 2)]))
        spec["algebraics"].append(d)
        def nz():
            v = dyc()
            return v if v != 0 else Fraction(3, 4)      # a vanishing coefficient lets pymoca fold the variable away
        rhs = ["+", ["*", ["c", str(nz())], ["v", rng.choice(states)]], ["*", ["c", str(nz())], ["v", rng.choice(inputs)]]]
        if rng.random() < 0.3:
            rhs = ["+", rhs, ["c", str(dyc())]]
        spec["equations"].append([["v", a], rhs])
    if rng.random() < 0.3:
        # a negated alias of an input
        tgt = rng.choice(inputs)
        spec["algebraics"].append({"name": "neg_" + tgt})
        spec["equations"].append([["v", "neg_" + tgt], ["neg", ["v", tgt]]])
        spec["aliases"].append(["neg_" + tgt, tgt, -1])
    elif rng.random() < 0.6:
        tgt = rng.choice(states + algs)
        spec["algebraics"].append({"name": "neg_" + tgt})
        spec["equations"].append([["v", "neg_" + tgt], ["neg", ["v", tgt]]])
        spec["aliases"].append(["neg_" + tgt, tgt, -1])
    if rng.random() < 0.4:
        src = rng.choice(states + algs)
        mult = rng.choice([0, 1, 2, Fraction(1, 2), Fraction(3, 2), Fraction(5, 4)])
        spec["algebraics"].append({"name": "dly0"})
        spec["delays"].append(["dly0", ["v", src] if rng.random() < 0.6 else ["*", ["c", "2"], ["v", src]], str(mult * dt)])
        spec["algebraics"].append({"name": "ydly"})
        spec["equations"].append([["v", "ydly"], ["+", ["v", "dly0"], ["c", "1"]]])
    spec["outputs"] = [v["name"] for v in spec["states"]] + [v["name"] for v in spec["algebraics"][:2]]
    if spec["aliases"] and rng.random() < 0.7:
        # an output that is a negated alias of another variable
        a = spec["aliases"][0][0]
        if a not in spec["outputs"]:
            spec["outputs"].append(a)
    if rng.random() < 0.3:
        # two outputs of one alias class
        tgt = rng.choice(spec["states"])["name"]
        spec["algebraics"].append({"name": "same_" + tgt})
        spec["equations"].append([["v", "same_" + tgt], ["v", tgt]])
        spec["aliases"].append(["same_" + tgt, tgt, 1])
        spec["outputs"].append("same_" + tgt)
    # (other rootfinder plugins are only used in the unsolvable-step probe: their convergence on badly
    #  scaled but solvable steps is CasADi's business, not this property's)
    if rng.random() < 0.4:
        spec["extra_nominal"] = str(rng.choice([50, 10, Fraction(1, 4)]))
    if not spec["delays"] and rng.random() < 0.35:
        # explicit step sizes that span several import intervals (update(dt) with dt = m * spacing)
        spec["multiples"] = [rng.choice([1, 2, 1, 3]) for _ in range(nsteps)]
    series = {}
    for u in inputs:
        series[u] = [str(dyc(-4, 4)) for _ in range(sum(spec.get("multiples", [1] * nsteps)) + 1)]
    spec["series"] = series
    if idx in (2, 3) and not spec["delays"] and not spec.get("multiples"):
        # (own random stream) steps of one and two import intervals in turn: the step size changes between calls
        import random
        r3 = random.Random(900 + idx)
        spec["multiples"] = [2 if k % 2 else 1 for k in range(nsteps)]
        need = sum(spec["multiples"]) + 1
        for u in inputs:
            series[u] = series[u] + [str(Fraction(r3.randint(-16, 16), 4)) for _ in range(need - len(series[u]))]
    initial_state_features(spec, force=idx < 2)
    return spec


def initial_state_features(spec, force=False):
    """initial_state.csv next to the model (own random stream, derived from the model): a value for a state
    whose start is fixed (possibly at 0) must not replace the fixed start; a state whose start is left at its
    default takes the value from the file (given under its own name or under a negated alias)"""
    import random
    r2 = random.Random(json.dumps(spec, sort_keys=True, default=str))
    fixed_states = [v for v in spec["states"] if v.get("fixed")]
    if not fixed_states or (r2.random() < 0.5 and not force):
        return
    ini = {}
    st = r2.choice(fixed_states)
    if r2.random() < 0.6 or force:
        st["start"] = "0"
    ini[st["name"]] = str(Fraction(r2.randint(1, 16), 4))
    others = [v for v in fixed_states if v is not st]
    if others and r2.random() < 0.7:
        fr = others[0]
        val = Fraction(r2.randint(-16, 16), 4) or Fraction(5, 4)
        fr.pop("start")
        fr.pop("fixed")
        al = [(a, sign) for a, tgt, sign in spec["aliases"] if tgt == fr["name"]]
        if al and r2.random() < 0.7:
            ini[al[0][0]] = str(al[0][1] * val)
        else:
            ini[fr["name"]] = str(val)
        spec["free_start"] = {fr["name"]: str(val)}
    spec["initial_state_csv"] = ini


def alias_initial_state_specs():
    """models whose initial_state.csv names a negated / a plain alias of a state with default start"""
    specs = []
    sc = str(Fraction(-1, 4 * 3600))
    for nm, sign, val in (("neg_x1", -1, "5/2"), ("same_x1", 1, "-7/4")):
        specs.append({"name": "MAlias" + nm.split("_")[0], "dt": 3600, "nsteps": 2,
                      "states": [{"name": "x0", "start": "1", "fixed": True, "nominal": "10"}, {"name": "x1"}],
                      "algebraics": [{"name": nm}], "inputs": [{"name": "u0"}], "outputs": ["x0", "x1", nm], "parameters": [],
                      "equations": [[["v", "der(x0)"], ["+", ["*", ["c", sc], ["v", "x0"]], ["*", ["c", sc], ["v", "u0"]]]],
                                    [["v", "der(x1)"], ["*", ["c", sc], ["v", "x1"]]],
                                    [["v", nm], ["neg", ["v", "x1"]] if sign < 0 else ["v", "x1"]]],
                      "delays": [], "aliases": [[nm, "x1", sign]], "series": {"u0": ["1", "2", "0"]},
                      "initial_state_csv": {nm: val}, "free_start": {"x1": str(sign * Fraction(val))}})
    return specs


def run_model(spec):
    """executed in a worker process: compile, simulate step by step, return observations"""
    import logging
    import warnings
    warnings.filterwarnings("ignore")
    logging.disable(logging.CRITICAL)
    from rtctools.simulation.csv_mixin import CSVMixin
    from rtctools.simulation.simulation_problem import SimulationProblem
    import rtctools.data.csv as rcsv

    base = tempfile.mkdtemp(prefix="verif_c09_")
    try:
        mdl, inp, outp = (os.path.join(base, d) for d in ("model", "input", "output"))
        for d in (mdl, inp, outp):
            os.makedirs(d)
        mo.write_model(mdl, spec)
        mo.write_timeseries_csv(os.path.join(inp, "timeseries_import.csv"), T0, spec["dt"], spec["series"])
        if spec.get("initial_state_csv"):
            mo.write_row_csv(os.path.join(inp, "initial_state.csv"), spec["initial_state_csv"])
        kwargs = dict(model_folder=mdl, model_name=spec["name"], input_folder=inp, output_folder=outp)
        if spec["delays"]:
            kwargs["fixed_dt"] = float(spec["dt"])

        class S(CSVMixin, SimulationProblem):
            def compiler_options(self):
                o = super().compiler_options()
                o["cache"] = False
                return o

            def extra_variables(self):
                # a user-defined variable z = 2 * (first state) + 1 with its own nominal
                if spec.get("extra_nominal"):
                    from rtctools.simulation.simulation_problem import Variable
                    return [Variable("zextra", nominal=float(Fraction(spec["extra_nominal"])))]
                return []

            def extra_equations(self):
                if spec.get("extra_nominal"):
                    v = self.get_variables()
                    return [v["zextra"] - (2.0 * v[spec["states"][0]["name"]] + 1.0)]
                return []

            def rootfinder_options(self):
                if spec.get("rootfinder"):
                    return {"solver": spec["rootfinder"], "solver_options": {"error_on_fail": False}}
                return super().rootfinder_options()

        p = S(**kwargs)
        names = (["zextra"] if spec.get("extra_nominal") else []) + [v["name"] for v in spec["states"] + spec["algebraics"] + spec["inputs"]] + \
                ["der(%s)" % v["name"] for v in spec["states"]] + [k["name"] for k in spec["parameters"]] + ["time"]
        obs = []
        p.pre()
        p.initialize()
        obs.append({n: float(p.get_var(n)) for n in names})
        raised = None
        for k in range(spec["nsteps"]):
            try:
                mlt = spec.get("multiples", [1] * spec["nsteps"])[k]
                if mlt == 1:
                    p.update(-1)
                else:
                    p.update(float(mlt * spec["dt"]))
            except Exception as e:  # noqa: BLE001
                raised = {"step": k, "error": "%s: %s" % (type(e).__name__, str(e)[:120])}
                break
            obs.append({n: float(p.get_var(n)) for n in names})
        exported = None
        setget = []
        if raised is None:
            p.post()
            data = rcsv.load(os.path.join(outp, "timeseries_export.csv"), delimiter=",", with_time=True)
            exported = {nm: [float(x) for x in data[nm]] for nm in data.dtype.names[1:]}
            exported["__times__"] = [(t - T0).total_seconds() for t in data[data.dtype.names[0]]]
            # physical-unit accessors: set_var then get_var through nominals and negated aliases
            for v in spec["states"] + spec["algebraics"]:
                nm = v["name"]
                p.set_var(nm, 3.25)
                setget.append([nm, 3.25, float(p.get_var(nm))])
            for a, tgt, sign in spec["aliases"]:
                p.set_var(tgt, 1.5)
                setget.append([a, sign * 1.5, float(p.get_var(a))])
                # ... and written through the alias, read through the variable
                p.set_var(a, 2.5)
                setget.append([tgt + " after set_var(%s)" % a, sign * 2.5, float(p.get_var(tgt))])
                setget.append([a + " after set_var(%s)" % a, 2.5, float(p.get_var(a))])
        return {"obs": obs, "raised": raised, "exported": exported, "setget": setget}
    finally:
        shutil.rmtree(base, ignore_errors=True)


def run_unsolvable(rootfinder=None):
    """y*y + 1 + u = 0 has no real root once u >= 0: update() must raise, not return"""
    spec = {"name": "Unsolvable", "rootfinder": rootfinder, "dt": 3600, "nsteps": 3, "states": [{"name": "x0", "start": "1", "fixed": True}],
            "algebraics": [{"name": "y0", "start": "1"}], "inputs": [{"name": "u0"}], "outputs": ["x0"], "parameters": [],
            "equations": [[["v", "der(x0)"], ["c", "0"]],
                          [["c", "0"], ["+", ["+", ["*", ["v", "y0"], ["v", "y0"]], ["c", "1"]], ["v", "u0"]]]],
            "delays": [], "aliases": [], "series": {"u0": ["-5", "-5", "3", "3"]}}
    return spec, run_model(spec)


def step_is_singular(spec, res):
    """the implicit step that raised: is its (linearised) system singular?  Jacobian of the residuals with respect
    to the new states / algebraic variables, by exact differences on the rational AST evaluator, at the last
    observed state and the inputs of the failing step"""
    from ..problems import ast_eval
    if spec.get("delays"):
        return False
    states = [v["name"] for v in spec["states"]]
    algs = [v["name"] for v in spec["algebraics"]]
    unknowns = states + algs
    obs = res["obs"]
    last = obs[-1]
    k = res["raised"]["step"]
    mults = spec.get("multiples", [1] * spec["nsteps"])
    at = sum(mults[:k + 1])
    dt = Fraction(spec["dt"]) * mults[k]
    base = {n: Fraction(v) for n, v in last.items() if n != "time"}
    for u, ser in spec["series"].items():
        base[u] = Fraction(ser[min(at, len(ser) - 1)])
    prev = {n: Fraction(last[n]) for n in states}

    def resid(z):
        env = dict(base)
        env.update(z)
        env["time"] = Fraction(last["time"]) + dt
        for n in states:
            env["der(%s)" % n] = (env[n] - prev[n]) / dt
        return [ast_eval(lhs, env) - ast_eval(rhs, env) for lhs, rhs in spec["equations"]]
    z0 = {n: base[n] for n in unknowns}
    r0 = resid(z0)
    if len(r0) != len(unknowns):
        return False
    J = []
    for n in unknowns:
        z1 = dict(z0)
        z1[n] = z0[n] + 1
        J.append([a - b for a, b in zip(resid(z1), r0)])
    # determinant by fraction-exact elimination (columns = unknowns)
    M = [list(col) for col in zip(*J)]
    n_ = len(M)
    for i in range(n_):
        piv = next((r for r in range(i, n_) if M[r][i] != 0), None)
        if piv is None:
            return True
        M[i], M[piv] = M[piv], M[i]
        for r in range(i + 1, n_):
            f = M[r][i] / M[i][i]
            M[r] = [a - f * b for a, b in zip(M[r], M[i])]
    scale = max(abs(x) for row in J for x in row) or 1
    return any(abs(M[i][i]) < Fraction(1, 10 ** 9) * scale for i in range(n_))


def residual_term(spec, obs_prev, obs_new):
    states = [v["name"] for v in spec["states"]]
    algs = [v["name"] for v in spec["algebraics"]]
    inputs = [v["name"] for v in spec["inputs"]]
    pars = [k["name"] for k in spec["parameters"]]
    idx = {}
    k = 0
    for nm in states:
        idx[nm] = k
        k += 1
    for nm in states:
        idx["der(%s)" % nm] = k
        k += 1
    for nm in algs + inputs + pars:
        idx[nm] = k
        k += 1
    idx["time"] = k
    eqs = [["-", lhs, rhs] for lhs, rhs in spec["equations"]]
    q = lambda v: gq(Fraction(float(v)))  # noqa: E731
    dt = obs_new["time"] - obs_prev["time"]
    return "ser_q (max_abs (step_residual %s %s %s %s %s %s %s %s %s))" % (
        glist(eqs, lambda e: ast_gallina(e, idx)),
        glist([obs_new[n] for n in states], q), glist([obs_prev[n] for n in states], q),
        glist([obs_new["der(%s)" % n] for n in states], q), glist([obs_new[n] for n in algs], q),
        glist([obs_new[n] for n in inputs], q), glist([obs_new[n] for n in pars], q), q(obs_new["time"]), q(dt))


def initial_term(spec, obs0):
    """at t0 the model equations hold (derivatives free)"""
    states = [v["name"] for v in spec["states"]]
    algs = [v["name"] for v in spec["algebraics"]]
    inputs = [v["name"] for v in spec["inputs"]]
    pars = [k["name"] for k in spec["parameters"]]
    idx = {}
    k = 0
    for nm in states + ["der(%s)" % n for n in states] + algs + inputs + pars + ["time"]:
        idx[nm] = k
        k += 1
    eqs = [["-", lhs, rhs] for lhs, rhs in spec["equations"]]
    q = lambda v: gq(Fraction(float(v)))  # noqa: E731
    env = [obs0[n] for n in states] + [obs0["der(%s)" % n] for n in states] + [obs0[n] for n in algs + inputs + pars] + [obs0["time"]]
    return "ser_q (max_abs (evals %s %s))" % (glist(env, q), glist(eqs, lambda e: ast_gallina(e, idx)))


def collocation_term(spec, obs):
    """the simulated trajectory substituted into the theta = 1 rows of the optimisation transcription"""
    states = [v["name"] for v in spec["states"]]
    algs = [v["name"] for v in spec["algebraics"]]
    inputs = [v["name"] for v in spec["inputs"]]
    pars = [k["name"] for k in spec["parameters"]]
    n = len(obs)
    tspec = {"times": [str(Fraction(o["time"])) for o in obs], "states": states, "algebraics": algs, "controls": inputs,
             "constant_inputs": [], "parameters": pars, "ensemble_size": 1, "theta": "1",
             "param_values": [{k: str(Fraction(obs[0][k])) for k in pars}], "constant_input_values": [{}]}
    ei = tr.env_index(tspec)
    eqs = [["-", lhs, rhs] for lhs, rhs in spec["equations"]]
    X = []
    for u in inputs:
        X += [obs[i][u] for i in range(n)]
    for v in states + algs:
        X += [obs[i][v] for i in range(n)]
    X += [0.0] * len(states)
    q = lambda v: gq(Fraction(float(v)))  # noqa: E731
    return "let P := %s in ser_q (max_abs (collocation_rows (F_of %s) P %s 0))" % (
        tr.problem_term(tspec), glist(eqs, lambda e: ast_gallina(e, ei)), glist(X, q))


def delayed_reference(spec, obs, name, expr, tau):
    """the delayed expression, linearly interpolated over the recorded trajectory, the t0 value held
    before t0"""
    from ..problems import ast_eval
    tau = float(Fraction(tau))
    ts = [o["time"] for o in obs]
    ev = [float(ast_eval(expr, {k: Fraction(v) for k, v in o.items()})) for o in obs]
    out = []
    for t in ts:
        s = t - tau
        if s <= ts[0]:
            out.append(ev[0])
        else:
            out.append(float(np.interp(s, ts, ev)))
    return out


def run(ctx):
    replay = os.environ.get("VERIF_REPLAY")
    if replay:
        specs = [json.load(open(replay))["replay"]["spec"]]
    else:
        specs = [c["spec"] for c in core.corpus_cases(ID)] + alias_initial_state_specs() + [gen_model(ctx.rng, i) for i in range(ctx.n(16, 400))]
    with ProcessPoolExecutor(max_workers=8) as ex:
        results = list(ex.map(safe_run, specs))
        unsolv = [ex.submit(run_unsolvable, rf).result() for rf in (None, "fast_newton", "newton")] if not replay else []
    terms, meta = [], []
    for spec, res in zip(specs, results):
        if "error" in res:
            ctx.count("model_exception")
            ctx.violation("sim/exception", {"spec": spec, "error": res["error"]}, no_input="rtctools" not in res["error"],
                          what="simulation of a generated model failed: %s" % res["error"][:200])
            continue
        obs = res["obs"]
        changes = len({tuple(o[u["name"]] for u in spec["inputs"] if u["name"] in spec["series"]) for o in obs}) > 1
        ctx.case_done(core.fingerprint([len(spec["states"]), len(spec["algebraics"]), len(spec["inputs"]), len(spec["parameters"]),
                                        spec["dt"], spec["nsteps"], [d[2] for d in spec["delays"]], spec["aliases"],
                                        [v.get("nominal") for v in spec["states"] + spec["algebraics"]]]),
                      len(obs) >= 4 and changes)
        ctx.count("models")
        ctx.count("steps", len(obs) - 1)
        if spec["delays"]:
            ctx.count("with_delay")
        if res["raised"] and step_is_singular(spec, res):
            # a step without a (unique) solution: raising is what the property asks for
            ctx.count("raised_on_singular_step")
            continue
        if res["raised"]:
            ctx.violation("sim/step-raised", {"spec": spec, "raised": res["raised"]}, no_input=True,
                          what="a solvable generated model raised in update(): %s" % res["raised"]["error"])
            continue
        terms.append(initial_term(spec, obs[0]))
        meta.append((spec, res, "initial", 0))
        for k in range(1, len(obs)):
            terms.append(residual_term(spec, obs[k - 1], obs[k]))
            meta.append((spec, res, "step", k))
        terms.append(collocation_term(spec, obs))
        meta.append((spec, res, "collocation", 0))
    vals = core.eval_terms(ID, ["Xq", "Interp", "Expr", "Transcribe", "Sim"], terms, shard=40) if terms else []
    for (spec, res, kind, k), v in zip(meta, vals):
        r = float(Fraction(v[0], v[1]))
        obs = res["obs"]
        scale = 1 + max(abs(x) for o in obs for x in o.values() if math.isfinite(x) and abs(x) < 1e6)
        if r > 1e-6 * scale:
            rep = {"spec": spec, "kind": kind, "step": k, "max_residual": r, "observations": obs}
            sig = {"initial": "sim/initial-inconsistent", "step": "sim/step-residual", "collocation": "sim/differs-from-collocation"}[kind]
            ctx.violation(sig, rep, what="%s: model equations violated by %g at step %d" % (kind, r, k))
    for spec, res in zip(specs, results):
        if "error" in res or res["raised"]:
            continue
        obs = res["obs"]
        n = len(obs)
        if len(ctx.samples) < 2:
            ctx.sample({"model": mo.model_text(spec), "series": spec["series"], "trajectory": obs[:3]})
        # every derivative after a step is the backward difference quotient over the step actually taken
        for k_ in range(1, n):
            dt_ = obs[k_]["time"] - obs[k_ - 1]["time"]
            for v in spec["states"]:
                nm_ = v["name"]
                q_ = (obs[k_][nm_] - obs[k_ - 1][nm_]) / dt_
                if abs(obs[k_]["der(%s)" % nm_] - q_) > 1e-7 * (abs(q_) + 1e-3):
                    ctx.violation("sim/backward-difference", {"spec": spec, "state": nm_, "step": k_, "dt": dt_, "der": obs[k_]["der(%s)" % nm_], "quotient": q_},
                                  what="after step %d (dt = %s) der(%s) = %r, (x(t+dt) - x(t)) / dt = %r" % (k_, dt_, nm_, obs[k_]["der(%s)" % nm_], q_))
                    break
        # fixed starts
        for v in spec["states"]:
            if v.get("fixed") and abs(obs[0][v["name"]] - float(Fraction(v["start"]))) > 1e-7:
                ctx.violation("sim/fixed-start", {"spec": spec, "variable": v["name"], "value": obs[0][v["name"]]},
                              what="fixed start value of %s not honoured at t0" % v["name"])
        for nm, val in spec.get("free_start", {}).items():
            if abs(obs[0][nm] - float(Fraction(val))) > 1e-7:
                ctx.violation("sim/initial-state-file", {"spec": spec, "variable": nm, "value": obs[0][nm], "initial_state_csv": spec["initial_state_csv"]},
                              what="%s (start left at its default) is %r at t0, initial_state.csv gives %s" % (nm, obs[0][nm], val))
        # a user-defined extra variable is read in physical units at every step
        if spec.get("extra_nominal"):
            x0n = spec["states"][0]["name"]
            for i, o in enumerate(obs):
                if abs(o["zextra"] - (2.0 * o[x0n] + 1.0)) > 1e-6 * (1 + abs(o[x0n])):
                    ctx.violation("sim/extra-variable", {"spec": spec, "step": i, "zextra": o["zextra"], x0n: o[x0n]},
                                  what="extra variable z = 2*%s + 1 (nominal %s) reads %r where %s = %r" % (x0n, spec["extra_nominal"], o["zextra"], x0n, o[x0n]))
                    break
        # initial equations hold at t0
        from ..problems import ast_eval
        for lhs, rhs in spec.get("initial_equations", []):
            env0 = {k: Fraction(v) for k, v in obs[0].items()}
            a, b = float(ast_eval(lhs, env0)), float(ast_eval(rhs, env0))
            if abs(a - b) > 1e-6 * (1 + abs(b)):
                ctx.violation("sim/initial-equation", {"spec": spec, "equation": [lhs, rhs], "lhs": a, "rhs": b, "t0": obs[0]},
                              what="initial equation not satisfied after initialize(): %s = %r, right-hand side %r" % (lhs, a, b))
        # inputs at t+dt
        mults = spec.get("multiples", [1] * spec["nsteps"])
        at = [sum(mults[:i]) for i in range(n)]          # index of the import stamp reached after i steps
        for u, ser in spec["series"].items():
            for i in range(n):
                if abs(obs[i][u] - float(Fraction(ser[at[i]]))) > 1e-9:
                    ctx.violation("sim/input-time", {"spec": spec, "input": u, "step": i, "value": obs[i][u], "series": ser},
                                  what="input %s at step %d is not the series value of that time" % (u, i))
        # time axis
        for i in range(n):
            if abs(obs[i]["time"] - at[i] * spec["dt"]) > 1e-6:
                ctx.violation("sim/time", {"spec": spec, "times": [o["time"] for o in obs]}, what="simulation time axis wrong")
        # aliases
        for a, tgt, sign in spec["aliases"]:
            for o in obs:
                if abs(o[a] - sign * o[tgt]) > 1e-7 * (1 + abs(o[tgt])):
                    ctx.violation("sim/alias", {"spec": spec, "alias": a, "obs": o}, what="negated alias %s does not mirror %s" % (a, tgt))
        # delays
        for name, expr, tau in spec["delays"]:
            ref = delayed_reference(spec, obs, name, expr, tau)
            got = [o[name] for o in obs]
            # at t0 there is no history yet: initialize() only pulls the delayed variable towards the
            # current value of the expression (a minimised residual); the relation is checked from the
            # first step on
            if any(abs(a - b) > 1e-6 * (1 + abs(b)) for a, b in list(zip(got, ref))[1:]):
                ctx.violation("sim/delay", {"spec": spec, "delay": [name, expr, tau], "simulated": got, "expected": ref},
                              what="delayed variable %s != expression delayed by %s s: %s vs %s" % (name, tau, got, ref))
        # outputs recorded at every step incl. t0, exported
        ex = res["exported"]
        if ex is not None:
            if ex["__times__"] != [float(at[i] * spec["dt"]) for i in range(n)]:
                ctx.violation("sim/export-times", {"spec": spec, "exported_times": ex["__times__"]}, what="exported time stamps wrong")
            for nm in spec["outputs"]:
                if nm not in ex or len(ex[nm]) != n or any(abs(a - o[nm]) > 5e-7 * (1 + abs(o[nm])) + 5e-7 for a, o in zip(ex[nm], obs)):
                    ctx.violation("sim/export-values", {"spec": spec, "output": nm, "exported": ex.get(nm), "simulated": [o[nm] for o in obs]},
                                  what="exported values of %s differ from the simulated ones" % nm)
        for nm, want, got in res["setget"]:
            if abs(want - got) > 1e-9:
                ctx.violation("sim/get-set-physical", {"spec": spec, "variable": nm, "set": want, "get": got},
                              what="get_var after set_var is not in physical units for %s: %s vs %s" % (nm, want, got))
    for uspec, ures in unsolv:
        ctx.count("unsolvable_probe")
        if "error" not in ures and not ures["raised"]:
            ctx.violation("sim/unsolvable-step-returned", {"spec": uspec, "observations": ures["obs"]},
                          what="a step without solution returned instead of raising (rootfinder %s)" % (uspec.get("rootfinder") or "nlpsol"))


def safe_run(spec):
    try:
        return run_model(spec)
    except Exception as e:  # noqa: BLE001
        import traceback
        return {"error": "%s: %s | %s" % (type(e).__name__, str(e)[:200], traceback.format_exc()[-400:])}
