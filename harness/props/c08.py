"""C08 — nominal values only rescale the numerics (optimisation part; the simulator's get/set_var in
physical units is exercised by C09)."""
import json
import os
from fractions import Fraction

from .. import core, tr, trcheck

ID = "C08"
PROPS_FILE = "props/C08.v"
MODEL_FILES = ["Xq", "Interp", "Expr", "Transcribe"]
RULE = ("metamorphic pairs of generated problems differing only in the nominals of all variables (factors "
        "2^-10 .. 2^10 and non-dyadic): rows g, objective f at corresponding decision vectors "
        "X' = X*N/N' and the physical boxes N*lbx, N*ubx must coincide; each problem is also compared "
        "with the Gallina model. non-trivial = nominals differing by >= 8x on a problem with bounds and "
        "history; distinct = abstracted shapes"
        ' Also: vector path variables with per-component nominals, goal-function nominals on real goal-programming runs (relaxed minimisation goals), state_at(scaled) vs state_at() in both call orders, simulation models with a user extra variable with nominal next to a multi-step delay buffer.')
MODELLED = "use of variable_nominal throughout transcribe() and _collint_get_lbx_ubx / initial-derivative nominals"
NOT_MODELLED = "goal function nominals (C03/C17 harness), solver behaviour under rescaling, simulation (C09)"
ASSUMPTIONS = []
FEAT = {"bounds": True, "history": True, "objective": True, "path": True, "own_grid": False, "pvars": True,
        "own_grid_late": True, "seeds": True}


def run(ctx):
    rs = trcheck.replay_spec()
    base = [rs] if rs else [c["spec"] for c in core.corpus_cases(ID)] + \
        [tr.gen_spec(ctx.rng, FEAT) for _ in range(ctx.n(60, 2000))]
    specs = []
    for s in base:
        s2 = json.loads(json.dumps(s))
        coll = s["states"] + s["algebraics"] + s["controls"]
        s2["nominals"] = {v: str(Fraction(ctx.rng.choice([1, 2, 8, 64, 1024, 3, 10]), ctx.rng.choice([1, 1, 4, 128, 1024, 7])))
                          for v in coll}
        specs.append(s)
        specs.append(s2)
    rows = trcheck.run_cases(ctx, ID, specs, probes=1)
    for k in range(0, len(rows), 2):
        (s, o, m, d1), (s2, o2, m2, d2) = rows[k], rows[k + 1]
        if o is None or o2 is None:
            continue
        coll = s["states"] + s["algebraics"] + s["controls"]
        ratio = max([abs(float(Fraction(s2["nominals"][v]) / Fraction(s.get("nominals", {}).get(v, 1)))) for v in coll] + [1])
        ctx.case_done(trcheck.shape_of(s) + json.dumps(sorted(s2["nominals"].items())), ratio >= 8)
        ctx.count("pairs")
        # model correspondence for both
        for sp, dd in ((s, d1), (s2, d2)):
            if dd:
                ctx.violation("nominals/model-mismatch", {"spec": sp, "differences": dd[:3]},
                              what="transcription differs from the model: %s" % json.dumps(dd[0], default=str)[:200])
        # metamorphic relation on the implementation itself
        rel = metamorphic(s, s2, o, ctx)
        if rel:
            ctx.violation("nominals/not-invariant", {"spec": s, "nominals_2": s2["nominals"], "difference": rel},
                          what="changing nominals changed the problem in physical units: %s" % json.dumps(rel, default=str)[:300])
        elif len(ctx.samples) < 3:
            ctx.sample({"spec": s, "nominals_2": s2["nominals"], "physical_lbx": [a * b for a, b in zip(nominal_vector(s, o), o["lbx"])][:10]})


def nominal_vector(s, o):
    """nominal of every decision-vector entry, recovered through the public API"""
    import casadi as ca
    import numpy as np

    p = o["p"]
    nx = o["nx"]
    nv = np.ones(nx)
    for m in range(p.ensemble_size):
        for v in tr.layout_names(s):
            f = ca.Function("i", [p.solver_input], [p.state_vector(v, m)])
            idx = [int(round(float(x))) for x in np.array(f(ca.DM(list(range(nx))))).ravel()]
            nom = np.atleast_1d(p.variable_nominal(v)).astype(float)
            per = max(1, len(idx) // len(nom))          # a vector variable: component-major blocks
            for j, i in enumerate(idx):
                nv[i] = float(nom[min(j // per, len(nom) - 1)])
    return [float(x) for x in nv]


def seed_check(s, o, nv):
    """x0 * nominal is the seed the user gave, in physical units"""
    import casadi as ca
    import numpy as np

    p = o["p"]
    for m, sd in enumerate(s.get("seeds", [])):
        for v, val in sd.items():
            f = ca.Function("i", [p.solver_input], [p.state_vector(v, m)])
            idx = [int(round(float(x))) for x in np.array(f(ca.DM(list(range(o["nx"]))))).ravel()]
            want = [float(Fraction(x)) for x in val["values"]] if isinstance(val, dict) else [float(Fraction(val))] * len(idx)
            if len(want) != len(idx):
                continue
            for i, w in zip(idx, want):
                if not tr.close(o["x0"][i] * nv[i], w, 1e-9):
                    return {"what": "seed", "variable": v, "member": m, "x0_times_nominal": o["x0"][i] * nv[i], "seed": w}
    return None


def metamorphic(s, s2, o, ctx):
    import casadi as ca
    import numpy as np

    o2 = tr.observe(s2, 0, ctx.rng)
    n1, n2 = nominal_vector(s, o), nominal_vector(s2, o2)
    if o["nx"] != o2["nx"]:
        return {"what": "x-size", "a": o["nx"], "b": o2["nx"]}
    for i, (a, b, c, d) in enumerate(zip(o["lbx"], o2["lbx"], o["ubx"], o2["ubx"])):
        if not tr.close(a * n1[i], b * n2[i], 1e-9) or not tr.close(c * n1[i], d * n2[i], 1e-9):
            return {"what": "physical box", "index": i, "a": [a * n1[i], c * n1[i]], "b": [b * n2[i], d * n2[i]]}
    for i, (a, b) in enumerate(zip(o["x0"], o2["x0"])):
        if not tr.close(a * n1[i], b * n2[i], 1e-9):
            return {"what": "physical seed", "index": i, "a": a * n1[i], "b": b * n2[i]}
    bad = seed_check(s, o, n1) or seed_check(s2, o2, n2)
    if bad:
        return bad
    X = [float(x) for x in o["X"][0]]
    X2 = [x * a / b for x, a, b in zip(X, n1, n2)]
    p2 = o2["p"]
    d, lbx, ubx, lbg, ubg, x0, nlp = p2.transcribe()
    gf = ca.Function("gf", [nlp["x"]], [nlp["g"], nlp["f"]])
    g2, f2 = gf(ca.DM(X2))
    g2 = [float(v) for v in np.array(g2).ravel()]
    g1, f1 = o["gf"][0]
    if len(g1) != len(g2):
        return {"what": "row count", "a": len(g1), "b": len(g2)}
    for i, (a, b) in enumerate(zip(g1, g2)):
        if not tr.close(a, b, 1e-7):
            return {"what": "row", "row": i, "a": a, "b": b}
    if not tr.close(f1, float(f2), 1e-7):
        return {"what": "objective", "a": f1, "b": float(f2)}
    return None


# ---- goal function nominals only rescale: a goal-programming run does not depend on them ---------------------
def gp_nominal_pairs(ctx):
    """the same goals with different function nominals (relaxed minimisation goals, target goals) must give
    the same trajectories: priority 1 minimises a function with a relaxation, priority 2 pulls the other way,
    so the final value is pinned at optimum + relaxation whatever the nominal"""
    import json
    from . import c02
    rng = ctx.rng
    for _ in range(ctx.n(5, 120)):
        n = rng.choice([2, 3])
        E = rng.choice([1, 2])
        fn = rng.choice(["y", "z"])
        relax = rng.choice(["1/2", "1", "2"])
        g1 = {"path": rng.random() < 0.6, "fn": fn, "prio": 1, "k": rng.randrange(n), "order": 1, "weight": 1, "nominal": 1, "relax": relax, "fk": "g1"}
        g2 = {"path": g1["path"], "fn": fn, "prio": 2, "k": g1["k"], "order": rng.choice([1, 2]), "weight": 1, "nominal": 1,
              "tmin": 11.0 if fn == "y" else 19.0, "fk": "g2"}
        base = {"k": "run", "times": list(range(n)), "E": E, "p": [0, "1/2"][:E], "variant": "multi", "goals": [g1, g2], "options": {}}
        other = json.loads(json.dumps(base))
        nom = rng.choice([100, "1/4", 10])
        other["goals"][0]["nominal"] = nom
        if rng.random() < 0.5:
            other["goals"][1]["nominal"] = rng.choice([2, 50])
        outs = [c02.run_case(c) for c in (base, other)]
        ctx.case_done(core.fingerprint(["gpnominal", n, E, fn, relax, str(nom), g1["path"]]), True)
        ctx.count("gp_nominal_pairs")
        if any("error" in o or not o.get("ok") for o in outs):
            ctx.count("gp_nominal_pair_unsolved")
            continue
        fa = [[float(v) for v in outs[0]["snaps"][-1]["results"][m][fn]] for m in range(E)]
        fb = [[float(v) for v in outs[1]["snaps"][-1]["results"][m][fn]] for m in range(E)]
        idx = range(n) if g1["path"] else [g1["k"]]
        if any(abs(fa[m][k] - fb[m][k]) > 1e-5 * (1 + abs(fa[m][k])) for m in range(E) for k in idx):
            ctx.violation("nominals/goal-function-nominal", {"case": base, "rescaled_case": other, fn + "_nominal_1": fa, fn + "_rescaled": fb},
                          what="changing goal function nominals (1 -> %s) changed the result: %s = %s vs %s" % (nom, fn, fa, fb))


_run_core = run


def run(ctx):  # noqa: F811
    _run_core(ctx)
    if not os.environ.get("VERIF_REPLAY"):
        gp_nominal_pairs(ctx)


# ---- accessors: state_at(scaled=True) and state_at() of the same point differ exactly by the nominal ------------
def accessor_scaling(ctx):
    import casadi as ca
    import numpy as np
    from .. import problems
    rng = ctx.rng
    for _ in range(ctx.n(12, 300)):
        s = tr.gen_spec(rng, {"history": False, "own_grid": False})
        coll = s["states"] + s["algebraics"] + s["controls"]
        if not coll:
            continue
        for v in coll:
            s.setdefault("nominals", {})[v] = str(rng.choice([2, 10, Fraction(1, 4), 100]))
        times = [Fraction(t) for t in s["times"]]
        try:
            p = problems.make_base(s)()
            p.transcribe()
        except Exception:  # noqa: BLE001
            continue
        nx = p.solver_input.shape[0]
        X = ca.DM([float(Fraction(rng.randint(-12, 12), 4)) for _ in range(nx)])
        ctx.case_done(core.fingerprint(["accessor-scaling", len(coll), len(times)]), True)
        ctx.count("accessor_scaling_cases")
        for _ in range(6):
            v = rng.choice(coll)
            m = rng.randrange(s["ensemble_size"])
            t = float(rng.choice(times + [times[0] + (times[1] - times[0]) / 3]))
            order = rng.random() < 0.5
            calls = [(True,), (False,)] if order else [(False,), (True,)]
            vals = {}
            for (sc,) in calls:          # the order of the two calls must not matter
                e = p.state_at(v, t, m, scaled=sc)
                vals[sc] = float(ca.Function("f", [p.solver_input], [e])(X))
            nom = float(Fraction(s["nominals"][v]))
            if abs(vals[False] - nom * vals[True]) > 1e-9 * (1 + abs(vals[False])):
                ctx.violation("nominals/accessor-scaling", {"spec": s, "variable": v, "time": t, "member": m, "scaled_first": order,
                                                            "scaled": vals[True], "physical": vals[False], "nominal": nom},
                              what="state_at(%s, %s) = %r but scaled=True gives %r with nominal %s (called %s first)" % (
                                  v, t, vals[False], vals[True], nom, "scaled" if order else "physical"))
                break


def sim_nominal_cases(ctx):
    """simulation variables are read and written in physical units: a user variable with its own nominal next to
    a delay buffer of several steps, set_var / get_var round trips"""
    from concurrent.futures import ProcessPoolExecutor
    from . import c09
    rng = ctx.rng
    specs = []
    for k in range(ctx.n(4, 80)):
        m = c09.gen_model(rng, 2000 + k)
        m["extra_nominal"] = str(rng.choice([50, 10, Fraction(1, 4)]))
        if not m["delays"]:
            m.pop("multiples", None)
            src = rng.choice(m["states"] + m["algebraics"])["name"]
            m["algebraics"].append({"name": "dly0"})
            m["delays"].append(["dly0", ["v", src], str(rng.choice([2, 3, Fraction(5, 2)]) * m["dt"])])
            for u in m["series"]:
                m["series"][u] = m["series"][u][: m["nsteps"] + 1]
                while len(m["series"][u]) < m["nsteps"] + 1:
                    m["series"][u].append("1")
        specs.append(m)
    with ProcessPoolExecutor(max_workers=8) as ex:
        results = list(ex.map(c09.safe_run, specs))
    for spec, res in zip(specs, results):
        ctx.case_done(core.fingerprint(["sim-nominal", spec["extra_nominal"], [d[2] for d in spec["delays"]]]), True)
        ctx.count("sim_nominal_models")
        if "error" in res or res.get("raised"):
            ctx.count("sim_nominal_unsolved")
            continue
        x0n = spec["states"][0]["name"]
        for i, o in enumerate(res["obs"]):
            if abs(o["zextra"] - (2.0 * o[x0n] + 1.0)) > 1e-6 * (1 + abs(o[x0n])):
                ctx.violation("nominals/sim-extra-variable", {"spec": spec, "step": i, "zextra": o["zextra"], x0n: o[x0n]},
                              what="simulation: extra variable with nominal %s reads %r, the model says %r" % (spec["extra_nominal"], o["zextra"], 2.0 * o[x0n] + 1.0))
                break
        for nm, want, got in res["setget"]:
            if abs(want - got) > 1e-9:
                ctx.violation("nominals/sim-get-set", {"spec": spec, "variable": nm, "set": want, "get": got},
                              what="simulation: get_var after set_var(%s, %s) returns %s" % (nm, want, got))


_run_core2 = run


def run(ctx):  # noqa: F811
    _run_core2(ctx)
    if not os.environ.get("VERIF_REPLAY"):
        accessor_scaling(ctx)
        sim_nominal_cases(ctx)
