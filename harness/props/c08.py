"""C08 — nominal values only rescale the numerics (optimisation part; the simulator's get/set_var in
physical units is exercised by C09)."""
import json
import os
from fractions import Fraction

from .. import core, tr, trcheck

ID = "C08"
PROPS_FILE = "props/C08.v"
MODEL_FILES = ["Xq", "Interp", "Expr", "Transcribe"]
RULE = ("metamorphic pairs of generated problems differing only in the nominals of all variables (factors "
        "2^-10 .. 2^10 and non-dyadic): rows g, objective f at corresponding decision vectors "
        "X' = X*N/N' and the physical boxes N*lbx, N*ubx must coincide; each problem is also compared "
        "with the Gallina model. non-trivial = nominals differing by >= 8x on a problem with bounds and "
        "history; distinct = abstracted shapes"
        ' Also: vector path variables with per-component nominals, goal-function nominals on real goal-programming runs (relaxed minimisation goals), state_at(scaled) vs state_at() in both call orders, simulation models with a user extra variable with nominal next to a multi-step delay buffer.')
MODELLED = "use of variable_nominal throughout transcribe() and _collint_get_lbx_ubx / initial-derivative nominals"
NOT_MODELLED = "goal function nominals (C03/C17 harness), solver behaviour under rescaling, simulation (C09)"
ASSUMPTIONS = []
FEAT = {"bounds": True, "history": True, "objective": True, "path": True, "own_grid": False, "pvars": True,
        "own_grid_late": True, "seeds": True}


def run(ctx):
    rs = trcheck.replay_spec()
    base = [rs] if rs else [c["spec"] for c in core.corpus_cases(ID)] + \
        [tr.gen_spec(ctx.rng, FEAT) for _ in range(ctx.n(60, 2000))]
    specs = []
    for s in base:
        s2 = json.loads(json.dumps(s))
        coll = s["states"] + s["algebraics"] + s["controls"]
        s2["nominals"] = {v: str(Fraction(ctx.rng.choice([1, 2, 8, 64, 1024, 3, 10]), ctx.rng.choice([1, 1, 4, 128, 1024, 7])))
                          for v in coll}
        specs.append(s)
        specs.append(s2)
    rows = trcheck.run_cases(ctx, ID, specs, probes=1)
    for k in range(0, len(rows), 2):
        (s, o, m, d1), (s2, o2, m2, d2) = rows[k], rows[k + 1]
        if o is None or o2 is None:
            continue
        coll = s["states"] + s["algebraics"] + s["controls"]
        ratio = max([abs(float(Fraction(s2["nominals"][v]) / Fraction(s.get("nominals", {}).get(v, 1)))) for v in coll] + [1])
        ctx.case_done(trcheck.shape_of(s) + json.dumps(sorted(s2["nominals"].items())), ratio >= 8)
        ctx.count("pairs")
        # model correspondence for both
        for sp, dd in ((s, d1), (s2, d2)):
            if dd:
                ctx.violation("nominals/model-mismatch", {"spec": sp, "differences": dd[:3]},
                              what="transcription differs from the model: %s" % json.dumps(dd[0], default=str)[:200])
        # metamorphic relation on the implementation itself
        rel = metamorphic(s, s2, o, ctx)
        if rel:
            ctx.violation("nominals/not-invariant", {"spec": s, "nominals_2": s2["nominals"], "difference": rel},
                          what="changing nominals changed the problem in physical units: %s" % json.dumps(rel, default=str)[:300])
        elif len(ctx.samples) < 3:
            ctx.sample({"spec": s, "nominals_2": s2["nominals"], "physical_lbx": [a * b for a, b in zip(nominal_vector(s, o), o["lbx"])][:10]})


def nominal_vector(s, o):
    """nominal of every decision-vector entry, recovered through the public API"""
    import casadi as ca
    import numpy as np

    p = o["p"]
    nx = o["nx"]
    nv = np.ones(nx)
    for m in range(p.ensemble_size):
        for v in tr.layout_names(s):
            f = ca.Function("i", [p.solver_input], [p.state_vector(v, m)])
            idx = [int(round(float(x))) for x in np.array(f(ca.DM(list(range(nx))))).ravel()]
            nom = np.atleast_1d(p.variable_nominal(v)).astype(float)
            per = max(1, len(idx) // len(nom))          # a vector variable: component-major blocks
            for j, i in enumerate(idx):
                nv[i] = float(nom[min(j // per, len(nom) - 1)])
    return [float(x) for x in nv]


def seed_check(s, o, nv):
    """x0 * nominal is the seed the user gave, in physical units"""
    import casadi as ca
    import numpy as np

    p = o["p"]
    for m, sd in enumerate(s.get("seeds", [])):
        for v, val in sd.items():
            f = ca.Function("i", [p.solver_input], [p.state_vector(v, m)])
            idx = [int(round(float(x))) for x in np.array(f(ca.DM(list(range(o["nx"]))))).ravel()]
            want = [float(Fraction(x)) for x in val["values"]] if isinstance(val, dict) else [float(Fraction(val))] * len(idx)
            if len(want) != len(idx):
                continue
            for i, w in zip(idx, want):
                if not tr.close(o["x0"][i] * nv[i], w, 1e-9):
                    return {"what": "seed", "variable": v, "member": m, "x0_times_nominal": o["x0"][i] * nv[i], "seed": w}
    return None


def metamorphic(s, s2, o, ctx):
    import casadi as ca
    import numpy as np

    o2 = tr.observe(s2, 0, ctx.rng)
    n1, n2 = nominal_vector(s, o), nominal_vector(s2, o2)
    if o["nx"] != o2["nx"]:
        return {"what": "x-size", "a": o["nx"], "b": o2["nx"]}
    for i, (a, b, c, d) in enumerate(zip(o["lbx"], o2["lbx"], o["ubx"], o2["ubx"])):
        if not tr.close(a * n1[i], b * n2[i], 1e-9) or not tr.close(c * n1[i], d * n2[i], 1e-9):
            return {"what": "physical box", "index": i, "a": [a * n1[i], c * n1[i]], "b": [b * n2[i], d * n2[i]]}
    for i, (a, b) in enumerate(zip(o["x0"], o2["x0"])):
        if not tr.close(a * n1[i], b * n2[i], 1e-9):
            return {"what": "physical seed", "index": i, "a": a * n1[i], "b": b * n2[i]}
    bad = seed_check(s, o, n1) or seed_check(s2, o2, n2)
    if bad:
        return bad
    X = [float(x) for x in o["X"][0]]
    X2 = [x * a / b for x, a, b in zip(X, n1, n2)]
    p2 = o2["p"]
    d, lbx, ubx, lbg, ubg, x0, nlp = p2.transcribe()
    gf = ca.Function("gf", [nlp["x"]], [nlp["g"], nlp["f"]])
    g2, f2 = gf(ca.DM(X2))
    g2 = [float(v) for v in np.array(g2).ravel()]
    g1, f1 = o["gf"][0]
    if len(g1) != len(g2):
        return {"what": "row count", "a": len(g1), "b": len(g2)}
    for i, (a, b) in enumerate(zip(g1, g2)):
        if not tr.close(a, b, 1e-7):
            return {"what": "row", "row": i, "a": a, "b": b}
    if not tr.close(f1, float(f2), 1e-7):
        return {"what": "objective", "a": f1, "b": float(f2)}
    return None


# ---- goal function nominals only rescale: a goal-programming run does not depend on them ---------------------
def gp_nominal_pairs(ctx):
    """the same goals with different function nominals (relaxed minimisation goals, target goals) must give
    the same trajectories: priority 1 minimises a function with a relaxation, priority 2 pulls the other way,
    so the final value is pinned at optimum + relaxation whatever the nominal"""
    import json
    from . import c02
    rng = ctx.rng
    for _ in range(ctx.n(5, 120)):
        n = rng.choice([2, 3])
        E = rng.choice([1, 2])
        fn = rng.choice(["y", "z"])
        relax = rng.choice(["1/2", "1", "2"])
        g1 = {"path": rng.random() < 0.6, "fn": fn, "prio": 1, "k": rng.randrange(n), "order": 1, "weight": 1, "nominal": 1, "relax": relax, "fk": "g1"}
        g2 = {"path": g1["path"], "fn": fn, "prio": 2, "k": g1["k"], "order": rng.choice([1, 2]), "weight": 1, "nominal": 1,
              "tmin": 11.0 if fn == "y" else 19.0, "fk": "g2"}
        base = {"k": "run", "times": list(range(n)), "E": E, "p": [0, "1/2"][:E], "variant": "multi", "goals": [g1, g2], "options": {}}
        other = json.loads(json.dumps(base))
        nom = rng.choice([100, "1/4", 10])
        other["goals"][0]["nominal"] = nom
        if rng.random() < 0.5:
            other["goals"][1]["nominal"] = rng.choice([2, 50])
        outs = [c02.run_case(c) for c in (base, other)]
        ctx.case_done(core.fingerprint(["gpnominal", n, E, fn, relax, str(nom), g1["path"]]), True)
        ctx.count("gp_nominal_pairs")
        if any("error" in o or not o.get("ok") for o in outs):
            ctx.count("gp_nominal_pair_unsolved")
            continue
        fa = [[float(v) for v in outs[0]["snaps"][-1]["results"][m][fn]] for m in range(E)]
        fb = [[float(v) for v in outs[1]["snaps"][-1]["results"][m][fn]] for m in range(E)]
        idx = range(n) if g1["path"] else [g1["k"]]
        if any(abs(fa[m][k] - fb[m][k]) > 1e-5 * (1 + abs(fa[m][k])) for m in range(E) for k in idx):
            ctx.violation("nominals/goal-function-nominal", {"case": base, "rescaled_case": other, fn + "_nominal_1": fa, fn + "_rescaled": fb},
                          what="changing goal function nominals (1 -> %s) changed the result: %s = %s vs %s" % (nom, fn, fa, fb))


_run_core = run


def run(ctx):  # noqa: F811
    _run_core(ctx)
    if not os.environ.get("VERIF_REPLAY"):
        gp_nominal_pairs(ctx)


# ---- accessors: state_at(scaled=True) and state_at() of the same point differ exactly by the nominal ------------
def accessor_scaling(ctx):
    import casadi as ca
    import numpy as np
    from .. import problems
    rng = ctx.rng
    for _ in range(ctx.n(12, 300)):
        s = tr.gen_spec(rng, {"history": False, "own_grid": False})
        coll = s["states"] + s["algebraics"] + s["controls"]
        if not coll:
            continue
        for v in coll:
            s.setdefault("nominals", {})[v] = str(rng.choice([2, 10, Fraction(1, 4), 100]))
        times = [Fraction(t) for t in s["times"]]
        try:
            p = problems.make_base(s)()
            p.transcribe()
        except Exception:  # noqa: BLE001
            continue
        nx = p.solver_input.shape[0]
        X = ca.DM([float(Fraction(rng.randint(-12, 12), 4)) for _ in range(nx)])
        ctx.case_done(core.fingerprint(["accessor-scaling", len(coll), len(times)]), True)
        ctx.count("accessor_scaling_cases")
        for _ in range(6):
            v = rng.choice(coll)
            m = rng.randrange(s["ensemble_size"])
            t = float(rng.choice(times + [times[0] + (times[1] - times[0]) / 3]))
            order = rng.random() < 0.5
            calls = [(True,), (False,)] if order else [(False,), (True,)]
            vals = {}
            for (sc,) in calls:          # the order of the two calls must not matter
                e = p.state_at(v, t, m, scaled=sc)
                vals[sc] = float(ca.Function("f", [p.solver_input], [e])(X))
            nom = float(Fraction(s["nominals"][v]))
            if abs(vals[False] - nom * vals[True]) > 1e-9 * (1 + abs(vals[False])):
                ctx.violation("nominals/accessor-scaling", {"spec": s, "variable": v, "time": t, "member": m, "scaled_first": order,
                                                            "scaled": vals[True], "physical": vals[False], "nominal": nom},
                              what="state_at(%s, %s) = %r but scaled=True gives %r with nominal %s (called %s first)" % (
                                  v, t, vals[False], vals[True], nom, "scaled" if order else "physical"))
                break


def history_windows(ctx):
    """states_in() / integral() over a window that starts before t0: the knots taken from the history are the
    stored physical values whatever the nominal, and the integral is the same for every nominal"""
    import random
    import casadi as ca
    import numpy as np
    from .. import problems
    r2 = random.Random(808)
    done = 0
    while done < ctx.n(8, 120):
        s = tr.gen_spec(r2, {"history": False, "own_grid": False, "nominals": False})
        coll = s["states"] + s["algebraics"] + s["controls"]
        if not coll:
            continue
        done += 1
        v = r2.choice(coll)
        times = [Fraction(t) for t in s["times"]]
        ht = [times[0] - 2, times[0] - 1, times[0]]
        hv = [tr.dy(r2), tr.dy(r2), tr.dy(r2)]
        s["history"] = [{v: {"times": [str(t) for t in ht], "values": [str(x) for x in hv]}} for _ in range(s["ensemble_size"])]
        res = {}
        for nom in (1, r2.choice([10, 250, Fraction(1, 4)])):
            sp = json.loads(json.dumps(s))
            sp["nominals"] = {v: str(nom)}
            p = problems.make_base(sp)()
            p.transcribe()
            nx = p.solver_input.shape[0]
            Xp = [float(Fraction(random.Random(9).randint(-12, 12), 4)) for _ in range(nx)]        # physical values
            f = ca.Function("i", [p.solver_input], [p.state_vector(v, 0)])
            mine = {int(round(float(x))) for x in np.array(f(ca.DM(list(range(nx))))).ravel()}
            X = ca.DM([x / float(nom) if i in mine else x for i, x in enumerate(Xp)])
            a, b = float(ht[0]), float(times[-1])
            ev = lambda e: [float(x) for x in np.array(ca.Function("f", [p.solver_input], [e])(X)).ravel()]  # noqa: E731
            res[str(nom)] = {"knots": ev(p.states_in(v, a, b, 0)), "integral": ev(p.integral(v, a, b, 0))[0]}
        ctx.count("history_window_cases")
        ctx.case_done(core.fingerprint(["history-window", v in s["states"], len(times)]), True)
        (n1, r1), (n2, r2_) = list(res.items())
        want = [float(x) for x in hv[:2]]
        if any(abs(g - w) > 1e-9 * (1 + abs(w)) for r in (r1, r2_) for g, w in zip(r["knots"][:2], want)) or \
                abs(r1["integral"] - r2_["integral"]) > 1e-9 * (1 + abs(r1["integral"])):
            ctx.violation("nominals/history-window", {"spec": s, "variable": v, "history": [str(x) for x in hv], "results": res},
                          what="states_in / integral of %s from before t0: history knots %s / %s (stored %s), integrals %r / %r for nominals %s / %s" % (
                              v, r1["knots"][:2], r2_["knots"][:2], want, r1["integral"], r2_["integral"], n1, n2))


SIM_EXTRA_MODEL = """model SEB
  input Real u0;
  Real x(start=8.0);
equation
  der(x) = (u0 - 0.1 * x) / 3600.0;
end SEB;
"""


SIM_START_MODEL = """model SFS
  input Real u0;
  Real x(start=2.0, nominal=%s);
  Real z(start=-1.5, nominal=%s);
equation
  der(x) = (u0 - 0.5 * x) / 3600.0;
  der(z) = (x - z) / 3600.0;
end SFS;
"""


def run_sim_start(noms):
    """free (not fixed) states with start values and nominals, no other variable competing for the initial
    state: the initial state is the start value"""
    import logging
    import shutil
    import tempfile
    import warnings
    warnings.filterwarnings("ignore")
    logging.disable(logging.CRITICAL)
    from rtctools.simulation.csv_mixin import CSVMixin
    from rtctools.simulation.simulation_problem import SimulationProblem
    from .. import mo
    from .c09 import T0
    base = tempfile.mkdtemp(prefix="verif_c08_")
    try:
        mdl, inp, outp = (os.path.join(base, d) for d in ("model", "input", "output"))
        for d in (mdl, inp, outp):
            os.makedirs(d)
        with open(os.path.join(mdl, "SFS.mo"), "w") as fh:
            fh.write(SIM_START_MODEL % (repr(float(noms[0])), repr(float(noms[1]))))
        mo.write_timeseries_csv(os.path.join(inp, "timeseries_import.csv"), T0, 3600, {"u0": ["1", "1", "1"]})

        class S(CSVMixin, SimulationProblem):
            def compiler_options(self):
                o = super().compiler_options()
                o["cache"] = False
                return o
        p = S(model_folder=mdl, model_name="SFS", input_folder=inp, output_folder=outp)
        p.pre()
        p.initialize()
        out = [{n: float(p.get_var(n)) for n in ("x", "z")}]
        p.update(-1)
        out.append({n: float(p.get_var(n)) for n in ("x", "z")})
        return out
    except Exception as e:  # noqa: BLE001
        return {"error": "%s: %s" % (type(e).__name__, str(e)[:200])}
    finally:
        shutil.rmtree(base, ignore_errors=True)


def sim_free_starts(ctx):
    from concurrent.futures import ProcessPoolExecutor
    pairs = [(1.0, 1.0), (10.0, 0.5), (0.01, 100.0), (250.0, 4.0)]
    with ProcessPoolExecutor(max_workers=4) as ex:
        res = list(ex.map(run_sim_start, pairs))
    ctx.count("sim_free_start_models", len(pairs))
    ctx.case_done(core.fingerprint(["sim-free-start"]), True)
    if any(isinstance(r, dict) for r in res):
        ctx.count("sim_free_start_unsolved")
        return
    ref = res[0]
    for nm, r in zip(pairs, res):
        if abs(r[0]["x"] - 2.0) > 1e-6 or abs(r[0]["z"] + 1.5) > 1e-6 or any(abs(r[k][v] - ref[k][v]) > 1e-6 * (1 + abs(ref[k][v])) for k in (0, 1) for v in ("x", "z")):
            ctx.violation("nominals/sim-start-values", {"nominals": nm, "trajectory": r, "with_unit_nominals": ref},
                          what="simulation with nominals %s starts at x = %r, z = %r (start values 2 and -1.5; unit nominals give %r, %r)" % (
                              nm, r[0]["x"], r[0]["z"], ref[0]["x"], ref[0]["z"]))
            break


def run_sim_extra(nominal):
    import logging
    import shutil
    import tempfile
    import warnings
    warnings.filterwarnings("ignore")
    logging.disable(logging.CRITICAL)
    from rtctools.simulation.csv_mixin import CSVMixin
    from rtctools.simulation.simulation_problem import SimulationProblem, Variable
    from .. import mo
    from .c09 import T0
    base = tempfile.mkdtemp(prefix="verif_c08_")
    try:
        mdl, inp, outp = (os.path.join(base, d) for d in ("model", "input", "output"))
        for d in (mdl, inp, outp):
            os.makedirs(d)
        with open(os.path.join(mdl, "SEB.mo"), "w") as fh:
            fh.write(SIM_EXTRA_MODEL)
        mo.write_timeseries_csv(os.path.join(inp, "timeseries_import.csv"), T0, 3600, {"u0": ["1", "1", "1"]})

        class S(CSVMixin, SimulationProblem):
            def compiler_options(self):
                o = super().compiler_options()
                o["cache"] = False
                return o

            def extra_variables(self):
                return [Variable("z", min=0.0, max=5.0, nominal=nominal)]

            def extra_equations(self):
                v = self.get_variables()
                return [v["z"] - v["x"]]
        p = S(model_folder=mdl, model_name="SEB", input_folder=inp, output_folder=outp)
        p.pre()
        p.initialize()
        return {"x": float(p.get_var("x")), "z": float(p.get_var("z"))}
    except Exception as e:  # noqa: BLE001
        return {"error": "%s: %s" % (type(e).__name__, str(e)[:200])}
    finally:
        shutil.rmtree(base, ignore_errors=True)


def sim_extra_bounds(ctx):
    """a user variable of the simulator with bounds and a nominal (z = x, 0 <= z <= 5, x starts at 8): the bound
    acts on the physical value, the initial state is the same for every nominal"""
    from concurrent.futures import ProcessPoolExecutor
    noms = [1.0, 10.0, 100.0, 0.05]
    with ProcessPoolExecutor(max_workers=4) as ex:
        res = list(ex.map(run_sim_extra, noms))
    ctx.count("sim_extra_bound_models", len(noms))
    ctx.case_done(core.fingerprint(["sim-extra-bounds"]), True)
    if any("error" in r for r in res):
        ctx.count("sim_extra_bound_unsolved")
        return
    if any(abs(r["x"] - res[0]["x"]) > 1e-6 or r["z"] > 5 + 1e-6 or r["z"] < -1e-6 for r in res):
        ctx.violation("nominals/sim-extra-variable-bounds", {"nominals": noms, "initial_states": res},
                      what="initial state under 0 <= z <= 5 for nominals %s: %s" % (noms, [(round(r["x"], 4), round(r["z"], 4)) for r in res]))


def sim_nominal_cases(ctx):
    """simulation variables are read and written in physical units: a user variable with its own nominal next to
    a delay buffer of several steps, set_var / get_var round trips"""
    from concurrent.futures import ProcessPoolExecutor
    from . import c09
    rng = ctx.rng
    specs = []
    for k in range(ctx.n(4, 80)):
        m = c09.gen_model(rng, 2000 + k)
        m["extra_nominal"] = str(rng.choice([50, 10, Fraction(1, 4)]))
        if not m["delays"]:
            m.pop("multiples", None)
            src = rng.choice(m["states"] + m["algebraics"])["name"]
            m["algebraics"].append({"name": "dly0"})
            m["delays"].append(["dly0", ["v", src], str(rng.choice([2, 3, Fraction(5, 2)]) * m["dt"])])
            for u in m["series"]:
                m["series"][u] = m["series"][u][: m["nsteps"] + 1]
                while len(m["series"][u]) < m["nsteps"] + 1:
                    m["series"][u].append("1")
        specs.append(m)
    with ProcessPoolExecutor(max_workers=8) as ex:
        results = list(ex.map(c09.safe_run, specs))
    for spec, res in zip(specs, results):
        ctx.case_done(core.fingerprint(["sim-nominal", spec["extra_nominal"], [d[2] for d in spec["delays"]]]), True)
        ctx.count("sim_nominal_models")
        if "error" in res or res.get("raised"):
            ctx.count("sim_nominal_unsolved")
            continue
        x0n = spec["states"][0]["name"]
        for i, o in enumerate(res["obs"]):
            if abs(o["zextra"] - (2.0 * o[x0n] + 1.0)) > 1e-6 * (1 + abs(o[x0n])):
                ctx.violation("nominals/sim-extra-variable", {"spec": spec, "step": i, "zextra": o["zextra"], x0n: o[x0n]},
                              what="simulation: extra variable with nominal %s reads %r, the model says %r" % (spec["extra_nominal"], o["zextra"], 2.0 * o[x0n] + 1.0))
                break
        for nm, want, got in res["setget"]:
            if abs(want - got) > 1e-9:
                ctx.violation("nominals/sim-get-set", {"spec": spec, "variable": nm, "set": want, "get": got},
                              what="simulation: get_var after set_var(%s, %s) returns %s" % (nm, want, got))


_run_core2 = run


def run(ctx):  # noqa: F811
    _run_core2(ctx)
    if not os.environ.get("VERIF_REPLAY"):
        accessor_scaling(ctx)
        sim_nominal_cases(ctx)
        history_windows(ctx)
        sim_extra_bounds(ctx)
        sim_free_starts(ctx)
