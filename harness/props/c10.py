"""C10 — a failed priority stops the run: real GP mixins with a scripted solver vs the Gallina loop."""
import itertools
import json
import os
from fractions import Fraction

import numpy as np

from .. import core, problems
from ..core import gq, gbool, glist

ID = "C10"
PROPS_FILE = "props/C10.v"
MODEL_FILES = ["GpLoop", "GpLoopSpec"]
RULE = ("goal sets with priority numberings (negative, gaps, duplicates, float priorities truncated by "
        "int(), empty goals) x exhaustive success/failure scripts of the solver (all boolean sequences "
        "of the length of the priority list) x {GoalProgrammingMixin, keep_soft_constraints, "
        "SinglePassGoalProgrammingMixin (both methods)}; non-trivial = at least one failing solve; "
        "distinct = distinct (priorities, empties, script, variant)"
        ' Also: optimize(log_solver_failure_as_error=False) and empty path goals with infinite targets.')
MODELLED = ("goal_programming_mixin.py optimize() 622-759 and single_pass_goal_programming_mixin.py optimize() "
            "285-437: priority grouping, hooks, break on failure, results cache, return value")
NOT_MODELLED = "the user hook flag skip_priority; log messages; what the solver computes (scripted)"
ASSUMPTIONS = ["solver is an oracle (scripted through the public casadi_solver option)"]

SPEC = {
    "times": [0, 1, 2],
    "controls": ["u"],
    "algebraics": ["y"],
    "residual": [["-", ["v", "y"], ["v", "u"]]],
    "bounds": {"u": [-100, 100], "y": [-100, 100]},
}
VARIANTS = ["multi", "multi_keep_soft", "single_append", "single_update"]


def make_problem(variant, goals_spec, script):
    from rtctools.optimization.goal_programming_mixin import GoalProgrammingMixin
    from rtctools.optimization.goal_programming_mixin_base import Goal
    from rtctools.optimization.single_pass_goal_programming_mixin import (
        SinglePassGoalProgrammingMixin, SinglePassMethod)
    from rtctools.optimization.timeseries import Timeseries

    mix = GoalProgrammingMixin if variant.startswith("multi") else SinglePassGoalProgrammingMixin
    Base = problems.make_base(SPEC, (mix,))
    log = []
    hooks = []

    def mk_goal(prio, empty, path):
        class G(Goal):
            priority = int(prio) if Fraction(prio).denominator == 1 else float(prio)
            order = 1

            def function(self, op, em):
                return op.state("y") if path else op.state_at("y", 1.0, em)
        g = G()
        if empty or prio_kind(prio) % 2 == 0:
            g.function_range = (-100.0, 100.0)
        if empty in (2, 3):
            # "no finite target anywhere": -inf / +inf count like NaN (no bound on that side)
            lo = np.array([-np.inf, np.nan if empty == 3 else -np.inf, -np.inf])
            hi = np.array([np.inf, np.inf, np.nan if empty == 3 else np.inf])
            if path:
                g.target_min = Timeseries(np.array([0.0, 1.0, 2.0]), lo)
                if prio_kind(prio) % 3 != 0:
                    g.target_max = Timeseries(np.array([0.0, 1.0, 2.0]), hi)
            else:
                g.target_min = Timeseries(np.array([0.0, 1.0, 2.0]), np.full(3, np.nan))
        elif empty:
            if path:
                g.target_min = Timeseries(np.array([0.0, 1.0, 2.0]), np.full(3, np.nan))
            else:
                # a point goal whose (array) targets are all NaN on a vector goal of size 1
                g.target_min = np.array([np.nan])
                g.target_max = np.array([np.nan])
                g.target_min = Timeseries(np.array([0.0, 1.0, 2.0]), np.full(3, np.nan))
        elif prio_kind(prio) % 2 == 0:
            g.target_min = 1.0
        return g

    class P(Base):
        if not variant.startswith("multi"):
            single_pass_method = (SinglePassMethod.APPEND_CONSTRAINTS_OBJECTIVE if variant == "single_append"
                                  else SinglePassMethod.UPDATE_OBJECTIVE_CONSTRAINT_BOUNDS)

        def goals(self):
            return [mk_goal(p, e, False) for (p, e, path) in goals_spec if not path]

        def path_goals(self):
            return [mk_goal(p, e, True) for (p, e, path) in goals_spec if path]

        def goal_programming_options(self):
            o = super().goal_programming_options()
            if variant == "multi_keep_soft":
                o["keep_soft_constraints"] = True
            return o

        def solver_options(self):
            o = super().solver_options()
            o["casadi_solver"] = problems.ScriptedSolver(script, log)
            return o

        def priority_started(self, priority):
            hooks.append(("solve_count_at_start", len(log)))
            hooks.append([1, int(priority)])

        def priority_completed(self, priority):
            hooks.append([3, int(priority)])
            hooks.append(("results_at_completed", float(self.extract_results()["u"][0])))

        def post(self):
            hooks.append([4])

    return P(), log, hooks


def prio_kind(p):
    return int(abs(Fraction(p)) * 2)


def run_impl(variant, goals_spec, script, quiet=False):
    p, log, hooks = make_problem(variant, goals_spec, script)
    # how a failure is logged must not change what the loop does
    ret = p.optimize(log_solver_failure_as_error=False) if quiet else p.optimize()
    # assemble the trace: Started p ; Solve p ok ; Completed p ; Post
    trace = []
    solve_i = 0
    consistent = True
    cur = None
    for h in hooks:
        if isinstance(h, tuple):
            if h[0] == "solve_count_at_start":
                consistent &= (h[1] == solve_i)
            else:
                # inside priority_completed the visible results are those of this priority's solve
                consistent &= (h[1] == float(solve_i))
            continue
        if h[0] == 1:
            cur = h[1]
            trace += h
            # the solve of this priority (if the loop made one)
            if solve_i < len(log):
                ok = log[solve_i]["ok"]
                trace += [2, cur, 1 if ok else 0]
                solve_i += 1
        else:
            trace += h
    if log:
        exposed = int(round(float(p.extract_results()["u"][0]))) - 1
        ex2 = int(round(float(p.extract_results()["y"][-1]))) - 1
        consistent &= exposed == ex2
    else:
        exposed = -1
    return [1 if ret else 0, exposed] + trace, consistent, len(log)


def gen_goal_sets(rng, n):
    pools = [
        [1, 2, 3], [3, 1, 2], [-2, 0, 5], [1, 1, 2], [2, 2, 2], [10, -10], [1, 3, 3, 7], [0], [5, 4, 3, 2, 1],
        [Fraction(5, 2), 2, Fraction(-3, 2), -1], [Fraction(7, 2), Fraction(9, 4), 1], [-1, Fraction(-1, 2), Fraction(1, 2)],
    ]
    out = []
    for pr in pools:
        gs = [(p, False, i % 2 == 1) for i, p in enumerate(pr)]
        out.append(gs)
        if len(pr) > 1:
            gs2 = [(p, i == 1, True if i == 1 else i % 2 == 0) for i, p in enumerate(pr)]
            out.append(gs2)
    out.append([])
    out.append([(1, True, True)])
    for _ in range(n):
        k = rng.randint(1, 6)
        gs = []
        for i in range(k):
            p = rng.choice([rng.randint(-4, 6), Fraction(rng.randint(-9, 13), 2), Fraction(rng.randint(-9, 13), 4)])
            path = rng.random() < 0.5
            gs.append((p, rng.choice([True, 2, 3]) if path and rng.random() < 0.25 else False, path))
        out.append(gs)
    out.append([(1, False, True), (2, 2, True), (3, False, False)])
    out.append([(1, False, False), (2, 3, True), (2, 2, True), (4, False, True)])
    return out


def n_prios(gs):
    return len({int(p) for p, e, _ in gs if not e})


def run(ctx):
    replay = os.environ.get("VERIF_REPLAY")
    cases = []
    if replay:
        r = json.load(open(replay))["replay"]
        cases = [(r["variant"], [(Fraction(p), e, pa) for p, e, pa in r["goals"]], r["script"])]
    else:
        for c in core.corpus_cases(ID):
            cases.append((c["variant"], [(Fraction(p), e, pa) for p, e, pa in c["goals"]], c["script"]))
        gsets = gen_goal_sets(ctx.rng, ctx.n(6, 60))
        for gi, gs in enumerate(gsets):
            k = n_prios(gs)
            scripts = list(itertools.product([True, False], repeat=min(k, ctx.n(4, 6))))
            if ctx.quick() and len(scripts) > 8:
                scripts = scripts[:2] + ctx.rng.sample(scripts[2:], 6)
            for vi, v in enumerate(VARIANTS):
                if ctx.quick() and (gi + vi) % 2 == 1 and gi > 8:
                    continue
                for s in scripts:
                    cases.append((v, gs, list(s)))
    rows = []
    for ci, (v, gs, s) in enumerate(cases):
        quiet = ci % 3 == 1
        impl, consistent, nsolves = run_impl(v, gs, s, quiet)
        rows.append(dict(variant=v, goals=[[str(Fraction(p)), e, pa] for p, e, pa in gs], script=s, impl=impl, quiet=quiet,
                         consistent=consistent, gq=[(Fraction(p), bool(e)) for p, e, _ in gs]))
    gl = lambda r: glist(r["gq"], lambda g: "(%s, %s)" % (gq(g[0]), gbool(g[1])))  # noqa: E731
    # goals() are listed before path_goals() by the code (itertools.chain); order is irrelevant to prios
    models = core.eval_terms(ID, ["GpLoop"], ["run_case %s %s" % (gl(r), glist(r["script"], gbool)) for r in rows])
    specs = core.eval_terms(ID + "spec", ["GpLoop", "GpLoopSpec"],
                            ["spec_case %s %s" % (gl(r), glist(r["script"], gbool)) for r in rows])
    for r, m, sp in zip(rows, models, specs):
        nontriv = not all(r["script"][: max(1, n_prios([(Fraction(p), e, pa) for p, e, pa in r["goals"]]))])
        ctx.case_done(json.dumps([r["variant"], r["goals"], r["script"]]), nontriv)
        ctx.count("variant_" + r["variant"])
        ctx.count("ret_%d" % r["impl"][0])
        if nontriv:
            ctx.sample({"variant": r["variant"], "goals": r["goals"], "script": r["script"], "impl": r["impl"], "model": m})
        rep = {"variant": r["variant"], "goals": r["goals"], "script": r["script"], "impl": r["impl"], "log_solver_failure_as_error": not r["quiet"],
               "model": m, "spec": sp, "hook_consistency": r["consistent"]}
        if r["impl"] != sp or not r["consistent"]:
            ctx.violation("gploop/spec-mismatch", rep,
                          what="hooks / return value / exposed results differ from the closed-form C10 specification "
                               "(variant %s goals %s script %s)" % (r["variant"], r["goals"], r["script"]))
        elif r["impl"] != m:
            rep["broken_correspondence"] = "GpLoop.v loop vs optimize(); C10_* theorems no longer apply"
            ctx.violation("gploop/model-mismatch", rep, no_input=True, what="trace differs from the Gallina loop")


# ---- real solver failures through the QP back-ends ------------------------------------------------------------
def real_qp_failures(ctx):
    """a priority that a real QP solver (qpoases / osqp through casadi.qpsol) cannot solve: optimize() returns
    False - it does not raise -, and what is exposed afterwards is the last completed priority"""
    import casadi as ca
    import numpy as np
    from .. import gp
    from . import c17
    for variant in ("multi", "multi_keep_soft", "single_append"):
        for plug, opts in (("qpoases", {"printLevel": "none"}), ("osqp", {"osqp": {"verbose": False}})):
            c = {"k": "run", "times": [0, 1, 2], "E": 1, "p": [0], "variant": variant, "options": {},
                 "goals": [{"path": True, "fn": "y", "prio": 1, "order": 1, "weight": 1, "nominal": 1, "tmin": 1.0},
                           {"path": True, "fn": "z", "prio": 2, "critical": True, "tmin": 25.0}]}

            def work():
                p, snaps, _ = gp.build(c, qp=(plug, ca.qpsol, opts))
                try:
                    r = p.optimize()
                except Exception as e:  # noqa: BLE001
                    return {"raised": "%s: %s" % (type(e).__name__, str(e)[:160])}
                out = {"returned": bool(r), "completed": len(snaps)}
                if snaps:
                    out["same"] = bool(np.allclose(p.extract_results(0)["y"], snaps[-1]["results"][0]["y"], atol=1e-9))
                return out
            k, val = c17.in_child(work, timeout=120)
            ctx.count("real_qp_failure_runs")
            ctx.case_done(core.fingerprint(["real-qp-failure", variant, plug]), True)
            if k != "ok":
                ctx.count("real_qp_failure_child_" + k)
                continue
            want_completed = 1 if variant.startswith("multi") else 0      # (single pass: all hard constraints are there from the start)
            if "raised" in val or val["returned"] or val["completed"] != want_completed or val.get("same") is False:
                ctx.violation("gploop/real-failure", {"case": c, "plugin": plug, "outcome": val},
                              what="%s with %s on an unsolvable priority: %s (expected: returns False after %d completed priorities, results of the last completed one)" % (
                                  variant, plug, val, want_completed))


_run_core = run


def run(ctx):  # noqa: F811
    _run_core(ctx)
    if not os.environ.get("VERIF_REPLAY"):
        real_qp_failures(ctx)
