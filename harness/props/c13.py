"""C13 — aliases are transparent: AliasDict op sequences against the Coq model and class-map spec."""
import json
import os
from fractions import Fraction

from .. import core
from ..core import gz, gbool, glist

ID = "C13"
PROPS_FILE = "props/C13.v"
MODEL_FILES = ["AliasDict", "AliasDictSpec"]
RULE = ("random alias graphs (chains, negations, several aliases per class) built with the real "
        "AliasRelation; random operation sequences (set/get/del/contains/len/keys/get-default/"
        "setdefault/update/items) on the real AliasDict with int, (min,max)-tuple and list values, "
        "both signed_values modes; a case is non-trivial when a negated alias of a multi-member "
        "class is read or written; distinct = distinct (relation, op-kind sequence) shapes.  Consumers: "
        "pymoca-compiled models with plain / negated / chained aliases of a bounded, scaled state; bounds(), "
        "variable_nominal(), variable_is_discrete() and StateGoal (function_range, function_nominal, function_key, "
        "function) asked through every name and compared with the class-map rule (pairs swap and negate, "
        "magnitudes stay positive)")
MODELLED = "src/rtctools/_internal/alias_tools.py AliasDict (all methods except __repr__/values)"
NOT_MODELLED = "pymoca AliasRelation (third party; its canonical_signed table is an input, sanity-checked by an independent union-find), OrderedSet"
ASSUMPTIONS = ["keys are strings numbered by the harness; values are integers so comparison is exact"]


# ---- generation ------------------------------------------------------------------------------
def gen_case(rng):
    n = rng.randint(2, 6)
    adds = []
    for _ in range(rng.randint(0, n + 1)):
        a, b = rng.sample(range(1, n + 1), 2)
        if rng.random() < 0.45:
            b = -b
        if rng.random() < 0.15:
            a = -a
        adds.append([a, b])
    signed = rng.random() < 0.8
    ops = []
    for _ in range(rng.randint(3, 22)):
        ops.append(gen_op(rng, n))
    return {"n": n, "adds": adds, "signed": signed, "ops": ops}


def gen_val(rng):
    r = rng.random()
    if r < 0.45:
        return ["i", rng.randint(-9, 9)]
    if r < 0.8:
        a = rng.randint(-9, 9)
        return ["p", a, a + rng.randint(0, 6)]
    return ["l", [rng.randint(-5, 5) for _ in range(rng.randint(0, 3))]]


def gen_key(rng, n):
    k = rng.randint(1, n)
    return -k if rng.random() < 0.3 else k


def gen_op(rng, n):
    r = rng.random()
    k = gen_key(rng, n)
    if r < 0.34:
        return ["set", k, gen_val(rng)]
    if r < 0.55:
        return ["get", k]
    if r < 0.63:
        return ["del", k]
    if r < 0.70:
        return ["contains", k]
    if r < 0.75:
        return ["len"]
    if r < 0.80:
        return ["keys"]
    if r < 0.86:
        return ["getdefault", k, gen_val(rng)]
    if r < 0.92:
        return ["setdefault", k, gen_val(rng)]
    if r < 0.97:
        return ["update", [[gen_key(rng, n), gen_val(rng)] for _ in range(rng.randint(0, 3))]]
    return ["items"]


# ---- names -------------------------------------------------------------------------------------
def name(k):
    return ("-v%d" % -k) if k < 0 else ("v%d" % k)


def key_of(nm):
    return -int(nm[2:]) if nm.startswith("-") else int(nm[1:])


def pyval(v):
    if v[0] == "i":
        return v[1]
    if v[0] == "p":
        return (v[1], v[2])
    return list(v[1])


def ser_val(v):
    if isinstance(v, tuple):
        return [1, v[0], v[1]]
    if isinstance(v, list):
        return [2, len(v)] + list(v)
    return [0, v]


def gval(v):
    if v[0] == "i":
        return "(VInt %s)" % gz(v[1])
    if v[0] == "p":
        return "(VPair %s %s)" % (gz(v[1]), gz(v[2]))
    return "(VList %s)" % glist(v[1], gz)


def gop(o):
    t = o[0]
    if t == "set":
        return "OSet %s %s" % (gz(o[1]), gval(o[2]))
    if t == "get":
        return "OGet %s" % gz(o[1])
    if t == "del":
        return "ODel %s" % gz(o[1])
    if t == "contains":
        return "OContains %s" % gz(o[1])
    if t == "len":
        return "OLen"
    if t == "keys":
        return "OKeys"
    if t == "getdefault":
        return "OGetDefault %s %s" % (gz(o[1]), gval(o[2]))
    if t == "setdefault":
        return "OSetDefault %s %s" % (gz(o[1]), gval(o[2]))
    if t == "update":
        return "OUpdate %s" % glist(o[1], lambda kv: "(%s, %s)" % (gz(kv[0]), gval(kv[1])))
    if t == "items":
        return "OItems"
    raise ValueError(t)


# ---- implementation side ----------------------------------------------------------------------
def build_relation(case):
    from rtctools._internal.alias_tools import AliasRelation

    rel = AliasRelation()
    for a, b in case["adds"]:
        rel.add(name(a), name(b))
    return rel


def relation_table(case, rel):
    tbl = []
    for k in list(range(1, case["n"] + 1)) + [-k for k in range(1, case["n"] + 1)]:
        c, s = rel.canonical_signed(name(k))
        tbl.append((k, key_of(c), s < 0))
    return tbl


def uf_check(case, tbl):
    """independent union-find with parity: the relation must identify exactly the added pairs"""
    n = case["n"]
    parent = {k: (k, False) for k in range(1, n + 1)}

    def find(x):
        neg = x < 0
        x = abs(x)
        p, s = parent[x]
        if p == x:
            return x, neg
        r, s2 = find(p)
        parent[x] = (r, s ^ s2)
        return r, neg ^ s ^ s2

    for a, b in case["adds"]:
        ra, sa = find(a)
        rb, sb = find(b)
        if ra != rb:
            parent[rb] = (ra, sa ^ sb)
    canon = {k: (c, s) for k, c, s in tbl}
    for k1 in canon:
        for k2 in canon:
            r1, s1 = find(k1)
            r2, s2 = find(k2)
            same = r1 == r2
            if same != (canon[k1][0] == canon[k2][0]):
                return False
            if same and ((s1 ^ s2) != (canon[k1][1] ^ canon[k2][1])):
                # contradictory relations (a = -a) are not generated on purpose, but may arise
                return None
    return True


def run_impl(case):
    from rtctools._internal.alias_tools import AliasDict

    rel = build_relation(case)
    d = AliasDict(rel, signed_values=case["signed"])
    outs = []
    spec_outs = []
    for o in case["ops"]:
        t = o[0]
        try:
            if t == "set":
                d[name(o[1])] = pyval(o[2])
                r = [10]
            elif t == "get":
                r = [12] + ser_val(d[name(o[1])])
            elif t == "del":
                del d[name(o[1])]
                r = [10]
            elif t == "contains":
                r = [13, 1 if name(o[1]) in d else 0]
            elif t == "len":
                r = [14, len(d)]
            elif t == "keys":
                ks = [key_of(k) for k in d.keys()]
                if ks != [key_of(k) for k in d]:
                    r = [99]
                else:
                    r = [15, len(ks)] + ks
            elif t == "getdefault":
                r = [12] + ser_val(d.get(name(o[1]), pyval(o[2])))
            elif t == "setdefault":
                r = [12] + ser_val(d.setdefault(name(o[1]), pyval(o[2])))
            elif t == "update":
                d.update({name(k): pyval(v) for k, v in dedupe(o[1])})
                r = [10]
            elif t == "items":
                r = [16] + ser_items(d)
        except KeyError:
            r = [11]
        outs += r
        spec_outs += [19] if t in ("len", "keys", "items") else r
    final = ser_items(d)
    probe = []
    for k in probe_keys(case):
        nm = name(k)
        if nm in d:
            probe += [12] + ser_val(d[nm])
        else:
            probe += [11]
    extra_ok = len(d) == len(list(d.keys())) == len(set(d.keys()))
    c = d.copy()
    copy_ok = ser_items(c) == final
    return outs + final, spec_outs + probe, extra_ok and copy_ok


def dedupe(kvs):
    # a python dict literal keeps the last value of a repeated key but the first position
    seen = {}
    for k, v in kvs:
        seen[k] = v
    return list(seen.items())


def ser_items(d):
    out = [len(d)]
    for k, v in d.items():
        out += [key_of(k)] + ser_val(v)
    return out


def probe_keys(case):
    return list(range(1, case["n"] + 1)) + [-k for k in range(1, case["n"] + 1)]


# ---- model side --------------------------------------------------------------------------------
def gtable(tbl):
    return glist(tbl, lambda e: "(%s, (%s, %s))" % (gz(e[0]), gz(e[1]), gbool(e[2])))


def model_ops(case):
    ops = []
    for o in case["ops"]:
        if o[0] == "update":
            o = ["update", [[k, v] for k, v in dedupe([tuple(kv) for kv in o[1]])]]
        ops.append(o)
    return ops


def model_term(case, tbl):
    return "run_case %s %s %s" % (gtable(tbl), gbool(case["signed"]), glist(model_ops(case), gop))


def spec_term(case, tbl):
    return "spec_case %s %s %s %s" % (gtable(tbl), gbool(case["signed"]), glist(model_ops(case), gop),
                                      glist(probe_keys(case), gz))


def nontrivial(case, tbl):
    canon = {k: (c, s) for k, c, s in tbl}
    size = {}
    for k, (c, s) in canon.items():
        size[c] = size.get(c, 0) + 1
    for o in case["ops"]:
        if o[0] in ("set", "get", "getdefault", "setdefault"):
            c, s = canon[o[1]]
            if s and size[c] > 2:
                return True
    return False


def shape(case, tbl):
    return json.dumps([sorted((k, c, s) for k, c, s in tbl), case["signed"], [o[0] for o in case["ops"]]])


# ---- driver ------------------------------------------------------------------------------------
def evaluate(ctx, cases, tag):
    """returns list of (case, tbl, impl, impl_spec, model) for comparable cases"""
    rows = []
    for case in cases:
        try:
            rel = build_relation(case)
        except AssertionError:
            ctx.count("skipped_contradictory_relation")
            continue
        tbl = relation_table(case, rel)
        ok = uf_check(case, tbl)
        if ok is None:
            ctx.count("skipped_contradictory_relation")
            continue
        if ok is False:
            raise core.CheckError("pymoca AliasRelation disagrees with union-find on %r" % (case["adds"],))
        impl, impl_spec, extra_ok = run_impl(case)
        rows.append([case, tbl, impl, impl_spec, extra_ok])
    terms = [model_term(c, t) for c, t, _, _, _ in rows]
    vals = core.eval_terms(ID + tag, ["AliasDict"], terms) if terms else []
    for r, v in zip(rows, vals):
        r.append(v)
    return rows


def judge(ctx, bad_rows):
    """model != impl on these rows: ask the specification (Coq) whether the property itself fails"""
    terms = [spec_term(c, t) for c, t, *_ in bad_rows]
    try:
        specs = core.eval_terms(ID + "spec", ["AliasDict", "AliasDictSpec"], terms)
    except core.CheckError:
        specs = [None] * len(bad_rows)
    for (case, tbl, impl, impl_spec, extra_ok, model), spec in zip(bad_rows, specs):
        replay = {"case": case, "relation_table": tbl, "impl": impl, "model": model,
                  "impl_spec_view": impl_spec, "spec": spec,
                  "how": "./check C13 --replay <this file>"}
        if spec is not None and (spec != impl_spec or not extra_ok):
            ctx.violation("aliasdict/spec-mismatch", replay,
                          what="AliasDict disagrees with the class-map specification (C13_refines_class_map)")
        else:
            replay["broken_correspondence"] = "AliasDict.v run_case vs alias_tools.AliasDict; theorems C13_* no longer apply to the code"
            ctx.violation("aliasdict/model-mismatch", replay, no_input=True,
                          what="AliasDict differs from the Coq model although the specified outputs agree")


def cand(case):
    for i in range(len(case["ops"])):
        c = dict(case)
        c["ops"] = case["ops"][:i] + case["ops"][i + 1:]
        yield c
    for i in range(len(case["adds"])):
        c = dict(case)
        c["adds"] = case["adds"][:i] + case["adds"][i + 1:]
        yield c


def run(ctx):
    replay = os.environ.get("VERIF_REPLAY")
    cases = []
    if replay:
        cases = [json.load(open(replay))["replay"]["case"]]
    else:
        cases += core.corpus_cases(ID)
        n = ctx.n(600, 24000)
        for _ in range(n):
            cases.append(gen_case(ctx.rng))
    rows = evaluate(ctx, cases, "")
    bad = []
    for case, tbl, impl, impl_spec, extra_ok, model in rows:
        ctx.count("signed" if case["signed"] else "unsigned")
        ctx.count("ops", len(case["ops"]))
        for o in case["ops"]:
            ctx.count("op_" + o[0])
        ctx.case_done(shape(case, tbl), nontrivial(case, tbl))
        ctx.sample({"case": case, "relation_table": tbl, "impl": impl, "model": model})
        if impl != model or not extra_ok:
            bad.append([case, tbl, impl, impl_spec, extra_ok, model])
    if bad:
        # shrink the first disagreement, keep it in the replay
        def mismatch_batch(cs):
            rs = evaluate(ctx, cs, "shrink")
            m = {json.dumps(r[0], sort_keys=True): (r[2] != r[5] or not r[4]) for r in rs}
            return [m.get(json.dumps(c, sort_keys=True), False) for c in cs]

        small = core.shrink(bad[0][0], cand, mismatch_batch)
        rs = evaluate(ctx, [small], "min")
        judge(ctx, rs + bad[:3])


# ---- consumers of the alias dictionaries: a goal on an alias is the goal on the variable ------------------
def consumer_case(spec):
    """runs in a worker: a pymoca-compiled model with plain / negated / chained aliases; StateGoals and the
    problem's own accessors asked through every name"""
    import logging
    import shutil
    import tempfile
    import warnings
    fd = os.open(os.devnull, os.O_WRONLY)
    os.dup2(fd, 1)
    os.dup2(fd, 2)
    warnings.filterwarnings("ignore")
    logging.disable(logging.CRITICAL)
    import casadi as ca
    from rtctools.optimization.collocated_integrated_optimization_problem import CollocatedIntegratedOptimizationProblem
    from rtctools.optimization.goal_programming_mixin import GoalProgrammingMixin, StateGoal
    from rtctools.optimization.modelica_mixin import ModelicaMixin
    base = tempfile.mkdtemp(prefix="verif_c13_")
    try:
        lines = ["model A", "  Real x(min=%r, max=%r, nominal=%r, start=0.0, fixed=true);" % (spec["lo"], spec["hi"], spec["nominal"])]
        for nm, _ in spec["aliases"]:
            lines.append("  Real %s;" % nm)
        lines += ["  input Real u(fixed=false, min=-1.0, max=1.0);", "equation", "  der(x) = u;"]
        for nm, (target, sign) in spec["aliases"]:
            lines.append("  %s = %s%s;" % (nm, "-" if sign < 0 else "", target))
        lines.append("end A;")
        with open(os.path.join(base, "A.mo"), "w") as fh:
            fh.write("\n".join(lines) + "\n")

        class P(GoalProgrammingMixin, ModelicaMixin, CollocatedIntegratedOptimizationProblem):
            def times(self, variable=None):
                import numpy as np
                return np.array([0.0, 1.0, 2.0])

            def compiler_options(self):
                o = super().compiler_options()
                o["cache"] = False
                return o

        p = P(model_folder=base, model_name="A")
        out = {}
        for nm in ["x"] + [a for a, _ in spec["aliases"]]:
            class G(StateGoal):
                state = nm
                priority = 1
                target_min = spec["tmin"][nm]
                target_max = spec["tmax"][nm]
            o = {}
            try:
                g = G(p)
                o["range"] = [float(g.function_range[0]), float(g.function_range[1])]
                o["nominal"] = float(g.function_nominal)
                o["key"] = g.function_key
                xs = p.dae_variables["states"][0]
                f = ca.Function("f", [xs], [g.function(p, 0)])
                o["at_one"] = float(f(1.0))
            except Exception as e:  # noqa: BLE001
                o["error"] = "%s: %s" % (type(e).__name__, str(e)[:120])
            try:
                b = p.bounds()[nm]
                o["bounds"] = [float(b[0]), float(b[1])]
                o["var_nominal"] = float(p.variable_nominal(nm))
                o["discrete"] = bool(p.variable_is_discrete(nm))
            except Exception as e:  # noqa: BLE001
                o["error2"] = "%s: %s" % (type(e).__name__, str(e)[:120])
            out[nm] = o
        return out
    except Exception as e:  # noqa: BLE001
        return {"error": "%s: %s" % (type(e).__name__, str(e)[:200])}
    finally:
        shutil.rmtree(base, ignore_errors=True)


def gen_consumer(rng):
    lo = float(rng.randint(-8, -1))
    hi = float(rng.randint(2, 12))
    nominal = float(rng.choice([1, 2, 10, 0.5]))
    names, signs, aliases = ["x"], {"x": 1}, []
    for i in range(rng.randint(1, 3)):
        target = rng.choice(names)
        sign = rng.choice([1, -1, -1])
        nm = "%s_%d" % ("neg" if sign < 0 else "same", i)
        aliases.append([nm, [target, sign]])
        names.append(nm)
        signs[nm] = signs[target] * sign
    tmin, tmax = {}, {}
    for nm in names:
        a, b = (lo, hi) if signs[nm] > 0 else (-hi, -lo)
        tmin[nm] = a + (b - a) * 0.25
        tmax[nm] = a + (b - a) * 0.75
    return {"lo": lo, "hi": hi, "nominal": nominal, "aliases": aliases, "signs": signs, "tmin": tmin, "tmax": tmax}


def run_consumers(ctx):
    from concurrent.futures import ProcessPoolExecutor
    specs = [gen_consumer(ctx.rng) for _ in range(ctx.n(10, 300))]
    with ProcessPoolExecutor(max_workers=10) as ex:
        results = list(ex.map(consumer_case, specs))
    for spec, res in zip(specs, results):
        ctx.case_done(core.fingerprint(["consumer", [a[1][1] for a in spec["aliases"]], sorted(spec["signs"].values())]), True)
        ctx.count("consumer_models")
        if "error" in res:
            ctx.violation("consumer/exception", {"spec": spec, "error": res["error"]}, no_input=True, what="alias model could not be loaded: %s" % res["error"][:100])
            continue
        for nm, o in res.items():
            sg = spec["signs"][nm]
            exp_range = [spec["lo"], spec["hi"]] if sg > 0 else [-spec["hi"], -spec["lo"]]
            rep = {"spec": spec, "name": nm, "sign": sg, "observed": o, "expected_range": exp_range}
            if "error" in o or "error2" in o:
                ctx.violation("consumer/goal-rejected", rep, what="a StateGoal / accessor through alias %s (sign %+d) failed: %s" % (nm, sg, o.get("error", o.get("error2"))))
                continue
            if o["range"] != exp_range or o["bounds"] != exp_range:
                ctx.violation("consumer/range", rep, what="through alias %s (sign %+d) the bounds are %s / goal range %s, expected %s" % (nm, sg, o["bounds"], o["range"], exp_range))
            if o["nominal"] != spec["nominal"] or o["var_nominal"] != spec["nominal"]:
                ctx.violation("consumer/nominal", rep, what="through alias %s the nominal is %s / %s, expected the positive %s" % (nm, o["var_nominal"], o["nominal"], spec["nominal"]))
            if o["at_one"] != float(sg) or o["key"] != ("x" if sg > 0 else "-x") or o["discrete"]:
                ctx.violation("consumer/function", rep, what="goal on alias %s: f(x=1) = %s, key %s (sign %+d)" % (nm, o["at_one"], o["key"], sg))


_run_core = run


def run(ctx):  # noqa: F811
    _run_core(ctx)
    if not os.environ.get("VERIF_REPLAY"):
        run_consumers(ctx)


# ---- trajectories and simulation variables through aliases ----------------------------------------------------
def trajectory_and_simulation_aliases(ctx):
    """(a) optimisation accessors (state_at, der_at, states_in, integral) through a negated and a plain alias,
    windows with ends on and off the grid and inside the history, stored history untouched (shared with C15);
    (b) simulation: set_var / get_var through aliases of states, algebraic variables and inputs"""
    from concurrent.futures import ProcessPoolExecutor
    from . import c09, c15
    c15.alias_checks(ctx)
    rng = ctx.rng
    specs = []
    k = 0
    while len(specs) < ctx.n(5, 100):
        k += 1
        m = c09.gen_model(rng, 3000 + k)
        if m["aliases"]:
            specs.append(m)
    specs += c09.alias_initial_state_specs()
    with ProcessPoolExecutor(max_workers=8) as ex:
        results = list(ex.map(c09.safe_run, specs))
    for spec, res in zip(specs, results):
        ctx.case_done(core.fingerprint(["sim-alias", spec["name"][:6], [a[1][0] + str(a[2]) for a in spec["aliases"]]]), True)
        ctx.count("simulation_alias_models")
        if "error" in res or res.get("raised"):
            ctx.count("simulation_alias_unsolved")
            continue
        for a, tgt, sign in spec["aliases"]:
            for o in res["obs"]:
                if abs(o[a] - sign * o[tgt]) > 1e-7 * (1 + abs(o[tgt])):
                    ctx.violation("simalias/read", {"spec": spec, "alias": a, "observation": o}, what="simulation: alias %s does not read %+d * %s" % (a, sign, tgt))
                    break
        # recorded / exported outputs through an alias: the (signed) values of the variable at every step
        ex = res.get("exported") or {}
        for a, tgt, sign in spec["aliases"]:
            if a in ex:
                want = [sign * o[tgt] for o in res["obs"]]
                if len(ex[a]) != len(want) or any(abs(x - y) > 1e-5 * (1 + abs(y)) for x, y in zip(ex[a], want)):
                    ctx.violation("simalias/recorded-output", {"spec": spec, "alias": a, "exported": ex[a], "expected": want},
                                  what="simulation: output %s (= %+d * %s) recorded as %s, the steps gave %s" % (a, sign, tgt, ex[a], want))
        for nm, val in spec.get("free_start", {}).items():
            got = res["obs"][0][nm]
            if abs(got - float(Fraction(val))) > 1e-7:
                ctx.violation("simalias/initial-state", {"spec": spec, "variable": nm, "expected": val, "got": got},
                              what="simulation: initial_state.csv %s gives %s = %s at t0, expected %s" % (spec["initial_state_csv"], nm, got, val))
        for nm, want, got in res["setget"]:
            if abs(want - got) > 1e-9:
                ctx.violation("simalias/write", {"spec": spec, "variable": nm, "expected": want, "got": got},
                              what="simulation: %s reads %s, expected %s" % (nm, got, want))


_run_core2 = run


def run(ctx):  # noqa: F811
    _run_core2(ctx)
    if not os.environ.get("VERIF_REPLAY"):
        trajectory_and_simulation_aliases(ctx)
