"""C12 — one time axis relative to t0; exports contain the results at the right times."""
import datetime
import json
import math
import os
import shutil
import tempfile
from concurrent.futures import ProcessPoolExecutor
from fractions import Fraction

import numpy as np

from .. import core, pifiles
from ..core import gq, glist, goption, gz
from ..pifiles import T0, dts

ID = "C12"
PROPS_FILE = "props/C12.v"
MODEL_FILES = ["Xq", "TimeAxis"]
RULE = ("generated input folders for the CSV, PI and NetCDF optimisation mixins and the CSV and PI simulation mixins "
        "(equidistant axes of 4-9 stamps with steps of 15 min .. 2 days, the forecast time at any position of the axis "
        "for PI, 1-3 ensemble members, series with gaps, <var>_Min / <var>_Max series, history columns) around one small "
        "Modelica model; after pre(): io.datetimes, io.times_sec, times(), history(), bounds(), get_timeseries() for "
        "every member are compared with TimeAxis.v evaluated in Coq; sequences of set_timeseries (plain values, full, "
        "partial and non-contiguous time stamps) followed by get_timeseries; after optimize() / simulate() the exported "
        "file is re-read and its time stamps and values are compared with extract_results() at times(), and the "
        "abstract tables of the three back-ends are compared with each other on the same data.  non-trivial = forecast "
        "time inside the axis, several members or a set/get sequence; distinct = abstracted case shapes"
        ' Also: plain values shorter than the horizon, data-store operation sequences with members in any order, per-member initial_state.csv in CSV ensembles.')
MODELLED = ("storage.py datetime/seconds conversion, optimization/io_mixin.py times/history/bounds/set_timeseries alignment, export "
            "row assembly of csv_mixin/pi_mixin/netcdf_mixin, simulation/io_mixin.py input feed and output record")
NOT_MODELLED = ("the optimiser and the simulator themselves (their results are the reference for the exported values); file codecs "
                "(C11); interpolation of variables with their own grid in the writers (not generated: all variables share the axis)")
ASSUMPTIONS = ["the reference datetime is one of the datetimes (the data store requires it)"]

MODEL = """model Exp
  Real x(min=-50.0, max=50.0);
  input Real u(fixed=false, min=-4.0, max=4.0);
  input Real q(fixed=true);
  output Real y;
  output Real z;
equation
  der(x) = (q - u) / %s;
  y = x + u;
  z = 2.0 * q;
end Exp;
"""

SIM_MODEL = """model ExpS
  Real x(start=0.5, fixed=true);
  input Real q;
  output Real y;
  output Real w;
equation
  der(x) = q / %s;
  y = 2.0 * q + 1.0;
  w = x;
end ExpS;
"""

VARS = [{"id": "x", "location": "L", "parameter": "X"}, {"id": "u", "location": "L", "parameter": "U"},
        {"id": "q", "location": "L", "parameter": "Q"}, {"id": "y", "location": "L", "parameter": "Y"},
        {"id": "z", "location": "L", "parameter": "Z"}, {"id": "w", "location": "L", "parameter": "W"},
        {"id": "u_Min", "location": "L", "parameter": "UMIN"}, {"id": "u_Max", "location": "L", "parameter": "UMAX", "qualifiers": ["qq"]},
        {"id": "x_Max", "location": "L", "parameter": "XMAX"}, {"id": "extra", "location": "M", "parameter": "E"},
        {"id": "added", "location": "M", "parameter": "A"}]


def gen_case(rng, kind=None, backend=None):
    kind = kind or rng.choice(["opt", "opt", "opt", "sim"])
    backend = backend or (rng.choice(["csv", "pi", "netcdf"]) if kind == "opt" else rng.choice(["csv", "pi"]))
    dt = rng.choice([900, 3600, 7200, 86400, 172800])
    n = rng.randint(4, 9)
    start = rng.choice([0, 3600, -86400, 86400 * 3])
    axis = [start + i * dt for i in range(n)]
    k = rng.randint(0, n - 3) if backend == "pi" else 0
    E = rng.choice([1, 1, 2, 3]) if (kind == "opt" and backend != "csv") else (rng.choice([1, 1, 2]) if kind == "opt" else 1)

    def col(lo, hi, gap=0.0, den=4):
        return [None if rng.random() < gap else str(Fraction(rng.randint(lo * den, hi * den), den)) for _ in range(n)]
    series = {}
    for m in range(E):
        s = {"q": col(-2, 2)}
        xs = col(-3, 3)
        # history of x: known up to t0, unknown afterwards
        s["x"] = [xs[i] if i <= k else None for i in range(n)]
        if rng.random() < 0.7:
            s["u_Min"] = [None if v is None else str(-abs(Fraction(v)) - 1) for v in col(0, 2, gap=0.2)]
        if rng.random() < 0.7:
            s["u_Max"] = [None if v is None else str(abs(Fraction(v)) + 1) for v in col(0, 2, gap=0.2)]
        if rng.random() < 0.4:
            s["x_Max"] = [None if v is None else str(abs(Fraction(v)) + 20) for v in col(0, 5, gap=0.2)]
        if rng.random() < 0.5:
            s["extra"] = col(-9, 9, gap=0.2)
        series[str(m)] = s
    # members share the bound series (bounds are read from member 0)
    ops = []
    h = n - k
    for _ in range(rng.choice([0, 1, 2, 3])):
        r = rng.random()
        m = rng.randrange(E)
        if r < 0.2:
            ops.append({"op": "plain", "member": m, "values": [str(Fraction(rng.randint(-20, 20), 2)) for _ in range(h)]})
        elif r < 0.35:
            # fewer values than the horizon, consistency check off: they still start at t0
            ops.append({"op": "plain_partial", "member": m, "values": [str(Fraction(rng.randint(-20, 20), 2)) for _ in range(rng.randint(1, max(1, h - 1)))]})
        elif r < 0.55:
            ops.append({"op": "full", "member": m, "values": [str(Fraction(rng.randint(-20, 20), 2)) for _ in range(n)]})
        elif r < 0.85:
            a = rng.randrange(n)
            b = rng.randrange(a, n)
            ops.append({"op": "part", "member": m, "from": a, "to": b, "values": [str(Fraction(rng.randint(-20, 20), 2)) for _ in range(b - a + 1)]})
        else:
            idx = sorted(rng.sample(range(n), rng.randint(2, max(2, n - 2))))
            ops.append({"op": "subset", "member": m, "indices": idx, "values": [str(Fraction(rng.randint(-20, 20), 2)) for _ in idx]})
    spec = {"kind": kind, "backend": backend, "dt": dt, "axis": axis, "k": k, "E": E, "series": series, "ops": ops if kind == "opt" else []}
    if kind == "sim" and rng.random() < 0.5:
        # manual stepping with steps that span several import intervals
        left, mult = n - 1 - k, []
        while left > 0:
            m = min(left, rng.choice([1, 2, 1, 3]))
            mult.append(m)
            left -= m
        spec["multiples"] = mult
    if kind == "opt" and backend == "csv" and rng.random() < 0.6:
        # initial_state.csv for some of the members only: it overrides that member's history at t0
        spec["initial_state"] = [None if rng.random() < 0.45 else {"x": str(Fraction(rng.randint(-12, 12), 4))} for _ in range(E)]
    return spec


def maybe_shared(spec):
    """NetCDF ensembles: some variables stored once for all members (no realization dimension), among them the
    first variable of the file; own random stream"""
    import random
    r2 = random.Random(json.dumps(spec, sort_keys=True, default=str))
    if spec["backend"] != "netcdf" or spec["E"] < 2 or r2.random() < 0.4:
        return spec
    names = sorted({nm for m in range(spec["E"]) for nm in spec["series"][str(m)]})
    cand = [nm for nm in names if nm in spec["series"]["0"]]
    shared = [nm for nm in cand if r2.random() < 0.4]
    if names[0] in cand and names[0] not in shared and len(names) > 1:
        shared.append(names[0])
    if len(shared) == len(names):
        shared = shared[:-1]
    for nm in shared:
        for m in range(1, spec["E"]):
            spec["series"][str(m)][nm] = list(spec["series"]["0"][nm])
    spec["nc_shared"] = sorted(shared)
    return spec


def maybe_subset(spec, p=0.3, force=False):
    """optimise on a subset of the imported stamps (times() override): own random stream"""
    import random
    r2 = random.Random(json.dumps(spec, sort_keys=True, default=str))
    h = len(spec["axis"]) - spec["k"]
    if spec["kind"] != "opt" or h < 4 or not (force or r2.random() < p):
        return spec
    if force:
        idx = [0, 1, 2] + list(range(4, h, 2))
        if idx[-1] != h - 1:
            idx.append(h - 1)
    else:
        idx = [0] + sorted(r2.sample(range(1, h - 1), r2.randint(1, h - 3))) + [h - 1]
    spec["times_subset"] = idx
    # series offered for export keep their explicit stamps (those given without stamps refer to times())
    spec["ops"] = [o for o in spec["ops"] if o["op"] in ("full", "part")]
    if force and not spec["ops"]:
        spec["ops"] = [{"op": "full", "member": 0, "values": [str(Fraction(7 * i - 9, 2)) for i in range(len(spec["axis"]))]}]
    return spec


# ---- input folders ---------------------------------------------------------------------------------------
def fl(v):
    return float("nan") if v is None else float(Fraction(v))


def write_csv_folder(folder, spec, m):
    os.makedirs(folder, exist_ok=True)
    ini = (spec.get("initial_state") or [None] * spec["E"])[m]
    if ini:
        with open(os.path.join(folder, "initial_state.csv"), "w") as fh:
            fh.write(",".join(ini) + "\n" + ",".join(repr(fl(v)) for v in ini.values()) + "\n")
    s = spec["series"][str(m)]
    names = list(s)
    with open(os.path.join(folder, "timeseries_import.csv"), "w") as fh:
        fh.write(",".join(["Time"] + names) + "\n")
        for i, t in enumerate(spec["axis"]):
            fh.write(",".join([dts(t).strftime("%Y-%m-%d %H:%M:%S")] + ["" if s[nm][i] is None else repr(fl(s[nm][i])) for nm in names]) + "\n")


def write_inputs(spec, base):
    mdl, inp, outp = (os.path.join(base, d) for d in ("model", "input", "output"))
    for d in (mdl, inp, outp):
        os.makedirs(d)
    name = "Exp" if spec["kind"] == "opt" else "ExpS"
    with open(os.path.join(mdl, name + ".mo"), "w") as fh:
        fh.write((MODEL if spec["kind"] == "opt" else SIM_MODEL) % repr(float(spec["dt"])))
    b = spec["backend"]
    if b == "csv":
        if spec["E"] > 1:
            with open(os.path.join(inp, "ensemble.csv"), "w") as fh:
                fh.write("name,probability\n")
                for m in range(spec["E"]):
                    fh.write("member%d,%r\n" % (m, 1.0 / spec["E"]))
                    write_csv_folder(os.path.join(inp, "member%d" % m), spec, m)
                    os.makedirs(os.path.join(outp, "member%d" % m))
        else:
            write_csv_folder(inp, spec, 0)
    elif b == "pi":
        pifiles.write_data_config(inp, VARS)
        with open(os.path.join(inp, "rtcParameterConfig.xml"), "w") as fh:
            fh.write(pifiles.parameter_xml([]))
        series = []
        byid = {v["id"]: v for v in VARS}
        for m in range(spec["E"]):
            for nm, vals in spec["series"][str(m)].items():
                series.append({"var": byid[nm], "member": m if spec["E"] > 1 else None, "start": spec["axis"][0], "end": spec["axis"][-1],
                               "forecast": spec["axis"][spec["k"]], "times": spec["axis"], "values": vals, "unit": "m", "miss": "-999.0"})
        pifiles.write_pi(inp, "timeseries_import", {"dt": spec["dt"], "timezone": "0.0", "series": series})
    elif b == "netcdf":
        from netCDF4 import Dataset
        ds = Dataset(os.path.join(inp, "timeseries_import.nc"), "w", format="NETCDF3_CLASSIC")
        ds.createDimension("time", None)
        ds.createDimension("station", 1)
        ds.createDimension("char_leng_id", 3)
        if spec["E"] > 1:
            ds.createDimension("realization", spec["E"])
            rv = ds.createVariable("realization", "i", ("realization",))
            rv.standard_name = "realization"
            rv[:] = list(range(spec["E"]))
        tv = ds.createVariable("time", "f8", ("time",))
        tv.standard_name = "time"
        tv.units = "seconds since 2020-01-01 00:00:00"
        tv.axis = "T"
        tv[:] = [float(t) for t in spec["axis"]]
        sv = ds.createVariable("station_id", "c", ("station", "char_leng_id"))
        sv.cf_role = "timeseries_id"
        sv[0, :] = np.array(list("loc"), dtype="S1")
        names = sorted({nm for m in range(spec["E"]) for nm in spec["series"][str(m)]})
        for nm in names:
            if spec["E"] > 1 and nm in spec.get("nc_shared", []):
                # one series for all members: no realization dimension
                v = ds.createVariable(nm, "f8", ("time", "station"), fill_value=np.nan)
                v[:, 0] = [fl(x) for x in spec["series"]["0"][nm]]
            elif spec["E"] > 1:
                v = ds.createVariable(nm, "f8", ("time", "station", "realization"), fill_value=np.nan)
                for m in range(spec["E"]):
                    vals = spec["series"][str(m)].get(nm, [None] * len(spec["axis"]))
                    v[:, 0, m] = [fl(x) for x in vals]
            else:
                v = ds.createVariable(nm, "f8", ("time", "station"), fill_value=np.nan)
                v[:, 0] = [fl(x) for x in spec["series"]["0"][nm]]
        ds.close()
    return dict(model_folder=mdl, model_name=name, input_folder=inp, output_folder=outp)


def fval(x):
    x = float(x)
    if math.isnan(x):
        return None
    if x >= 1e300:
        return "inf"
    if x <= -1e300:
        return "-inf"
    return x


def secs(t):
    return int((t - T0).total_seconds())


# ---- implementation runs ---------------------------------------------------------------------------------------
def read_export(spec, kwargs, outputs):
    b = spec["backend"]
    out = {}
    if b == "csv":
        import rtctools.data.csv as rcsv
        for m in range(spec["E"]):
            folder = os.path.join(kwargs["output_folder"], "member%d" % m) if spec["E"] > 1 else kwargs["output_folder"]
            d = np.atleast_1d(rcsv.load(os.path.join(folder, "timeseries_export.csv"), delimiter=",", with_time=True))
            out[str(m)] = {"stamps": [secs(t) for t in d["time"]], "values": {nm: [fval(x) for x in d[nm]] for nm in d.dtype.names[1:]}}
    elif b == "pi":
        import rtctools.data.pi as pi
        import rtctools.data.rtc as rtc
        dc = rtc.DataConfig(kwargs["input_folder"])
        ts = pi.Timeseries(dc, kwargs["output_folder"], "timeseries_export", binary=False)
        for m in range(ts.ensemble_size):
            out[str(m)] = {"stamps": [secs(t) for t in ts.times], "forecast": secs(ts.forecast_datetime),
                           "values": {nm: [fval(x) for x in vals] for nm, vals in ts.items(m)}}
    else:
        import rtctools.data.netcdf as rnc
        ds = rnc.ImportDataset(kwargs["output_folder"], "timeseries_export")
        stamps = [secs(t) for t in ds.read_import_times()]
        sub = spec.get("times_subset")
        for m in range(ds.ensemble_size):
            vals = {nm: [fval(x) for x in ds.read_timeseries_values(0, nm, m)] for nm in ds.find_timeseries_variables()}
            if sub:
                # the NetCDF writer exports on all imported stamps (values in between are interpolated): the
                # optimised values are looked up at the stamps of times()
                pos = [spec["k"] + i for i in sub]
                out[str(m)] = {"stamps": [stamps[i] for i in pos], "stamps_all": stamps,
                               "values": {nm: [v[i] for i in pos] for nm, v in vals.items()}}
            else:
                out[str(m)] = {"stamps": stamps, "values": vals}
    return out


def quiet():
    fd = os.open(os.devnull, os.O_WRONLY)
    os.dup2(fd, 1)
    os.dup2(fd, 2)


def run_opt(spec):
    import logging
    import warnings
    quiet()
    warnings.filterwarnings("ignore")
    logging.disable(logging.CRITICAL)
    from rtctools.optimization.collocated_integrated_optimization_problem import CollocatedIntegratedOptimizationProblem
    from rtctools.optimization.modelica_mixin import ModelicaMixin
    from rtctools.optimization.timeseries import Timeseries
    b = spec["backend"]
    if b == "csv":
        from rtctools.optimization.csv_mixin import CSVMixin as IO
    elif b == "pi":
        from rtctools.optimization.pi_mixin import PIMixin as IO
    else:
        from rtctools.optimization.netcdf_mixin import NetCDFMixin as IO
    base = tempfile.mkdtemp(prefix="verif_c12_")
    try:
        kwargs = write_inputs(spec, base)

        class P(IO, ModelicaMixin, CollocatedIntegratedOptimizationProblem):
            csv_ensemble_mode = spec["E"] > 1
            pi_binary_timeseries = False
            pi_validate_timeseries = True

            def compiler_options(self):
                o = super().compiler_options()
                o["cache"] = False
                return o

            def netcdf_id_to_variable(self, station_id, parameter):
                return parameter

            def netcdf_id_from_variable(self, variable_name):
                return "loc", variable_name

            def path_objective(self, ensemble_member):
                return (self.state("x") - 1.0) ** 2 + 0.1 * self.state("u") ** 2

            def times(self, variable=None):
                t = super().times(variable)
                if spec.get("times_subset"):
                    # the user optimises on a subset of the imported stamps
                    return t[np.array(spec["times_subset"])]
                return t

            def solver_options(self):
                o = super().solver_options()
                o["ipopt"] = {"print_level": 0, "tol": 1e-10}
                o["print_time"] = False
                return o

            def seed(self, ensemble_member):
                # NumPy 2: scalar seeds only (see harness notes)
                s = super().seed(ensemble_member)
                return s

        p = P(**kwargs)
        obs = {}
        p.pre()
        obs["datetimes"] = [secs(t) for t in p.io.datetimes]
        obs["reference"] = secs(p.io.reference_datetime)
        obs["times_sec"] = [float(t) for t in p.io.times_sec]
        obs["times"] = [float(t) for t in p.times()]
        obs["times_full"] = [float(t) for t in super(P, p).times()]
        obs["initial_time"] = float(p.initial_time)
        obs["ensemble_size"] = p.ensemble_size
        obs["history"], obs["series"] = {}, {}
        for m in range(p.ensemble_size):
            h = p.history(m)
            obs["history"][str(m)] = {nm: [[float(t) for t in h[nm].times], [fval(x) for x in np.atleast_1d(h[nm].values)]] for nm in ("x", "q") if nm in h}
            obs["series"][str(m)] = {}
            for nm in spec["series"][str(m)]:
                ts = p.get_timeseries(nm, m)
                obs["series"][str(m)][nm] = [[float(t) for t in ts.times], [fval(x) for x in ts.values]]
        bnd = p.bounds()

        def expand(bv):
            if isinstance(bv, Timeseries):
                return [[float(t) for t in bv.times], [fval(x) for x in bv.values]]
            return fval(bv)
        obs["bounds"] = {nm: [expand(bnd[nm][0]), expand(bnd[nm][1])] for nm in ("u", "x")}
        # set / get sequences
        obs["ops"] = []
        tsec = p.io.times_sec
        for op in spec["ops"]:
            vals = np.array([fl(v) for v in op["values"]])
            try:
                if op["op"] == "plain":
                    p.set_timeseries("added", vals, ensemble_member=op["member"])
                elif op["op"] == "plain_partial":
                    p.set_timeseries("added", vals, ensemble_member=op["member"], check_consistency=False)
                elif op["op"] == "full":
                    p.set_timeseries("added", Timeseries(tsec, vals), ensemble_member=op["member"])
                elif op["op"] == "part":
                    p.set_timeseries("added", Timeseries(tsec[op["from"]:op["to"] + 1], vals), ensemble_member=op["member"])
                else:
                    p.set_timeseries("added", Timeseries(tsec[op["indices"]], vals), ensemble_member=op["member"])
                ts = p.get_timeseries("added", op["member"])
                obs["ops"].append([[float(t) for t in ts.times], [fval(x) for x in ts.values]])
            except Exception as e:  # noqa: BLE001
                obs["ops"].append({"raised": "%s: %s" % (type(e).__name__, str(e)[:100])})
        # run and export
        ok = p.optimize(preprocessing=False)
        obs["success"] = bool(ok)
        obs["results"] = {}
        outputs = [s.name() for s in p.output_variables]
        obs["outputs"] = outputs
        for m in range(p.ensemble_size):
            r = p.extract_results(m)
            obs["results"][str(m)] = {}
            for nm in outputs:
                try:
                    obs["results"][str(m)][nm] = [fval(x) for x in r[nm]]
                except KeyError:
                    # a series offered with set_timeseries(output=True): its stored values from t0 on
                    try:
                        ts = p.get_timeseries(nm, m)
                        pos = [int(np.argmin(np.abs(ts.times - t))) for t in p.times()]
                        obs["results"][str(m)][nm] = [fval(ts.values[i]) for i in pos]
                    except KeyError:
                        pass
        obs["export"] = read_export(spec, kwargs, outputs)
        return obs
    finally:
        shutil.rmtree(base, ignore_errors=True)


def run_sim(spec):
    import logging
    import warnings
    quiet()
    warnings.filterwarnings("ignore")
    logging.disable(logging.CRITICAL)
    from rtctools.simulation.simulation_problem import SimulationProblem
    if spec["backend"] == "csv":
        from rtctools.simulation.csv_mixin import CSVMixin as IO
    else:
        from rtctools.simulation.pi_mixin import PIMixin as IO
    base = tempfile.mkdtemp(prefix="verif_c12_")
    try:
        kwargs = write_inputs(spec, base)

        class S(IO, SimulationProblem):
            pi_binary_timeseries = False

            def compiler_options(self):
                o = super().compiler_options()
                o["cache"] = False
                return o

        p = S(**kwargs)
        if spec.get("multiples"):
            p.pre()
            p.initialize()
            for m in spec["multiples"]:
                p.update(-1) if m == 1 else p.update(float(m * spec["dt"]))
            p.post()
        else:
            p.simulate()
        obs = {"datetimes": [secs(t) for t in p.io.datetimes], "reference": secs(p.io.reference_datetime),
               "times_sec": [float(t) for t in p.io.times_sec], "times": [float(t) for t in p.times()]}
        r = p.extract_results()
        obs["results"] = {"0": {nm: [float(x) for x in r[nm]] for nm in ("y", "w")}}
        obs["export"] = read_export(spec, kwargs, ["y", "w"])
        return obs
    finally:
        shutil.rmtree(base, ignore_errors=True)


def safe_run(spec):
    try:
        return run_opt(spec) if spec["kind"] == "opt" else run_sim(spec)
    except Exception as e:  # noqa: BLE001
        import traceback
        return {"error": "%s: %s | %s" % (type(e).__name__, str(e)[:200], traceback.format_exc()[-700:])}


# ---- model terms ---------------------------------------------------------------------------------------------
def gval(v):
    return "None" if v is None else "(Some %s)" % gq(Fraction(float(Fraction(v))))


def gzl(xs):
    return glist(xs, gz)


def case_terms(spec):
    axis, ref = gzl(spec["axis"]), gz(spec["axis"][spec["k"]])
    terms = ["ser_zs (times_sec %s %s) ++ ser_zs (horizon %s %s) ++ ser_zs (export_stamps %s %s)" % (axis, ref, axis, ref, axis, ref)]
    keys = ["axis"]
    if spec["kind"] == "sim":
        return terms, keys
    for m in range(spec["E"]):
        s = spec["series"][str(m)]
        for nm in ("x", "q"):
            terms.append("ser_zs (history %s %s (times_sec %s %s)) ++ ser_vals (history %s %s %s)" % (axis, ref, axis, ref, axis, ref, glist(s[nm], gval)))
            keys.append(("history", m, nm))
    s0 = spec["series"]["0"]
    for nm, lower in (("u_Min", True), ("u_Max", False), ("x_Max", False)):
        if nm in s0:
            terms.append("ser_xqs (bound_series %s %s %s %s)" % (axis, ref, "true" if lower else "false", glist(s0[nm], gval)))
            keys.append(("bound", nm))
    tsec = [t - spec["axis"][spec["k"]] for t in spec["axis"]]
    for i, op in enumerate(spec["ops"]):
        vals = glist(op["values"], gval)
        if op["op"] in ("plain", "plain_partial"):
            terms.append("ser_vals (set_plain %s %s %s)" % (axis, ref, vals))
        elif op["op"] == "full":
            terms.append("ser_vals (set_with_times %s %s %s %s)" % (axis, ref, gzl(tsec), vals))
        elif op["op"] == "part":
            terms.append("ser_vals (set_with_times %s %s %s %s)" % (axis, ref, gzl(tsec[op["from"]:op["to"] + 1]), vals))
        else:
            # every given value must be found at its own time stamp
            terms.append("ser_vals (map (fun t => value_at_sec %s %s (set_with_times %s %s %s %s) t) %s)" % (
                axis, ref, axis, ref, gzl([tsec[j] for j in op["indices"]]), vals, gzl([tsec[j] for j in op["indices"]])))
        keys.append(("op", i))
    return terms, keys


def dec_zs(it):
    n = next(it)
    return [next(it) for _ in range(n)]


def dec_vals(it):
    n = next(it)
    out = []
    for _ in range(n):
        out.append(None if next(it) == 0 else Fraction(next(it), next(it)))
    return out


def dec_xqs(it):
    n = next(it)
    out = []
    for _ in range(n):
        t = next(it)
        out.append({0: None, 1: "-inf", 2: "inf"}[t] if t != 3 else Fraction(next(it), next(it)))
    return out


def same_vals(a, b, tol=1e-9):
    if a is None or b is None or len(a) != len(b):
        return False
    for x, y in zip(a, b):
        if isinstance(x, str) or isinstance(y, str) or x is None or y is None:
            if x != y:
                return False
        elif abs(float(x) - float(y)) > tol * max(1.0, abs(float(y))):
            return False
    return True


def compare(ctx, spec, obs, vals, keys):
    bad = []
    for key, v in zip(keys, vals):
        it = iter(v)
        if key == "axis":
            ts, hz, stamps = dec_zs(it), dec_zs(it), dec_zs(it)
            if obs["datetimes"] != spec["axis"] or obs["reference"] != spec["axis"][spec["k"]]:
                bad.append(("axis/datetimes", [obs["datetimes"], obs["reference"]], [spec["axis"], spec["axis"][spec["k"]]]))
            if obs["times_sec"] != [float(t) for t in ts]:
                bad.append(("axis/times_sec", obs["times_sec"], ts))
            if spec.get("times_subset"):
                hz = [hz[i] for i in spec["times_subset"]]
                stamps = [stamps[i] for i in spec["times_subset"]]
            if obs["times"] != [float(t) for t in hz] or (obs["times"] and obs["times"][0] != 0.0):
                bad.append(("axis/horizon", obs["times"], hz))
            if spec.get("multiples"):
                # rows are written at the stamps the manual steps reached
                at = [sum(spec["multiples"][:i]) for i in range(len(spec["multiples"]) + 1)]
                stamps = [stamps[i] for i in at]
            for m, ex in obs["export"].items():
                if "stamps_all" in ex and ex["stamps_all"] != spec["axis"]:
                    bad.append(("export/stamps", ex["stamps_all"], spec["axis"]))
                if ex["stamps"] != stamps:
                    bad.append(("export/stamps", ex["stamps"], stamps))
                if "forecast" in ex and ex["forecast"] != spec["axis"][spec["k"]]:
                    bad.append(("export/forecast", ex["forecast"], spec["axis"][spec["k"]]))
        elif key[0] == "history":
            _, m, nm = key
            ht, hv = dec_zs(it), dec_vals(it)
            ini = (spec.get("initial_state") or [None] * spec["E"])[m]
            if ini and nm in ini:
                ht, hv = [0], [Fraction(ini[nm])]          # the member's own initial_state.csv wins at t0
            got = obs["history"][str(m)].get(nm)
            if got is None or got[0] != [float(t) for t in ht] or not same_vals(got[1], hv):
                bad.append(("history", [m, nm, got], [ht, [None if x is None else float(x) for x in hv]]))
            elif any(t > 0 for t in got[0]) or got[0][-1] != 0.0:
                bad.append(("history/beyond-t0", got[0], ht))
        elif key[0] == "bound":
            exp = dec_xqs(it)
            nm = key[1]
            var, side = nm.split("_")
            got = obs["bounds"][var][0 if side == "Min" else 1]
            decl = {"u": (-4.0, 4.0), "x": (-50.0, 50.0)}[var][0 if side == "Min" else 1]
            # the file series is intersected with the declared bound (C14)
            exp2 = [decl if isinstance(e, str) or e is None else (max(decl, float(e)) if side == "Min" else min(decl, float(e))) for e in exp]
            if not isinstance(got, list) or got[0] != obs.get("times_full", obs["times"]) or not same_vals(got[1], exp2):
                bad.append(("bounds", [nm, got], exp2))
        elif key[0] == "op":
            op = spec["ops"][key[1]]
            exp = dec_vals(it)
            got = obs["ops"][key[1]]
            if op["op"] == "subset":
                if isinstance(got, dict):
                    continue                                # rejected: nothing was stored
                tsec = [t - spec["axis"][spec["k"]] for t in spec["axis"]]
                at = [got[1][j] for j in op["indices"]]
                want = [float(Fraction(v)) for v in op["values"]]
                if not same_vals(at, want):
                    bad.append(("set/subset-misaligned", [op, got[1]], want))
                continue
            if isinstance(got, dict):
                if op["op"] == "plain" and len(op["values"]) == len(obs["times"]) or op["op"] in ("full", "part", "plain_partial"):
                    bad.append(("set/raised", [op, got], None))
                continue
            if got[0] != obs["times_sec"] or not same_vals(got[1], exp):
                bad.append(("set/" + op["op"], [op, got[1]], [None if x is None else float(x) for x in exp]))
    # stored series: what was read for a datetime is retrieved at its offset for every member
    if "series" in obs:
        for m in range(spec["E"]):
            for nm, vals in spec["series"][str(m)].items():
                got = obs["series"][str(m)][nm]
                # bound series: gaps are replaced in place by the widest float (documented in DESIGN.md)
                want = [None if v is None else float(Fraction(v)) for v in vals]
                g = [None if isinstance(x, str) else x for x in got[1]]
                if got[0] != obs["times_sec"] or not same_vals(g, want):
                    bad.append(("store/retrieve", [m, nm, got], want))
    # exported values = results at times()
    tol = 1e-6 if spec["backend"] == "csv" else 1e-9
    for m, res in obs["results"].items():
        ex = obs["export"].get(m)
        if ex is None:
            bad.append(("export/member-missing", m, list(obs["export"])))
            continue
        for nm, r in res.items():
            if nm not in ex["values"]:
                bad.append(("export/variable-missing", [m, nm], list(ex["values"])))
            elif not same_vals(ex["values"][nm], r, tol):
                bad.append(("export/values", [m, nm, ex["values"][nm]], r))
    return bad


def check_sim(spec, obs):
    """the recorded outputs follow the fed input: y(t) = 2 q(t) + 1, w(t+dt) = w(t) + q(t+dt)"""
    bad = []
    q = [fl(v) for v in spec["series"]["0"]["q"]][spec["k"]:]
    if spec.get("multiples"):
        at = [sum(spec["multiples"][:i]) for i in range(len(spec["multiples"]) + 1)]
        steps = [1] + spec["multiples"]
        q = [q[i] for i in at]
    else:
        steps = [1] * len(q)
    y = obs["results"]["0"]["y"]
    w = obs["results"]["0"]["w"]
    if len(y) != len(q):
        bad.append(("sim/length", len(y), len(q)))
        return bad
    for i in range(len(q)):
        if not math.isnan(q[i]) and abs(y[i] - (2 * q[i] + 1)) > 1e-6:
            bad.append(("sim/input-feed", [i, y[i]], 2 * q[i] + 1))
            break
    for i in range(1, len(q)):
        if not math.isnan(q[i]) and abs(w[i] - (w[i - 1] + steps[i] * q[i])) > 1e-6:
            bad.append(("sim/step-input", [i, w[i]], w[i - 1] + q[i]))
            break
    return bad


def store_sequences(ctx):
    """the data store as a map (member, name) -> value: any order of set_timeseries / set_parameter calls,
    members appearing in any order, then every get returns what was last set for exactly that key"""
    from rtctools.data.storage import DataStoreAccessor
    from pymoca.backends.casadi.alias_relation import AliasRelation
    rng = ctx.rng

    class Acc(DataStoreAccessor):
        @property
        def alias_relation(self):
            return AliasRelation()

    for _ in range(ctx.n(40, 1500)):
        acc = Acc()
        n = rng.randint(2, 5)
        dt = rng.choice([900, 3600, 86400])
        k = rng.randrange(n)
        stamps = [dts(i * dt) for i in range(n)]
        acc.io.reference_datetime = stamps[k]
        E = rng.randint(1, 4)
        order = [rng.randrange(E) for _ in range(rng.randint(1, 8))]
        expect_ts, expect_par, ops = {}, {}, []
        for m in order:
            if rng.random() < 0.6:
                name = rng.choice(["a", "b"])
                vals = np.array([float(rng.randint(-9, 9)) for _ in range(n)])
                if rng.random() < 0.5 or not expect_ts:      # times in seconds need the datetimes first
                    acc.io.set_timeseries(name, stamps, vals, m)
                else:
                    acc.io.set_timeseries_sec(name, np.array([(i - k) * float(dt) for i in range(n)]), vals, m)
                expect_ts[(m, name)] = vals.tolist()
                ops.append(["ts", m, name, vals.tolist()])
            else:
                name = rng.choice(["p", "q"])
                v = float(rng.randint(-9, 9))
                acc.io.set_parameter(name, v, m)
                expect_par[(m, name)] = v
                ops.append(["par", m, name, v])
        size = max(order) + 1
        ctx.count("store_sequences")
        ctx.case_done(core.fingerprint(["store", n, k, E, order]), len(set(order)) > 1)
        bad = None
        if acc.io.ensemble_size != size:
            bad = ("ensemble_size", acc.io.ensemble_size, size)
        for m in range(size):
            for name in (("a", "b") if expect_ts else ()):      # without any series the store has no axis to convert
                try:
                    t, got = acc.io.get_timeseries_sec(name, m)
                    got = [float(x) for x in got]
                    tt = [float(x) for x in t]
                except KeyError:
                    got, tt = None, None
                if got != expect_ts.get((m, name)):
                    bad = ("timeseries", [m, name, got], expect_ts.get((m, name)))
                elif got is not None and tt != [(i - k) * float(dt) for i in range(n)]:
                    bad = ("times_sec", tt, [(i - k) * float(dt) for i in range(n)])
            for name in ("p", "q"):
                try:
                    got = float(acc.io.get_parameter(name, m))
                except KeyError:
                    got = None
                if got != expect_par.get((m, name)):
                    bad = ("parameter", [m, name, got], expect_par.get((m, name)))
        if bad:
            ctx.violation("io/store-sequence", {"operations": ops, "reference_index": k, "impl": bad[1], "expected": bad[2]},
                          what="data store after %d set calls: %s is %s, expected %s" % (len(ops), bad[0], bad[1], bad[2]))


def axis_guard(ctx):
    """all series of a store live on one list of datetimes: a series offered on another list - also one of the
    same length with the same first and last stamp - is refused, for any member, and the stored data stay as
    they were"""
    from rtctools.data.storage import DataStoreAccessor
    from pymoca.backends.casadi.alias_relation import AliasRelation

    class Acc(DataStoreAccessor):
        @property
        def alias_relation(self):
            return AliasRelation()

    base = [0, 3600, 7200, 14400, 18000, 21600]
    others = {"inner stamp moved": [0, 3600, 10800, 14400, 18000, 21600], "history stamp moved": [0, 1800, 7200, 14400, 18000, 21600],
              "shifted": [t + 900 for t in base], "longer": base + [25200], "same": list(base)}
    for what, other in others.items():
        for member in (0, 1):
            acc = Acc()
            acc.io.reference_datetime = dts(base[2])
            vals = np.array([1.0, 2.0, 3.0, 4.0, 5.0, 6.0])
            acc.io.set_timeseries("a", [dts(t) for t in base], vals, 0)
            _ = acc.io.times_sec
            try:
                acc.io.set_timeseries("b", [dts(t) for t in other], np.arange(len(other), dtype=float), member)
                accepted = True
            except Exception:  # noqa: BLE001
                accepted = False
            ctx.count("axis_guard_cases")
            ctx.case_done(core.fingerprint(["axis-guard", what, member]), True)
            kept = [secs(t) for t in acc.io.datetimes] == base and list(acc.io.get_timeseries("a", 0)[1]) == vals.tolist()
            if accepted != (what == "same") or not kept:
                ctx.violation("store/other-axis", {"stored_axis": base, "offered_axis": other, "member": member, "accepted": accepted, "stored_series_intact": kept},
                              what="a series on another list of datetimes (%s) was %s; first series intact: %s" % (what, "accepted" if accepted else "refused", kept))


def shape(spec):
    return [spec["kind"], spec["backend"], spec["dt"], len(spec["axis"]), spec["k"], spec["E"], sorted(spec["series"]["0"]),
            [o["op"] for o in spec["ops"]], bool(spec.get("times_subset")), [sum(v is None for v in vals) > 0 for vals in spec["series"]["0"].values()]]


def run(ctx):
    replay = os.environ.get("VERIF_REPLAY")
    rng = ctx.rng
    if replay:
        specs = [json.load(open(replay))["replay"]["spec"]]
        triples = []
    else:
        specs = [c["spec"] for c in core.corpus_cases(ID)]
        specs += [maybe_shared(maybe_subset(gen_case(rng))) for _ in range(ctx.n(36, 1200))]
        # (deterministic) a NetCDF ensemble whose first variable has no realization dimension
        d = gen_case(__import__("random").Random(12), "opt", "netcdf")
        while d["E"] < 2:
            d = gen_case(__import__("random").Random(len(json.dumps(d))), "opt", "netcdf")
        d["ops"] = []
        for m in range(d["E"]):
            d["series"][str(m)]["extra"] = [str(Fraction(i, 2)) for i in range(len(d["axis"]))]
        d["nc_shared"] = ["extra"]
        specs.append(d)
        # the same data through the three optimisation back-ends
        triples = []
        for _ in range(ctx.n(4, 120)):
            c = gen_case(rng, "opt", "csv")
            c["ops"] = []
            c.pop("initial_state", None)
            if c["E"] > 1:
                c["E"] = 1
                c["series"] = {"0": c["series"]["0"]}
            while not triples and len(c["axis"]) - c["k"] < 5:
                c["axis"] = c["axis"] + [c["axis"][-1] + c["dt"]]
                for nm, vals in c["series"]["0"].items():
                    vals.append(vals[-1])
            maybe_subset(c, 0.4, force=not triples)
            tri = []
            for b in ("csv", "pi", "netcdf"):
                d = json.loads(json.dumps(c))
                d["backend"] = b
                tri.append(len(specs))
                specs.append(d)
            triples.append(tri)
    with ProcessPoolExecutor(max_workers=12) as ex:
        results = list(ex.map(safe_run, specs, chunksize=1))
    terms, meta = [], []
    for spec, res in zip(specs, results):
        if "error" in res:
            ctx.count("case_exception")
            ctx.violation("io/exception", {"spec": spec, "error": res["error"]}, no_input="/repo/src/rtctools" not in res["error"],
                          what="a generated %s/%s case failed: %s" % (spec["kind"], spec["backend"], res["error"][:160]))
            continue
        ts, keys = case_terms(spec)
        meta.append((spec, res, len(terms), keys))
        terms.extend(ts)
    vals = core.eval_terms(ID, ["Xq", "TimeAxis"], terms, shard=200) if terms else []
    for spec, obs, a, keys in meta:
        ctx.case_done(core.fingerprint(shape(spec)), spec["k"] > 0 or spec["E"] > 1 or bool(spec["ops"]))
        ctx.count("%s_%s" % (spec["kind"], spec["backend"]))
        if spec["k"] > 0:
            ctx.count("t0_inside")
        bad = compare(ctx, spec, obs, vals[a:a + len(keys)], keys)
        if spec["kind"] == "sim":
            bad += check_sim(spec, obs)
        elif not obs.get("success"):
            ctx.count("solver_failed")
        for b in bad:
            ctx.violation("io/" + b[0], {"spec": spec, "impl": b[1], "expected": b[2]},
                          what="%s/%s %s: implementation %s, expected %s" % (spec["kind"], spec["backend"], b[0], str(b[1])[:160], str(b[2])[:160]))
        if not bad and len(ctx.samples) < 3 and spec["k"] > 0:
            ctx.sample({"backend": spec["backend"], "axis": spec["axis"], "t0": spec["axis"][spec["k"]], "times": obs["times"],
                        "export_stamps": obs["export"]["0"]["stamps"]})
    if not replay:
        store_sequences(ctx)
        axis_guard(ctx)
    # agreement between back-ends
    for tri in triples:
        obs3 = [results[i] for i in tri]
        if any("error" in o for o in obs3):
            continue
        ref = obs3[0]
        for o, b in zip(obs3[1:], ("pi", "netcdf")):
            for nm in ref["export"]["0"]["values"]:
                if o["export"]["0"]["stamps"] != ref["export"]["0"]["stamps"] or not same_vals(o["export"]["0"]["values"].get(nm), ref["export"]["0"]["values"][nm], 2e-6):
                    ctx.violation("io/backends-disagree", {"spec": specs[tri[0]], "csv": ref["export"]["0"], b: o["export"]["0"]},
                                  what="the %s export differs from the csv export for %s" % (b, nm))
        ctx.count("backend_triples")
