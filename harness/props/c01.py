"""C01 — transcribed dynamics are exactly the theta-method discretisation."""
import json

import casadi as ca
import numpy as np

from .. import core, tr, trcheck, problems

ID = "C01"
PROPS_FILE = "props/C01.v"
MODEL_FILES = ["Xq", "Interp", "Expr", "Transcribe"]
RULE = ("generated DAE models (affine and bilinear residuals over 0-2 states, 0-2 algebraics, 0-2 controls, "
        "constant inputs, parameters, time, occasionally derivatives in algebraic rows), grids of 2-5 "
        "non-equidistant stamps with t0 != 0, theta in {0, 1/4, 1/2, 3/4, 1}, nominals over 3 orders of "
        "magnitude, ensembles of 1-3 members with coinciding / 0 / 1 parameter values, controls on coarser "
        "own grids with all three interpolation modes, histories (incl. NaN at t0), parameters declared dynamic "
        "with a first transcription under other values (the observed one is the second). transcribe() is observed "
        "through nlp g / lbg / ubg at two rational decision vectors and through state_vector indices. "
        "non-trivial = at least two steps or two members and a derivative in the residual; distinct = "
        "abstracted problem shapes")
MODELLED = ("collocated_integrated_optimization_problem.py transcribe(): layout (discretize_controls/states), "
            "interpolated states incl. own grids, theta branches, initial residual block, initial-derivative rows, "
            "parameter / constant-input handling per member")
NOT_MODELLED = "integrate_states=True (single shooting), lookup tables, the linearity check, delayed feedback (C16)"
ASSUMPTIONS = ["rows are compared at rational probe vectors to 1e-8 relative (binary64 rounding not modelled)"]

FEAT = {"history": True, "retranscribe": True, "cin_axis": True}
# a second batch with path / extra variables next to parameters that stay symbolic (member-dependent or dynamic)
FEAT2 = {"history": True, "retranscribe": True, "cin_axis": True, "pvars": True}


def is_dae_diff(d):
    return d[0] in ("layout", "x-size", "g-size", "g-rows-count", "g-row", "impl-exception")


def run(ctx):
    rs = trcheck.replay_spec()
    specs = [rs] if rs else [c["spec"] for c in core.corpus_cases(ID)] + \
        [tr.gen_spec(ctx.rng, FEAT) for _ in range(ctx.n(120, 4000))]
    if not rs:
        specs += [tr.gen_spec(ctx.rng, FEAT2) for _ in range(ctx.n(40, 1200))]
    rows = trcheck.run_cases(ctx, ID, specs)
    for s, o, m, diffs in rows:
        nontriv = (len(s["times"]) > 2 or s.get("ensemble_size", 1) > 1) and len(s.get("states", [])) > 0
        ctx.case_done(trcheck.shape_of(s), nontriv)
        ctx.count("theta_%s" % s.get("theta"))
        ctx.count("members_%d" % s.get("ensemble_size", 1))
        ctx.count("steps_%d" % (len(s["times"]) - 1))
        if s.get("var_times"):
            ctx.count("own_grid")
        if o is not None and nontriv:
            ctx.sample({"spec": s, "X0": [str(x) for x in o["X"][0]], "impl_g0": o["gf"][0][0][:12],
                        "model_g0": [str(x) for x in m[3][0][0][:12]]})
        bad = [d for d in (diffs or []) if is_dae_diff(d)]
        if not bad:
            continue
        rep = {"spec": s, "differences": bad[:4]}
        if o is not None:
            rep["X"] = [[str(x) for x in X] for X in o["X"]]
        kinds = {d[0] for d in bad}
        if kinds <= {"g-row"} and o is not None and same_multiset(o, m):
            rep["broken_correspondence"] = "row order of nlp g differs from Transcribe.v g_rows; C01_* theorems talk about another order"
            ctx.violation("transcribe/row-order", rep, no_input=True, what="DAE rows are permuted with respect to the model")
        else:
            ctx.violation("transcribe/dae-rows", rep,
                          what="transcribed DAE rows differ from the theta-method discretisation: %s" % json.dumps(bad[0], default=str)[:300])
    # runtime samples: solve a few unconstrained convex problems, the model's rows vanish at the solution
    for _ in range(ctx.n(3, 60)):
        runtime_sample(ctx)


def same_multiset(o, m):
    for (rows, _), (g, _) in zip(m[3], o["gf"]):
        a = sorted(float(x) for x in rows)
        b = sorted(g)
        if len(a) != len(b) or any(not tr.close(x, y, 1e-8) for x, y in zip(a, b)):
            return False
    return True


def runtime_sample(ctx):
    s = tr.gen_spec(ctx.rng, {"own_grid": False})
    coll = s["states"] + s["algebraics"] + s["controls"]
    n = len(s["times"])
    # convex objective keeps the NLP bounded; only affine residuals so that IPOPT converges
    s["residual"] = [linearise(e) for e in s["residual"]]
    s["objective"] = [["c", "0"] for _ in range(s["ensemble_size"])]
    for m in range(s["ensemble_size"]):
        e = ["c", "0"]
        for v in coll:
            for k in range(n):
                e = ["+", e, ["*", ["at", v, k], ["at", v, k]]]
        s["objective"][m] = e
    P = problems.make_base(s)

    class Q(P):
        def solver_options(self):
            o = super().solver_options()
            o["ipopt"] = dict(o.get("ipopt", {}))
            o["ipopt"].update({"print_level": 0, "sb": "yes", "tol": 1e-10})
            o["print_time"] = False
            return o

    p = Q()
    try:
        ok = p.optimize()
    except Exception:
        ctx.count("runtime_exception")
        return
    if not ok:
        ctx.count("runtime_unsolved")
        return
    X = [tr.Fraction(float(x)) for x in p.solver_output]
    vals = core.eval_terms(ID + "rt", trcheck.IMPORTS, [tr.eval_term(s, [X])])
    _, _, gb, probes = tr.decode(vals[0], 1 + len(tr.layout_names(s)) * s["ensemble_size"], 1)
    rows = probes[0][0]
    ctx.runtime_samples += 1
    worst = max([abs(float(r)) for r, (lo, hi) in zip(rows, gb) if float(lo) == 0.0 and float(hi) == 0.0] or [0.0])
    ctx.count("runtime_solved")
    if worst > 1e-6:
        ctx.extra.setdefault("runtime_anomaly", []).append({"spec": s, "worst_residual": worst})
        ctx.violation("transcribe/solution-violates-residual", {"spec": s, "worst_residual": worst,
                                                                "X": [str(x) for x in X]},
                      what="a successful solve returned a trajectory violating the theta-method residual by %g" % worst)


def linearise(e):
    """drop bilinear terms: keep the AST affine"""
    if e[0] == "*":
        a, b = linearise(e[1]), linearise(e[2])
        if has_var(a) and has_var(b):
            return a
        return ["*", a, b]
    if e[0] in ("+", "-"):
        return [e[0], linearise(e[1]), linearise(e[2])]
    if e[0] == "neg":
        return ["neg", linearise(e[1])]
    return e


def has_var(e):
    if e[0] in ("v", "at", "ev"):
        return True
    if e[0] == "c":
        return False
    return any(has_var(x) for x in e[1:])
