"""C17 — equivalent formulations give equal optima."""
import json
import math
import os
from fractions import Fraction

import casadi as ca
import numpy as np

from .. import core, gp
from ..core import gq, glist
from . import c02

ID = "C17"
PROPS_FILE = "props/C17.v"
MODEL_FILES = ["Xq", "LinOrder"]
RULE = ("(A) LinearizedOrderGoal._get_linear_coefficients for orders 2-5 and tolerances {0.2, 0.1, 0.05, 0.02}: "
        "the breakpoints recovered from the returned lines are checked in Coq (check_breaks, chords equal to "
        "the returned lines) and the lines are sampled at 400 points for 'never below eps^order, at most "
        "tol above, exact at 0 and 1'; (B) paired real runs on generated linear models and goal sets: "
        "single pass (both methods) vs multi-pass keep_soft; CachingQPSol vs casadi.qpsol (HiGHS / qpOASES) "
        "with order-1 and order-2 goals in one priority; expand on/off; map mode unroll/serial; the same "
        "instance optimised twice vs a fresh one; per-priority objective values to 1e-5. non-trivial = "
        "pair with >= 2 priorities; distinct = abstracted pair shapes")
MODELLED = "linearized_order_goal_programming_mixin.py _get_linear_coefficients (result), MinAbs constraints, QP form (1-D)"
NOT_MODELLED = ("the solvers; CasADi map modes / expand (paired runs only); vector goals vs scalar goals (with and without "
                "scale_by_problem_size, different numbers of finite targets per element) and MinAbs vs explicit two-sided goals "
                "(member-dependent functions, 1-3 members) are exercised as paired runs, their algebra is in LinOrder.v")
ASSUMPTIONS = ["optimal values are compared, argmins only where the optimum is unique"]


# ---------------------------------------------------------------------------------------------------
def lin_cases():
    return [(o, e) for o in (2, 3, 4, 5) for e in (0.2, 0.1, 0.05, 0.02)]


def lin_impl(order, eps, clear=False):
    from rtctools.optimization.linearized_order_goal_programming_mixin import LinearizedOrderGoal

    if clear:
        LinearizedOrderGoal._linear_coefficients = {}
    lines = LinearizedOrderGoal._get_linear_coefficients(order, eps)
    return [(float(a), float(b)) for a, b in lines]


def recover_breaks(lines):
    xs = [Fraction(0)]
    for (a0, b0), (a1, b1) in zip(lines, lines[1:]):
        xs.append((Fraction(b0) - Fraction(b1)) / (Fraction(a1) - Fraction(a0)))
    xs.append(Fraction(1))
    return xs


def lin_term(order, tol, xs):
    return ("let xs := %s in [if check_breaks %d%%nat %s xs then 1%%Z else 0%%Z; if breaks_ok xs then 1%%Z else 0%%Z] "
            "++ ser_lines (lines %d%%nat xs)" % (glist(xs, gq), order, gq(tol), order))


# ---------------------------------------------------------------------------------------------------
def objective_values(case, **kw):
    p, snaps, _ = gp.build(case, **kw)
    try:
        ok = p.optimize()
    except Exception as e:
        return None, "%s: %s" % (type(e).__name__, str(e)[:160]), None
    objective_values.traj = traj_of(snaps)
    return [float(s["objective_value"]) for s in snaps], ok, (p, snaps)


def traj_of(snaps):
    """the goal-function trajectories (y, z of every member) of every priority's solution"""
    return [[float(x) for r in s["results"] for nm in ("y", "z") for x in r[nm]] for s in snaps]


def same_solutions(a, b, tol=1e-4):
    return a is not None and b is not None and len(a) == len(b) and all(
        len(x) == len(y) and all(abs(u - v) <= tol * (1 + abs(v)) for u, v in zip(x, y)) for x, y in zip(a, b))


def gen_pair_case(rng):
    """goal sets whose optima are not trivial: conflicting targets in one priority (eps > 0), orders
    1 and 2 mixed (linear + quadratic objective terms), minimisation goals"""
    n = rng.choice([2, 3])
    E = rng.choice([1, 1, 2])
    goals = []
    for pr in range(1, rng.randint(2, 3) + 1):
        fn = rng.choice(gp.FUNCS)
        path = rng.random() < 0.7
        a = rng.randint(1, 6)
        k = rng.randrange(n)
        goals.append({"path": path, "fn": fn, "prio": pr, "k": k, "order": rng.choice([1, 2]), "weight": rng.choice([1, 2, "1/2"]),
                      "nominal": rng.choice([1, 2]), "tmin": float(a)})
        goals.append({"path": path, "fn": fn, "prio": pr, "k": k, "order": rng.choice([1, 2]), "weight": rng.choice([1, 3]),
                      "nominal": rng.choice([1, 2]), "tmax": float(a - rng.randint(1, 4))})
        if rng.random() < 0.5:
            goals.append({"path": rng.random() < 0.5, "fn": rng.choice(gp.FUNCS), "prio": pr, "k": rng.randrange(n),
                          "order": 2, "weight": 1, "nominal": rng.choice([1, 4])})
        if rng.random() < 0.5:
            # an order-1 minimisation goal with a constant term in its function
            goals.append({"path": rng.random() < 0.5, "fn": rng.choice(["y", "z"]), "prio": pr, "k": rng.randrange(n),
                          "order": 1, "weight": 1, "nominal": 1, "offset": rng.choice(["1/2", "-3/2", "2"])})
    c = {"k": "pair", "times": list(range(n)), "E": E, "p": [0, "1/2"][:E], "variant": "multi", "goals": goals, "options": {}}
    if rng.random() < 0.4:
        # the slack given to a finished priority may depend on which priority it is
        c["options_by_priority"] = {"1": {"constraint_relaxation": rng.choice(["1/8", "1/2"])}}
        c["options"] = {"fix_minimized_values": False}       # (with IPOPT the slack only applies then)
    return c


def qp_case(c):
    """same goals, but only the last priority may be quadratic: earlier objectives become linear
    constraints, so every subproblem is a QP"""
    c = json.loads(json.dumps(c))
    last = max(int(Fraction(str(g["prio"]))) for g in c["goals"])
    mixed = False
    for g in c["goals"]:
        if int(Fraction(str(g["prio"]))) < last:
            g["order"] = 1
        elif not mixed:
            g["order"] = 2          # at least one quadratic and one linear term at the last priority
            mixed = True
        else:
            g["order"] = 1 if (g.get("tmin") is not None or g.get("tmax") is not None) else 2
    return c


def in_child(fn, timeout=90):
    """run fn() in a forked child: a QP plugin that loops or corrupts memory cannot take the check down"""
    import multiprocessing as mp

    ctxm = mp.get_context("fork")
    q = ctxm.Queue()

    def work():
        try:
            dn = os.open(os.devnull, os.O_WRONLY)
            os.dup2(dn, 1)
            os.dup2(dn, 2)
            q.put(("ok", fn()))
        except Exception as e:  # noqa: BLE001
            q.put(("exc", "%s: %s" % (type(e).__name__, str(e)[:200])))

    pr = ctxm.Process(target=work)
    pr.start()
    try:
        kind, val = q.get(timeout=timeout)
    except Exception:
        kind, val = "timeout", None
    pr.join(2)
    if pr.is_alive():
        pr.kill()
    return kind, val


def close_lists(a, b, tol=1e-4):
    """optimal values per priority; from the third priority on the values sit on two or more constraints of the
    kind 'earlier objective <= its optimum' that IPOPT holds to about sqrt(tol): ten times the tolerance there"""
    return a is not None and b is not None and len(a) == len(b) and all(
        abs(x - y) <= tol * (10 if i >= 2 else 1) * (1 + abs(x)) for i, (x, y) in enumerate(zip(a, b)))


def run(ctx):
    replay = os.environ.get("VERIF_REPLAY")
    # ---- A ----
    if not replay:
        rows = []
        # all orders and tolerances in one process, the class-level table of coefficients filling up as it goes
        for i, (order, eps) in enumerate(lin_cases()):
            lines = lin_impl(order, eps, clear=(i == 0))
            xs = recover_breaks(lines)
            rows.append((order, eps, lines, xs))
        for order, eps, lines, _ in reversed(rows):
            again = lin_impl(order, eps)
            ctx.count("linearised_repeated")
            if again != lines:
                ctx.violation("linearised/repeated", {"order": order, "tolerance": eps, "first": lines, "again": again},
                              what="the coefficients for order %d, tolerance %s differ when asked a second time" % (order, eps))
        vals = core.eval_terms(ID + "lin", ["Xq", "LinOrder"],
                               [lin_term(o, Fraction(e) * (1 + Fraction(1, 10**6)) + Fraction(1, 10**9), xs) for o, e, _, xs in rows])
        for (order, eps, lines, xs), v in zip(rows, vals):
            ctx.case_done("lin/%d/%s" % (order, eps), True)
            ctx.count("linearised_orders")
            it = iter(v)
            chk, brk = next(it), next(it)
            n = next(it)
            model_lines = []
            for _ in range(n):
                a = Fraction(next(it), next(it))
                b = Fraction(next(it), next(it))
                model_lines.append((float(a), float(b)))
            same = len(model_lines) == len(lines) and all(abs(a - c) <= 1e-7 * (1 + abs(a)) and abs(b - d) <= 1e-7 * (1 + abs(b))
                                                          for (a, b), (c, d) in zip(lines, model_lines))
            # the property sampled on the returned lines themselves
            worst_under, worst_over = 0.0, 0.0
            for k in range(401):
                e = k / 400.0
                pen = max(a * e + b for a, b in lines)
                worst_under = max(worst_under, e ** order - pen)
                worst_over = max(worst_over, pen - e ** order)
            p0 = max(b for a, b in lines)
            p1 = max(a + b for a, b in lines)
            slopes_ok = all(a >= -1e-12 for a, b in lines)
            rep = {"order": order, "tolerance": eps, "lines": lines, "breakpoints": [str(x) for x in xs],
                   "check_breaks": chk, "breaks_ok": brk, "worst_underestimate": worst_under,
                   "worst_overestimate": worst_over, "at_0": p0, "at_1": p1}
            if len(ctx.samples) < 1:
                ctx.sample(rep)
            if worst_under > 1e-9 or worst_over > eps * (1 + 1e-6) + 1e-9 or abs(p0) > 1e-9 or abs(p1 - 1) > 1e-9 or not slopes_ok:
                ctx.violation("linearised/penalty", rep,
                              what="linearised order-%d penalty (tol %s): under %.3g, over %.3g, at 0: %.3g, at 1: %.3g" % (
                                  order, eps, worst_under, worst_over, p0, p1))
            elif chk != 1 or brk != 1 or not same:
                rep["broken_correspondence"] = "LinOrder.v lines / check_breaks vs _get_linear_coefficients; C17_chords_* no longer cover the code's coefficients"
                ctx.violation("linearised/model-mismatch", rep, no_input=True, what="linearised penalty coefficients are not the chords of checked breakpoints")

    # ---- B ----
    cases = []
    if replay:
        cases = [json.load(open(replay))["replay"]["case"]]
    else:
        corpus = [c["case"] for c in core.corpus_cases(ID)]
        for c in corpus:
            c["_corpus"] = True
        cases = corpus + [gen_pair_case(ctx.rng) for _ in range(ctx.n(7, 300))]
        # a finished priority that is given slack, and a later priority that uses it
        for fn, tmin in (("y", 11.0), ("z", 19.5)):
            cases.append({"k": "pair", "times": [0, 1, 2], "E": 1, "p": [0], "variant": "multi", "options": {"fix_minimized_values": False},
                          "options_by_priority": {"1": {"constraint_relaxation": ctx.rng.choice(["1/8", "1/4"])}},
                          "goals": [{"path": True, "fn": fn, "prio": 1, "k": 0, "order": 1, "weight": 1, "nominal": 1, "tmin": tmin},
                                    {"path": True, "fn": fn, "prio": 2, "k": 0, "order": ctx.rng.choice([1, 2]), "weight": 1, "nominal": 1,
                                     "offset": str(ctx.rng.choice([12, 25]))}]})
    from rtctools.optimization.single_pass_goal_programming_mixin import CachingQPSol

    for c in cases:
        kinds = ctx.rng.sample(["single_vs_keep_soft", "caching_qp", "twice", "expand", "map_mode"], ctx.n(2, 5)) if not replay else \
            ["single_vs_keep_soft", "caching_qp", "twice", "expand", "map_mode"]
        if c.pop("_corpus", False):
            # corpus cases are known to solve in every formulation on the unchanged tree: all pairs, and a
            # formulation that no longer solves is a disagreement as well
            kinds, fixed_case = ["single_vs_keep_soft", "caching_qp", "twice", "expand", "map_mode"], True
        else:
            fixed_case = False
        if c.get("options_by_priority") and "single_vs_keep_soft" not in kinds:
            kinds = ["single_vs_keep_soft"] + kinds[:1]
        for kind in kinds:
            pairs = []
            try:
                if kind == "single_vs_keep_soft":
                    ref, ok, _ = objective_values(dict(c, variant="multi_keep_soft"))
                    tref = objective_values.traj if ref is not None else None
                    for v in ("single_append", "single_update"):
                        o, ok2, _ = objective_values(dict(c, variant=v))
                        pairs.append((v, ref, o, ok, ok2, tref, objective_values.traj if o is not None else None))
                elif kind == "caching_qp":
                    cq = dict(qp_case(c), variant="single_append")
                    for plug, opts in (("qpoases", {"printLevel": "none"}), ("osqp", {"osqp": {"verbose": False, "eps_abs": 1e-9, "eps_rel": 1e-9, "max_iter": 20000}})):
                        def both(front):
                            r = objective_values(cq, qp=(plug, front, opts))
                            return r[0], r[1], (objective_values.traj if r[0] is not None else None)
                        k1, r1 = in_child(lambda: both(ca.qpsol))
                        k2, r2 = in_child(lambda: both(CachingQPSol()))
                        if k1 != "ok" or k2 != "ok":
                            ctx.count("qp_child_" + k1 + "_" + k2)
                            continue
                        pairs.append(("caching/" + plug, r1[0], r2[0], r1[1], r2[1], r1[2], r2[2]))
                elif kind == "twice":
                    ref, ok, ps = objective_values(dict(c))
                    if ps is not None and ok:
                        p, snaps = ps
                        n0 = len(snaps)
                        tref = traj_of(snaps[:n0])
                        ok2 = p.optimize()
                        o = [float(s["objective_value"]) for s in snaps[n0:]]
                        pairs.append(("second-run", ref, o, ok, ok2, tref, traj_of(snaps[n0:])))
                elif kind == "expand":
                    ref, ok, _ = objective_values(dict(c), expand=False)
                    tref = objective_values.traj if ref is not None else None
                    o, ok2, _ = objective_values(dict(c), expand=True)
                    pairs.append(("expand", ref, o, ok, ok2, tref, objective_values.traj if o is not None else None))
                elif kind == "map_mode":
                    ref, ok, _ = objective_values(dict(c), map_mode="unroll")
                    tref = objective_values.traj if ref is not None else None
                    o, ok2, _ = objective_values(dict(c), map_mode="serial")
                    pairs.append(("map-serial", ref, o, ok, ok2, tref, objective_values.traj if o is not None else None))
            except Exception as e:
                ctx.count("pair_exception_" + type(e).__name__)
                continue
            for name, ref, o, ok, ok2, tref, to in pairs:
                ctx.runtime_samples += 1
                ctx.count("pair_" + name)
                nprio = len({int(Fraction(str(g["prio"]))) for g in c["goals"]})
                ctx.case_done(core.fingerprint([name, c["E"], len(c["times"]),
                                                [[g["prio"], g["fn"], g["path"], g.get("order", 2), g.get("tmin") is not None, g.get("tmax") is not None] for g in c["goals"]]]),
                              nprio >= 2)
                if ref is None or o is None or ok is not True or ok2 is not True:
                    ctx.count("pair_unsolved")
                    if fixed_case and ok is True and ok2 is not True:
                        ctx.violation("pair/" + name.split("/")[0] + "-unsolved", {"case": c, "pair": name, "reference": ref, "other": o},
                                      what="equivalent formulations disagree (%s): one solves every priority (%s), the other stops (%s)" % (name, ref, o))
                    continue
                j = next((i for i, (x, y) in enumerate(zip(ref, o)) if abs(x - y) > 1e-4 * (10 if i >= 2 else 1) * (1 + abs(x))), None) if len(ref) == len(o) else None
                traded = False
                if j is not None and j > 0:
                    # the side with the better value at priority j paid for it at an earlier priority, by an amount
                    # inside the agreement tolerance but well above rounding: both are points of the same
                    # lexicographic problem, resolved to different solver tolerances
                    better_is_o = o[j] < ref[j]
                    traded = any((o[i] - ref[i] if better_is_o else ref[i] - o[i]) > 1e-7 * (1 + abs(ref[i])) for i in range(j))
                if traded:
                    ctx.count("pair_tolerance_trade_off")
                    ctx.extra.setdefault("runtime_anomalies", []).append({"pair": name, "objective_values": [ref, o]})
                elif j is not None and tref and to and len(tref) > j and len(to) > j and same_solutions([tref[j]], [to[j]]):
                    # the same trajectories (to 1e-4) with optimal values further apart: a later objective that is
                    # steep where an earlier, flat (quadratic) one is held only to the solver's tolerance - a
                    # solver-regime effect, not two different problems (DESIGN.md section 2)
                    ctx.count("pair_same_solution_other_value")
                    ctx.extra.setdefault("runtime_anomalies", []).append({"pair": name, "objective_values": [ref, o]})
                elif not close_lists(ref, o):
                    ctx.violation("pair/" + name.split("/")[0], {"case": c, "pair": name, "reference": ref, "other": o},
                                  what="equivalent formulations disagree (%s): %s vs %s" % (name, ref, o))
                elif len(ctx.samples) < 3:
                    ctx.sample({"pair": name, "case": c, "objective_values": ref, "other": o})


# ---- further pairs: vector goal vs its scalar goals; |f| minimisation vs the explicit two-sided form ----------
def _run_gp(P, record):
    p = P()
    ok = p.optimize()
    return {"ok": bool(ok), "objectives": list(record["obj"]), "y": [[float(v) for v in p.extract_results(m)["y"]] for m in range(p.ensemble_size)],
            "z": [[float(v) for v in p.extract_results(m)["z"]] for m in range(p.ensemble_size)]}


def vector_pair(rng, force_scale=False, array_targets=False):
    from rtctools.optimization.goal_programming_mixin import Goal, GoalProgrammingMixin
    from rtctools.optimization.timeseries import Timeseries
    from .. import problems
    n = rng.choice([3, 4, 5])
    E = rng.choice([1, 2])
    times = list(range(n))
    spec = gp.spec_for({"times": times, "E": E, "p": [0, "1/2"][:E]})
    Base = problems.make_base(spec)
    tarr = np.array(times, dtype=float)
    # targets with a different number of finite entries per element
    tmin = np.array([[float(rng.randint(3, 7)) if rng.random() < 0.8 else np.nan for _ in range(2)] for _ in range(n)])
    tmin[0, 0], tmin[0, 1] = 5.0, 4.0
    if n > 2:
        tmin[1, rng.randrange(2)] = np.nan
    cap = [float(rng.randint(0, 2)), float(rng.randint(0, 2))]           # a conflicting goal of the same priority
    order = rng.choice([1, 2])
    nom = [rng.choice([1.0, 2.0]), rng.choice([1.0, 4.0])]
    scale = force_scale or rng.random() < 0.6
    weight = rng.choice([1.0, 2.0])
    desc = {"n": n, "E": E, "target_min": tmin.tolist(), "cap": cap, "order": order, "nominal": nom, "scale_by_problem_size": scale, "weight": weight}
    if array_targets:
        # one target per element, constant over time (plain arrays), a lower target for the first element only
        amin = np.array([float(rng.randint(4, 7)), np.nan])
        amax = np.array([float(rng.randint(8, 10)), float(rng.randint(1, 3))])
        cap = [float(rng.randint(0, 2)), -float(rng.randint(1, 3))]
        desc.update({"array_target_min": [amin[0], None], "array_target_max": amax.tolist(), "cap": cap})

    def caps():
        out = []
        for k, nm in enumerate(("y", "z")):
            class Cap(Goal):
                priority = 1
                target_max = cap[k]
                function_range = (-40.0, 40.0)
                _nm = nm

                def function(self, op, em):
                    return op.state(self._nm)
            c = Cap()
            c.order = order
            out.append(c)
        return out

    def make(vector):
        rec = {"obj": []}

        class P(GoalProgrammingMixin, Base):
            def goal_programming_options(self):
                o = super().goal_programming_options()
                o["scale_by_problem_size"] = scale
                o["keep_soft_constraints"] = True
                return o

            def solver_options(self):
                o = super().solver_options()
                o["ipopt"] = {"print_level": 0, "tol": 1e-10}
                o["print_time"] = False
                return o

            def priority_completed(self, priority):
                rec["obj"].append(float(self.objective_value))

            def path_goals(self):
                gs = caps()
                if vector:
                    class V(Goal):
                        size = 2
                        priority = 1
                        target_min = amin if array_targets else Timeseries(tarr, tmin)
                        target_max = amax if array_targets else np.nan
                        function_range = (np.array([-40.0, -40.0]), np.array([40.0, 40.0]))
                        function_nominal = np.array(nom)

                        def function(self, op, em):
                            return ca.vertcat(op.state("y"), op.state("z"))
                    v = V()
                    v.order, v.weight = order, weight
                    gs.append(v)
                else:
                    for k, nm in enumerate(("y", "z")):
                        class S(Goal):
                            priority = 1
                            target_min = float(amin[k]) if array_targets else Timeseries(tarr, tmin[:, k].copy())
                            target_max = float(amax[k]) if array_targets else np.nan
                            function_range = (-40.0, 40.0)
                            function_nominal = nom[k]
                            _nm = nm

                            def function(self, op, em):
                                return op.state(self._nm)
                        sg = S()
                        sg.order, sg.weight = order, weight
                        gs.append(sg)

                class Second(Goal):
                    priority = 2
                    order = 2

                    def function(self, op, em):
                        return op.state("y") - op.state("z")
                gs.append(Second())
                return gs
        return P, rec
    return desc, make


def minabs_pair(rng):
    from rtctools.optimization.goal_programming_mixin import Goal, GoalProgrammingMixin
    from rtctools.optimization.min_abs_goal_programming_mixin import MinAbsGoal, MinAbsGoalProgrammingMixin
    from .. import problems
    n = rng.choice([2, 3])
    E = rng.choice([1, 2, 2, 3])
    times = list(range(n))
    spec = gp.spec_for({"times": times, "E": E, "p": [0, "3/2", "-2"][:E]})
    c0 = float(Fraction(rng.randint(-12, 12), 4))
    k = rng.randrange(n)
    cap = float(rng.randint(-3, 1))
    # (derived from the draws above: the random stream stays as it was)
    nom = [0.5, 1.0, 4.0][int(abs(c0 * 4)) % 3]
    wgt = [1.0, 3.0][k % 2]
    desc = {"n": n, "E": E, "offset": c0, "time_index": k, "cap": cap, "function_nominal": nom, "weight": wgt}

    def f_of(op, em):
        # depends on the ensemble member through state_at
        return op.state_at("y", float(times[k]), ensemble_member=em) - c0

    def common(op):
        class Cap(Goal):              # keeps y away from the offset for some members: |f| > 0 at the optimum
            priority = 1
            target_max = cap
            function_range = (-40.0, 40.0)
            order = 1

            def function(self, op, em):
                return op.state("u")
        return [Cap()]

    def make(minabs):
        rec = {"obj": []}
        Base = problems.make_base(dict(spec))
        aabs = ca.MX.sym("aabs")
        mixins = (MinAbsGoalProgrammingMixin, GoalProgrammingMixin) if minabs else (GoalProgrammingMixin,)

        class P(*mixins, Base):
            def solver_options(self):
                o = super().solver_options()
                o["ipopt"] = {"print_level": 0, "tol": 1e-10}
                o["print_time"] = False
                return o

            def priority_completed(self, priority):
                rec["obj"].append(float(self.objective_value))

            @property
            def extra_variables(self):
                # (the user's class sits above the mixins, as in the examples)
                return super().extra_variables + ([] if minabs else [aabs])

            def bounds(self):
                b = super().bounds()
                if not minabs:
                    b["aabs"] = (0.0, np.inf)
                return b

            def path_goals(self):
                return common(self)

            def min_abs_goals(self):
                if not minabs:
                    return []

                class A(MinAbsGoal):
                    priority = 2
                    function_nominal = nom
                    weight = wgt

                    def function(self, op, em):
                        return f_of(op, em)
                return [A()]

            def constraints(self, ensemble_member):
                cons = super().constraints(ensemble_member)
                if not minabs:
                    a = self.extra_variable("aabs", ensemble_member)
                    f = f_of(self, ensemble_member)
                    cons.append((f - a, -np.inf, 0.0))
                    cons.append((f + a, 0.0, np.inf))
                return cons

            def goals(self):
                gs = super().goals()
                if not minabs:
                    class A(Goal):
                        priority = 2
                        order = 1
                        function_nominal = nom
                        weight = wgt

                        def function(self, op, em):
                            return op.extra_variable("aabs", em)
                    gs.append(A())
                return gs
        return P, rec
    return desc, make


def further_pairs(ctx):
    rng = ctx.rng
    import random
    jobs = [("vector", vector_pair(rng, force_scale=(i < 2))) for i in range(ctx.n(4, 120))] + [("minabs", minabs_pair(rng)) for _ in range(ctx.n(4, 120))] + \
        [("vector", vector_pair(random.Random(170 + i), False, True)) for i in range(ctx.n(2, 20))]
    for kind, (desc, make) in jobs:
        outs = []
        for flag in (True, False):
            P, rec = make(flag)
            k, val = in_child(lambda: _run_gp(P, rec), timeout=120)
            outs.append(val if k == "ok" else {"child": k, "detail": str(val)[:200]})
        ctx.runtime_samples += 1
        ctx.count("pair_" + kind)
        ctx.case_done(core.fingerprint([kind, desc.get("E"), desc.get("n"), desc.get("order"), desc.get("scale_by_problem_size")]), desc.get("E", 1) > 1 or kind == "vector")
        a, b = outs
        rep = {"pair": kind, "case": desc, "first": a, "second": b}
        if "child" in a or "child" in b:
            ctx.count("pair_child_problem")
            if kind == "minabs" or "Error" in str(a) + str(b):
                ctx.violation("pair/%s-exception" % kind, rep, no_input=True, what="one side of the %s pair failed to run: %s" % (kind, (a.get("detail") or b.get("detail"))))
            continue
        if not (a["ok"] and b["ok"]):
            ctx.count("pair_unsolved")
            continue
        names = {"vector": ("one vector goal", "its scalar goals"), "minabs": ("MinAbsGoal", "explicit two-sided formulation")}[kind]
        # run_gp records through a child: objectives are in the returned dict of the child copy
        if not close_lists(a["objectives"], b["objectives"], 1e-4):
            ctx.violation("pair/" + kind, rep, what="%s and %s give different optimal values per priority: %s vs %s" % (names[0], names[1], a["objectives"], b["objectives"]))
        elif len(ctx.samples) < 4:
            ctx.sample({"pair": kind, "case": desc, "objective_values": a["objectives"]})


_run_core = run


def run(ctx):  # noqa: F811
    _run_core(ctx)
    if not os.environ.get("VERIF_REPLAY"):
        further_pairs(ctx)
