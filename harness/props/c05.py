"""C05 — variable bounds and initial conditions are imposed exactly as given."""
import json

from .. import core, tr, trcheck

ID = "C05"
PROPS_FILE = "props/C05.v"
MODEL_FILES = ["Xq", "Interp", "Expr", "Transcribe"]
RULE = ("generated problems with, per variable, bound kinds None / scalar / +-inf / Timeseries on the "
        "variable's own stamps (shorter than the horizon, starting before t0) x nominals x own coarser "
        "control grids with all interpolation modes x histories (absent, one point, several points, NaN "
        "at t0, NaN before t0) x 1-3 members; lbx / ubx and the initial-derivative rows of transcribe() "
        "are compared entry by entry. non-trivial = a Timeseries bound or a history; distinct = "
        "abstracted problem shapes"
        ' Also: scalar and vector path variables (per-component bounds), extra variables, a second bound source merged with merge_bounds, histories with gaps further back than the last two points.')
MODELLED = ("_collint_get_lbx_ubx (2046-2127), the history / initial-derivative pins and rows of transcribe() "
            "(1276-1349), initial-derivative nominals (265-294)")
NOT_MODELLED = "vector-valued variables (per-component bounds), bounds merged from several sources (C19 merge_bounds, C14)"
ASSUMPTIONS = ["history series end at t0 (the code asserts it)"]

FEAT = {"bounds": True, "history": True, "pvars": True}


def run(ctx):
    rs = trcheck.replay_spec()
    specs = [rs] if rs else [c["spec"] for c in core.corpus_cases(ID)] + \
        [tr.gen_spec(ctx.rng, FEAT) for _ in range(ctx.n(150, 5000))]
    rows = trcheck.run_cases(ctx, ID, specs, probes=1)
    for s, o, m, diffs in rows:
        has_ts = any(isinstance(b, dict) for v in s.get("bounds", {}).values() for b in v)
        has_h = any(h for h in s.get("history", []))
        ctx.case_done(trcheck.shape_of(s), has_ts or has_h)
        for v in s.get("bounds", {}).values():
            for b in v:
                ctx.count("bound_" + ("none" if b is None else "series" if isinstance(b, dict) else "inf" if "inf" in str(b) else "scalar"))
        for h in s.get("history", []):
            for hv in h.values():
                ctx.count("history_len_%d%s" % (len(hv["values"]), "_nan_t0" if hv["values"][-1] == "nan" else ""))
        if o is not None and (has_ts or has_h):
            ctx.sample({"spec": s, "lbx": o["lbx"], "ubx": o["ubx"], "model": [[str(a), str(b)] for a, b in m[1]]})
        bad = [d for d in (diffs or []) if d[0] in ("x-size", "x-bounds", "layout", "impl-exception")]
        idr = [d for d in (diffs or []) if d[0] in ("g-size", "g-rows-count", "g-row", "g-bounds")]
        if bad:
            ctx.violation("bounds/box", {"spec": s, "differences": bad[:4]},
                          what="variable bounds / history pins differ from the given ones: %s" % json.dumps(bad[0], default=str)[:300])
        elif idr:
            ctx.violation("bounds/initial-derivative-rows", {"spec": s, "differences": idr[:4]},
                          what="initial condition rows differ: %s" % json.dumps(idr[0], default=str)[:300])
