"""C05 — variable bounds and initial conditions are imposed exactly as given."""
import json
import os
from fractions import Fraction

from .. import core, tr, trcheck

ID = "C05"
PROPS_FILE = "props/C05.v"
MODEL_FILES = ["Xq", "Interp", "Expr", "Transcribe"]
RULE = ("generated problems with, per variable, bound kinds None / scalar / +-inf / Timeseries on the "
        "variable's own stamps (shorter than the horizon, starting before t0) x nominals x own coarser "
        "control grids with all interpolation modes x histories (absent, one point, several points, NaN "
        "at t0, NaN before t0) x 1-3 members; lbx / ubx and the initial-derivative rows of transcribe() "
        "are compared entry by entry. non-trivial = a Timeseries bound or a history; distinct = "
        "abstracted problem shapes"
        ' Also: scalar and vector path variables (per-component bounds), extra variables, a second bound source merged with merge_bounds, histories with gaps further back than the last two points.')
MODELLED = ("_collint_get_lbx_ubx (2046-2127), the history / initial-derivative pins and rows of transcribe() "
            "(1276-1349), initial-derivative nominals (265-294)")
NOT_MODELLED = "vector-valued variables (per-component bounds), bounds merged from several sources (C19 merge_bounds, C14)"
ASSUMPTIONS = ["history series end at t0 (the code asserts it)"]

FEAT = {"bounds": True, "history": True, "pvars": True}


def run(ctx):
    rs = trcheck.replay_spec()
    specs = [rs] if rs else [c["spec"] for c in core.corpus_cases(ID)] + \
        [tr.gen_spec(ctx.rng, FEAT) for _ in range(ctx.n(150, 5000))]
    rows = trcheck.run_cases(ctx, ID, specs, probes=1)
    for s, o, m, diffs in rows:
        has_ts = any(isinstance(b, dict) for v in s.get("bounds", {}).values() for b in v)
        has_h = any(h for h in s.get("history", []))
        ctx.case_done(trcheck.shape_of(s), has_ts or has_h)
        for v in s.get("bounds", {}).values():
            for b in v:
                ctx.count("bound_" + ("none" if b is None else "series" if isinstance(b, dict) else "inf" if "inf" in str(b) else "scalar"))
        for h in s.get("history", []):
            for hv in h.values():
                ctx.count("history_len_%d%s" % (len(hv["values"]), "_nan_t0" if hv["values"][-1] == "nan" else ""))
        if o is not None and (has_ts or has_h):
            ctx.sample({"spec": s, "lbx": o["lbx"], "ubx": o["ubx"], "model": [[str(a), str(b)] for a, b in m[1]]})
        bad = [d for d in (diffs or []) if d[0] in ("x-size", "x-bounds", "layout", "impl-exception")]
        idr = [d for d in (diffs or []) if d[0] in ("g-size", "g-rows-count", "g-row", "g-bounds")]
        if bad:
            ctx.violation("bounds/box", {"spec": s, "differences": bad[:4]},
                          what="variable bounds / history pins differ from the given ones: %s" % json.dumps(bad[0], default=str)[:300])
        elif idr:
            ctx.violation("bounds/initial-derivative-rows", {"spec": s, "differences": idr[:4]},
                          what="initial condition rows differ: %s" % json.dumps(idr[0], default=str)[:300])


# ---- controls that are not shared by the members; bounds that arrive through the I/O mixins ------------------
def member_control_boxes(ctx):
    """scenario trees / PlanningMixin: every control entry of every member carries the user's bounds and the
    member's own history pin at t0 (cases and oracle shared with C07)"""
    from . import c07
    cases = c07.dup_tree_cases()[:4]
    for i, c in enumerate(c07.dup_tree_cases()[4:10]):
        c = dict(c, mode=["planning_only", "tree"][i % 2], planning=True)
        cases.append(c)
    for c in cases:
        try:
            idx, branches, sidx, nx = c07.observe_tree(c)
        except Exception as e:  # noqa: BLE001
            ctx.count("tree_box_exception_" + type(e).__name__)
            continue
        lbx, ubx = c07.observe_tree.boxes
        ctx.count("member_control_box_cases")
        ctx.case_done(core.fingerprint(["tree-boxes", c["mode"], c["planning"], c["E"], c["seg_lens"]]), True)
        probs = c07.box_problems(c, idx, lbx, ubx)
        if probs:
            ctx.violation("bounds/control-entries", {"case": c, "problems": probs[:6]},
                          what="a control entry of an ensemble member is not boxed as given: %s" % probs[0])


def io_bound_series(ctx):
    """<var>_Min / <var>_Max series read by the I/O mixins, also when only one side is given (cases and oracle
    shared with C12)"""
    import random
    from concurrent.futures import ProcessPoolExecutor
    from . import c12
    r2 = random.Random(505)
    specs = []
    for i in range(ctx.n(6, 60)):
        c = c12.gen_case(r2, "opt", "csv")
        c["ops"] = []
        c.pop("initial_state", None)
        s0 = c["series"]["0"]
        # one-sided: an upper series without a lower one and the other way round
        for nm in (("u_Min",), ("u_Max",), ("u_Min", "x_Max"))[i % 3]:
            for m in c["series"]:
                c["series"][m].pop(nm, None)
        if i % 3 == 0 and "u_Max" not in s0:
            for m in c["series"]:
                c["series"][m]["u_Max"] = [str(Fraction(2 + (k % 3), 2)) for k in range(len(c["axis"]))]
        if i % 3 == 1 and "u_Min" not in s0:
            for m in c["series"]:
                c["series"][m]["u_Min"] = [str(Fraction(-2 - (k % 3), 2)) for k in range(len(c["axis"]))]
        specs.append(c)
    with ProcessPoolExecutor(max_workers=6) as ex:
        results = list(ex.map(c12.safe_run, specs))
    for spec, res in zip(specs, results):
        ctx.count("io_bound_cases")
        ctx.case_done(core.fingerprint(["io-bounds", sorted(k for k in spec["series"]["0"] if "_M" in k), len(spec["axis"])]), True)
        if "error" in res:
            ctx.count("io_bound_case_exception")
            continue
        terms, keys = c12.case_terms(spec)
        vals = core.eval_terms(ID + "io", ["Xq", "TimeAxis"], terms)
        bad = [b for b in c12.compare(ctx, spec, res, vals, keys) if b[0] == "bounds"]
        # a side for which no series is given is the declared bound alone
        decl = {"u": (-4.0, 4.0), "x": (-50.0, 50.0)}
        for var in ("u", "x"):
            for k, side in enumerate(("Min", "Max")):
                if "%s_%s" % (var, side) not in spec["series"]["0"]:
                    got = res["bounds"][var][k]
                    vals_ = got[1] if isinstance(got, list) else [got]
                    if any(abs(float(v) - decl[var][k]) > 1e-12 for v in vals_ if not isinstance(v, str)):
                        bad.append(("bounds", ["%s_%s absent" % (var, side), got], decl[var][k]))
        if bad:
            ctx.violation("bounds/io-series", {"spec": spec, "impl": bad[0][1], "expected": bad[0][2]},
                          what="bounds read from the input series: implementation %s, expected %s" % (str(bad[0][1])[:160], str(bad[0][2])[:160]))


_run_core = run


def run(ctx):  # noqa: F811
    _run_core(ctx)
    if not os.environ.get("VERIF_REPLAY"):
        member_control_boxes(ctx)
        io_bound_series(ctx)
