"""C20 — lookup tables evaluate, fit and invert their splines faithfully."""
import json
import math
import os
import shutil
import tempfile
from concurrent.futures import ProcessPoolExecutor
from fractions import Fraction

import numpy as np

from .. import core
from ..core import gq, glist, goption, gz

ID = "C20"
PROPS_FILE = "props/C20.v"
MODEL_FILES = ["BSpline"]
RULE = ("three-way evaluation: generated knot vectors (orders 0-3, clamped and unclamped ends, repeated interior knots), weights "
        "and evaluation points (every knot, both ends, mid points, points outside) through rtc-tools' BSpline1D / BSpline2D "
        "CasADi functions, the Gallina spline evaluated exactly in Coq, and SciPy splev / bisplev inside the base interval; "
        "BSpline1D.fit on generated tables (sizes 6-16, uneven spacing, noise, every monotonicity / curvature option): sign of "
        "the first differences / of SciPy's second derivative at the fit's own test points, interpolation of the data when the "
        "options do not bind; CSVLookupTableMixin on generated lookup_tables folders: table values against SciPy on the fitted "
        "tck over the whole domain, NaN inputs, reverse_call for values across and outside the range of increasing and "
        "decreasing tables against BSpline.reverse_decision, and edit-and-reload sequences with controlled modification "
        "times against BSpline.cache_valid (with and without curvefit_options.ini).  non-trivial = repeated knots / "
        "constrained fit / decreasing table / a reload sequence with an edit; distinct = abstracted shapes")
MODELLED = "bspline.py basis recursion, bspline1d.py / bspline2d.py __call__ (guards included), LookupTable range / reverse_call decisions, fit-cache validity"
NOT_MODELLED = ("the constrained least-squares solve (IPOPT) and brentq: their results are judged at the test points / by f(x) = y; "
                "'monotone coefficients imply a monotone spline' is not proved (checked at the test points, as the property words it); "
                "2-D tables have no cache and no inverse in the code")
ASSUMPTIONS = ["knot vectors are non-decreasing (what fit() and SciPy produce)"]


# ---- generators ---------------------------------------------------------------------------------------
def gen_knots(rng, k, n_int=None):
    n_int = rng.randint(0, 5) if n_int is None else n_int
    lo = Fraction(rng.randint(-8, 4), rng.choice([1, 2]))
    pts = [lo]
    for _ in range(n_int + 1):
        step = Fraction(rng.randint(1, 6), rng.choice([1, 2, 4]))
        pts.append(pts[-1] + step)
    interior = pts[1:-1]
    if interior and rng.random() < 0.3:
        j = rng.randrange(len(interior))
        interior = interior[:j + 1] + [interior[j]] * rng.randint(1, min(2, k) if k else 1) + interior[j + 1:]
    if rng.random() < 0.7:
        ts = [pts[0]] * (k + 1) + interior + [pts[-1]] * (k + 1)
    else:
        # unclamped: distinct knots beyond the ends
        left = [pts[0] - Fraction(i + 1, 2) for i in reversed(range(k))] + [pts[0]]
        right = [pts[-1]] + [pts[-1] + Fraction(i + 1, 2) for i in range(k)]
        ts = left + interior + right
    return ts


def gen_points(rng, ts, k):
    pts = set(ts)
    u = sorted(set(ts))
    for a, b in zip(u, u[1:]):
        pts.add((a + b) / 2)
        pts.add(a + (b - a) * Fraction(rng.randint(1, 15), 16))
    pts.add(ts[0] - 1)
    pts.add(ts[-1] + Fraction(1, 2))
    return sorted(pts)


def gen_eval_case(rng):
    if rng.random() < 0.75:
        k = rng.choice([0, 1, 2, 3, 3])
        ts = gen_knots(rng, k)
        nb = len(ts) - k - 1
        ws = [Fraction(rng.randint(-20, 20), rng.choice([1, 2, 4])) for _ in range(nb + rng.choice([0, 0, k + 1]))]
        return {"dim": 1, "k": k, "t": [str(t) for t in ts], "w": [str(w) for w in ws], "x": [str(p) for p in gen_points(rng, ts, k)]}
    kx, ky = rng.choice([1, 2, 3]), rng.choice([1, 2, 3])
    tx, ty = gen_knots(rng, kx, rng.randint(0, 2)), gen_knots(rng, ky, rng.randint(0, 2))
    nbx, nby = len(tx) - kx - 1, len(ty) - ky - 1
    ws = [Fraction(rng.randint(-20, 20), rng.choice([1, 2])) for _ in range(nbx * nby)]
    px, py = gen_points(rng, tx, kx), gen_points(rng, ty, ky)
    pts = [(rng.choice(px), rng.choice(py)) for _ in range(12)] + [(tx[0], ty[0]), (tx[-1], ty[-1]), (tx[kx], ty[-1])]
    return {"dim": 2, "kx": kx, "ky": ky, "tx": [str(t) for t in tx], "ty": [str(t) for t in ty], "w": [str(w) for w in ws],
            "xy": [[str(a), str(b)] for a, b in pts]}


def gen_table(rng, kind=None):
    """tabulated data for a 1-D lookup table and the options to fit it with"""
    n = rng.randint(6, 16)
    x = [Fraction(rng.randint(-5, 5))]
    for _ in range(n - 1):
        x.append(x[-1] + Fraction(rng.randint(1, 8), rng.choice([1, 2, 4])))
    kind = kind or rng.choice(["inc_convex", "inc_concave", "dec_convex", "dec_concave", "inc", "dec", "free", "noisy_inc", "noisy_free"])
    span = float(x[-1] - x[0])
    xs = [float(v - x[0]) / span for v in x]          # 0..1
    f = {"inc_convex": lambda s: 3 * s * s + s, "inc_concave": lambda s: 4 * math.sqrt(s + 0.05), "dec_convex": lambda s: 3 * (1 - s) ** 2 + (1 - s),
         "dec_concave": lambda s: 5 - 3 * s * s - s, "inc": lambda s: s + 0.3 * math.sin(3 * s) + 2 * s ** 3, "dec": lambda s: 25 - 20 * s * s - s,
         "free": lambda s: math.sin(5 * s) + s, "noisy_inc": lambda s: 2 * s + s * s, "noisy_free": lambda s: math.cos(4 * s)}[kind]
    scale = rng.choice([1, 10, 100])
    noise = 0.02 if kind.startswith("noisy") else 0.0
    y = [round(scale * (f(s) + noise * rng.uniform(-1, 1)), 6) for s in xs]
    mono = {"inc_convex": 1, "inc_concave": 1, "dec_convex": -1, "dec_concave": -1, "inc": 1, "dec": -1, "free": 0, "noisy_inc": 1, "noisy_free": 0}[kind]
    curv = {"inc_convex": 1, "inc_concave": -1, "dec_convex": 1, "dec_concave": -1}.get(kind, 0)
    if rng.random() < 0.3:
        mono = 0 if rng.random() < 0.5 else mono
        curv = 0
    return {"kind": kind, "x": [float(v) for v in x], "y": y, "mono": mono, "curv": curv, "exact": noise == 0.0}


def opposed_tables():
    """options that contradict the shape of the data (the fit must satisfy the request, not the data), both
    options at once"""
    import random
    out = []
    for i, (kind, mono, curv) in enumerate((("inc_convex", 1, -1), ("dec_concave", -1, 1), ("inc_concave", 1, 1), ("dec_convex", -1, -1),
                                            ("inc", -1, 0), ("inc_convex", 0, -1),
                                            # "is an integer, magnitude is ignored"
                                            ("inc", -3, 0), ("dec", 2, 0), ("dec_convex", 5, 2))):
        t = gen_table(random.Random(700 + i), kind)
        t.update({"mono": mono, "curv": curv, "exact": False, "kind": kind + "_opposed"})
        out.append(t)
    # other spline orders: unconstrained least squares with one coefficient per data point reproduces the data
    for i, k in enumerate((1, 2, 4, 5)):
        t = gen_table(random.Random(760 + i), "free")
        t.update({"mono": 0, "curv": 0, "k": k, "kind": "free_order_%d" % k})
        out.append(t)
    return out


# ---- implementation side ------------------------------------------------------------------------------------
def quiet():
    fd = os.open(os.devnull, os.O_WRONLY)
    os.dup2(fd, 1)
    os.dup2(fd, 2)


def run_eval(case):
    import casadi as ca
    from scipy.interpolate import bisplev, splev
    from rtctools.data.interpolation.bspline1d import BSpline1D
    from rtctools.data.interpolation.bspline2d import BSpline2D
    if case["dim"] == 1:
        t = [float(Fraction(v)) for v in case["t"]]
        w = [float(Fraction(v)) for v in case["w"]]
        k = case["k"]
        x = ca.SX.sym("x")
        f = ca.Function("f", [x], [BSpline1D(t, w, k)(x)])
        vals = [float(f(float(Fraction(p)))) for p in case["x"]]
        ref = []
        for p in case["x"]:
            pf = float(Fraction(p))
            if k >= 1 and t[k] <= pf < t[len(t) - k - 1]:
                nb = len(t) - k - 1
                ref.append(float(splev(pf, (np.array(t), np.array(w[:nb] + [0.0] * (k + 1)), k))))
            else:
                ref.append(None)
        return {"rtc": vals, "scipy": ref}
    tx = [float(Fraction(v)) for v in case["tx"]]
    ty = [float(Fraction(v)) for v in case["ty"]]
    w = [float(Fraction(v)) for v in case["w"]]
    x, y = ca.SX.sym("x"), ca.SX.sym("y")
    f = ca.Function("f", [x, y], [BSpline2D(tx, ty, w, case["kx"], case["ky"])(x, y)])
    vals, ref = [], []
    for a, b in case["xy"]:
        af, bf = float(Fraction(a)), float(Fraction(b))
        vals.append(float(f(af, bf)))
        if tx[case["kx"]] <= af < tx[len(tx) - case["kx"] - 1] and ty[case["ky"]] <= bf < ty[len(ty) - case["ky"] - 1]:
            ref.append(float(bisplev(af, bf, (np.array(tx), np.array(ty), np.array(w), case["kx"], case["ky"]))))
        else:
            ref.append(None)
    return {"rtc": vals, "scipy": ref}


def run_fit(tab):
    quiet()
    from scipy.interpolate import splev
    from rtctools.data.interpolation.bspline1d import BSpline1D
    x, y = np.array(tab["x"]), np.array(tab["y"])
    try:
        t, c, k = BSpline1D.fit(x, y, k=tab.get("k", 3), monotonicity=tab["mono"], curvature=tab["curv"], ipopt_options={"print_level": 0})
    except Exception as e:  # noqa: BLE001
        return {"error": "%s: %s" % (type(e).__name__, str(e)[:160])}
    tp = np.linspace(x[0], x[-1], 100)
    tck = (t, c, k)
    return {"t": [float(v) for v in t], "c": [float(v) for v in c], "k": int(k),
            "f_test": [float(v) for v in splev(tp, tck)], "d2_test": [float(v) for v in splev(tp, tck, der=2)] if k >= 2 else [0.0] * len(tp),
            "d1_test": [float(v) for v in splev(tp, tck, der=1)], "f_data": [float(v) for v in splev(x, tck)]}


def make_problem(folder):
    from rtctools.optimization.csv_lookup_table_mixin import CSVLookupTableMixin
    from .. import problems
    P = problems.make_base({"times": ["0", "1"], "states": [], "algebraics": ["a"], "controls": [], "residual": [["-", ["v", "a"], ["c", "1"]]]},
                           mixins=(CSVLookupTableMixin,))
    return P(lookup_table_folder=folder)


def write_table(folder, name, tab, ini=True):
    with open(os.path.join(folder, name + ".csv"), "w") as fh:
        fh.write("%s,%s_in\n" % (name, name))
        for xv, yv in zip(tab["x"], tab["y"]):
            fh.write("%r,%r\n" % (yv, xv))


def write_ini(folder, tables):
    with open(os.path.join(folder, "curvefit_options.ini"), "w") as fh:
        for name, tab in tables.items():
            fh.write("[%s]\nmonotonicity = %d\ncurvature = %d\n\n" % (name, tab["mono"], tab["curv"]))


def run_lookup(case):
    """tables through the mixin: values, NaN, inverse"""
    quiet()
    from scipy.interpolate import splev
    base = tempfile.mkdtemp(prefix="verif_c20_")
    try:
        tables = case["tables"]
        for name, tab in tables.items():
            write_table(base, name, tab)
        if case["ini"]:
            write_ini(base, tables)
        if case.get("table2d"):
            t2 = case["table2d"]
            with open(os.path.join(base, "surf.csv"), "w") as fh:
                fh.write("surf,sx,sy\n")
                for xv in t2["x"]:
                    for yv in t2["y"]:
                        fh.write("%r,%r,%r\n" % (t2["a"] * xv + t2["b"] * yv + t2["c"] * xv * yv + 0.1 * xv * xv, xv, yv))
        p = make_problem(base)
        p.pre()
        out = {}
        if case.get("table2d"):
            from scipy.interpolate import bisplev
            lt2 = p.lookup_tables(0)["surf"]
            tx, ty = lt2._LookupTable__t
            c2 = lt2._LookupTable__c
            kx, ky = lt2._LookupTable__k
            t2 = case["table2d"]
            pts = [(t2["x"][0] + f * (t2["x"][-1] - t2["x"][0]), t2["y"][0] + g * (t2["y"][-1] - t2["y"][0]))
                   for f, g in ((0.1, 0.2), (0.5, 0.5), (0.33, 0.8), (0.9, 0.15), (0.0, 0.0), (0.7, 0.7))]
            o2 = {"points": pts, "table": [float(lt2(a, b)) for a, b in pts],
                  "ref": [float(bisplev(a, b, (tx, ty, c2, kx, ky))) for a, b in pts], "nan": []}
            for a, b in ((pts[1][0], float("nan")), (float("nan"), pts[1][1]), (float("nan"), float("nan"))):
                v = float(lt2(a, b))
                o2["nan"].append(None if math.isnan(v) else v)
            out["__2d__"] = o2
        for name, tab in tables.items():
            lt = p.lookup_tables(0)[name]
            t, c, k = lt._LookupTable__t, lt._LookupTable__c, lt._LookupTable__k
            lo, hi = lt.domain
            xs = list(np.linspace(lo, hi, 25)) + [v for v in tab["x"] if lo <= v <= hi]
            o = {"domain": [float(lo), float(hi)], "range": [float(v) for v in lt.range], "xs": [float(v) for v in xs],
                 "table": [float(v) for v in lt(xs)], "scalar": float(lt(xs[3])), "ref": [float(v) for v in splev(xs, (t, c, k))],
                 "nan": [None if math.isnan(v) else float(v) for v in lt([xs[1], float("nan"), xs[2]])],
                 "nan_scalar": lt(float("nan")), "flo": float(lt(lo)), "fhi": float(lt(hi)),
                 "d2_test": [float(v) for v in splev(np.linspace(lo, hi, 100), (t, c, k), der=2)] if k >= 2 else []}
            o["nan_scalar"] = None if math.isnan(o["nan_scalar"]) else o["nan_scalar"]
            # inverse
            ylo, yhi = min(o["flo"], o["fhi"]), max(o["flo"], o["fhi"])
            span = yhi - ylo
            ys = [ylo, yhi] + [ylo + span * f for f in (0.1, 0.37, 0.5, 0.83)] + [ylo - 0.1 * span - 1e-3, yhi + 0.1 * span + 1e-3]
            ys += [float(np.nextafter(yhi, -np.inf)), float(np.nextafter(ylo, np.inf))]
            inv = []
            for yv in ys:
                try:
                    xv = lt.reverse_call(yv)
                    inv.append({"y": yv, "x": float(xv), "fx": float(lt(xv))})
                except ValueError as e:
                    inv.append({"y": yv, "raised": str(e)[:80]})
            o["inverse"] = inv
            try:
                r = lt.reverse_call([ys[1], float("nan"), ys[3]])
                o["inverse_nan"] = [None if math.isnan(v) else float(v) for v in r]
            except Exception as e:  # noqa: BLE001
                o["inverse_nan"] = {"raised": "%s: %s" % (type(e).__name__, str(e)[:80])}
            out[name] = o
        return out
    finally:
        shutil.rmtree(base, ignore_errors=True)


def run_cache(case):
    """edit-and-reload sequence with controlled modification times"""
    quiet()
    base = tempfile.mkdtemp(prefix="verif_c20_")
    try:
        tab = case["table"]
        write_table(base, "tab", tab)
        clock = [1_600_000_000]

        def stamp(path):
            clock[0] += 10
            os.utime(path, (clock[0], clock[0]))
        csvp, inip, npzp = (os.path.join(base, f) for f in ("tab.csv", "curvefit_options.ini", "tab.npz"))
        stamp(csvp)
        if case["ini"]:
            write_ini(base, {"tab": tab})
            stamp(inip)
        log = []
        for op in case["ops"]:
            if op == "edit_csv":
                write_table(base, "tab", dict(tab, y=[v + 0.5 for v in tab["y"]]))
                tab = dict(tab, y=[v + 0.5 for v in tab["y"]])
                stamp(csvp)
            elif op == "touch_csv":
                stamp(csvp)
            elif op == "edit_ini":
                write_ini(base, {"tab": dict(tab, mono=0, curv=0)})
                stamp(inip)
            elif op == "remove_ini":
                if os.path.exists(inip):
                    os.remove(inip)
            elif op == "pre":
                before = {"csv": int(os.path.getmtime(csvp)), "ini": int(os.path.getmtime(inip)) if os.path.exists(inip) else None,
                          "npz": int(os.path.getmtime(npzp)) if os.path.exists(npzp) else None}
                if os.path.exists(npzp):
                    # give the cache a controlled time stamp and remember its content
                    content = open(npzp, "rb").read()
                else:
                    content = None
                try:
                    p = make_problem(base)
                    p.pre()
                    lt = p.lookup_tables(0)["tab"]
                    val = float(lt(tab["x"][2]))
                    err = None
                except Exception as e:  # noqa: BLE001
                    val, err = None, "%s: %s" % (type(e).__name__, str(e)[:120])
                rewritten = os.path.exists(npzp) and (content is None or int(os.path.getmtime(npzp)) != before["npz"])
                if os.path.exists(npzp) and rewritten:
                    stamp(npzp)
                    if os.path.exists(os.path.join(base, "tab.ca")):
                        os.utime(os.path.join(base, "tab.ca"), (clock[0], clock[0]))
                log.append({"before": before, "refit": bool(rewritten), "value": val, "expected_value": tab["y"][2], "error": err})
        return {"log": log}
    finally:
        shutil.rmtree(base, ignore_errors=True)


def safe(fn, arg):
    try:
        return fn(arg)
    except Exception as e:  # noqa: BLE001
        import traceback
        return {"error": "%s: %s | %s" % (type(e).__name__, str(e)[:200], traceback.format_exc()[-600:])}


def w_eval(c):
    return safe(run_eval, c)


def w_fit(c):
    return safe(run_fit, c)


def w_lookup(c):
    return safe(run_lookup, c)


def w_cache(c):
    return safe(run_cache, c)


# ---- model terms ---------------------------------------------------------------------------------------------
def gql(xs):
    return glist(xs, lambda v: gq(Fraction(v)))


def eval_term(case):
    if case["dim"] == 1:
        return "flat_map (fun x => ser_q (spline1d %s %s %d%%nat x)) %s" % (gql(case["t"]), gql(case["w"]), case["k"], gql(case["x"]))
    return "flat_map (fun p => ser_q (spline2d %s %s %s %d%%nat %d%%nat (fst p) (snd p))) %s" % (
        gql(case["tx"]), gql(case["ty"]), gql(case["w"]), case["kx"], case["ky"],
        glist(case["xy"], lambda p: "(%s, %s)" % (gq(Fraction(p[0])), gq(Fraction(p[1])))))


def close(a, b, tol=1e-9):
    return abs(a - b) <= tol * max(1.0, abs(a), abs(b))


def run(ctx):
    replay = os.environ.get("VERIF_REPLAY")
    rng = ctx.rng
    if replay:
        r = json.load(open(replay))["replay"]
        evals = [r["case"]] if r.get("kind") == "eval" else []
        fits = [r["case"]] if r.get("kind") == "fit" else []
        lookups = [r["case"]] if r.get("kind") == "lookup" else []
        caches = [r["case"]] if r.get("kind") == "cache" else []
    else:
        corpus = core.corpus_cases(ID)
        evals = [c["case"] for c in corpus if c.get("kind") == "eval"] + [gen_eval_case(rng) for _ in range(ctx.n(60, 3000))]
        fits = [c["case"] for c in corpus if c.get("kind") == "fit"] + opposed_tables() + [gen_table(rng) for _ in range(ctx.n(14, 500))]
        lookups = [c["case"] for c in corpus if c.get("kind") == "lookup"]
        # options that only the ini file carries, contradicting the shape of the data
        ot = opposed_tables()
        lookups.append({"tables": {"tabc": ot[5], "tabm": ot[0]}, "ini": True})
        for _ in range(ctx.n(8, 250)):
            lookups.append({"tables": {"tab%d" % i: gen_table(rng, rng.choice(["inc_convex", "dec_convex", "inc", "dec", "dec_concave", "inc_concave"]))
                                       for i in range(rng.choice([1, 2]))}, "ini": rng.random() < 0.7})
            if rng.random() < 0.5:
                nx_, ny_ = rng.randint(5, 7), rng.randint(5, 8)
                lookups[-1]["table2d"] = {"x": [float(i) * rng.choice([1, 2]) for i in range(nx_)], "y": [0.5 * j for j in range(ny_)],
                                          "a": float(rng.randint(1, 4)), "b": float(rng.randint(-3, 3)), "c": float(rng.choice([0.5, -0.25, 1.0]))}
        caches = [c["case"] for c in corpus if c.get("kind") == "cache"]
        for _ in range(ctx.n(6, 150)):
            ops = ["pre"]
            for _ in range(rng.randint(1, 4)):
                ops.append(rng.choice(["pre", "edit_csv", "touch_csv", "edit_ini", "pre", "remove_ini"]))
                ops.append("pre") if rng.random() < 0.6 else None
            ops.append("pre")
            ini = rng.random() < 0.6
            if not ini:
                ops = [o for o in ops if o not in ("edit_ini", "remove_ini")]
            caches.append({"table": gen_table(rng, rng.choice(["inc", "free", "inc_convex"])), "ini": ini, "ops": ops})
    with ProcessPoolExecutor(max_workers=12) as ex:
        r_eval = list(ex.map(w_eval, evals, chunksize=8))
        r_fit = list(ex.map(w_fit, fits))
        r_lookup = list(ex.map(w_lookup, lookups))
        r_cache = list(ex.map(w_cache, caches))

    # ---- three-way evaluation
    vals = core.eval_terms(ID, ["BSpline"], [eval_term(c) for c in evals], shard=60) if evals else []
    for case, res, v in zip(evals, r_eval, vals):
        pts = case["x"] if case["dim"] == 1 else case["xy"]
        ts = case["t"] if case["dim"] == 1 else case["tx"]
        rep = len(set(ts)) < len(ts) - 2 * ((case.get("k", case.get("kx", 0))) + 1) + 2
        ctx.case_done(core.fingerprint(["eval", case["dim"], case.get("k"), case.get("kx"), case.get("ky"), len(ts), rep]), True)
        ctx.count("eval_%dd" % case["dim"])
        if "error" in res:
            ctx.violation("spline/exception", {"kind": "eval", "case": case, "error": res["error"]}, what="spline evaluation raised: %s" % res["error"][:120])
            continue
        model = [Fraction(v[2 * i], v[2 * i + 1]) for i in range(len(pts))]
        for i, p in enumerate(pts):
            if not close(res["rtc"][i], float(model[i])):
                ctx.violation("spline/evaluation", {"kind": "eval", "case": case, "point": p, "rtc": res["rtc"][i], "model": str(model[i]), "scipy": res["scipy"][i]},
                              what="spline at %s: rtc-tools %r, reference B-spline %r" % (p, res["rtc"][i], float(model[i])))
                break
            if res["scipy"][i] is not None and not close(res["scipy"][i], float(model[i]), 1e-8):
                ctx.violation("spline/scipy-disagrees", {"kind": "eval", "case": case, "point": p, "scipy": res["scipy"][i], "model": str(model[i])},
                              no_input=True, what="SciPy and the Gallina spline disagree at %s (harness or model issue)" % (p,))
                break
            if res["scipy"][i] is not None:
                ctx.count("scipy_points")
        if len(ctx.samples) < 2 and case["dim"] == 1:
            ctx.sample({"knots": case["t"], "k": case["k"], "points": case["x"][:6], "rtc": res["rtc"][:6], "model": [str(m) for m in model[:6]]})

    # ---- fits
    for tab, res in zip(fits, r_fit):
        ctx.case_done(core.fingerprint(["fit", tab["kind"], tab["mono"], tab["curv"], len(tab["x"])]), tab["mono"] != 0 or tab["curv"] != 0)
        ctx.count("fit_" + tab["kind"])
        rep = {"kind": "fit", "case": tab}
        if "error" in res:
            ctx.violation("fit/failed", dict(rep, error=res["error"]), what="BSpline1D.fit failed on a %s table: %s" % (tab["kind"], res["error"][:100]))
            continue
        scale = max(1.0, max(abs(v) for v in tab["y"]))
        f = res["f_test"]
        if tab["mono"] != 0:
            sgn = 1 if tab["mono"] > 0 else -1
            badm = [i for i in range(len(f) - 1) if sgn * (f[i + 1] - f[i]) < -1e-9 * scale]
            if badm:
                ctx.violation("fit/monotonicity", dict(rep, at=badm[:5], values=[f[i] for i in badm[:5]]),
                              what="fitted curve is not monotone (%+d) between test points %s" % (tab["mono"], badm[:3]))
        if tab["curv"] != 0:
            sgn = 1 if tab["curv"] > 0 else -1
            span = tab["x"][-1] - tab["x"][0]
            badc = [i for i, d2 in enumerate(res["d2_test"]) if sgn * d2 < -1e-6 * scale / span ** 2]
            if badc:
                ctx.violation("fit/curvature", dict(rep, at=badc[:5], values=[res["d2_test"][i] for i in badc[:5]]),
                              what="fitted curve has the wrong curvature sign (%+d) at test points %s" % (tab["curv"], badc[:3]))
        binding = tab["mono"] != 0 or tab["curv"] != 0
        if not binding:
            err = max(abs(a - b) for a, b in zip(res["f_data"], tab["y"]))
            if err > 1e-5 * scale:
                ctx.violation("fit/least-squares", dict(rep, max_error=err), what="an unconstrained cubic fit with one coefficient per data point misses the data by %g" % err)
        elif tab["exact"]:
            err = max(abs(a - b) for a, b in zip(res["f_data"], tab["y"]))
            if err > 0.02 * scale:
                ctx.violation("fit/least-squares", dict(rep, max_error=err), what="a fit whose options agree with the data misses it by %g" % err)

    # ---- lookup tables
    terms, meta = [], []
    for case, res in zip(lookups, r_lookup):
        dec = any(t["kind"].startswith("dec") for t in case["tables"].values())
        ctx.case_done(core.fingerprint(["lookup", sorted(t["kind"] for t in case["tables"].values()), case["ini"]]), dec)
        ctx.count("lookup_folders")
        rep = {"kind": "lookup", "case": case}
        if "error" in res:
            ctx.violation("lookup/exception", dict(rep, error=res["error"]), no_input="/repo/src/rtctools" not in res["error"],
                          what="loading a lookup_tables folder raised: %s" % res["error"][:140])
            continue
        o2 = res.pop("__2d__", None)
        if o2 is not None:
            ctx.count("lookup_2d_tables")
            for pt, a, b in zip(o2["points"], o2["table"], o2["ref"]):
                if not close(a, b, 1e-8):
                    ctx.violation("lookup/evaluation-2d", dict(rep, point=pt, value=a, reference=b), what="2-D lookup table at %s = %r, reference spline %r" % (pt, a, b))
                    break
            if any(v is not None for v in o2["nan"]):
                ctx.violation("lookup/nan-2d", dict(rep, got=o2["nan"]), what="a 2-D lookup table with a NaN argument returned %s instead of NaN" % (o2["nan"],))
        for name, o in res.items():
            tab = case["tables"][name]
            scale = max(1.0, max(abs(v) for v in tab["y"]))
            for xv, a, b in zip(o["xs"], o["table"], o["ref"]):
                if not close(a, b, 1e-8):
                    ctx.violation("lookup/evaluation", dict(rep, table=name, x=xv, value=a, reference=b), what="lookup table %s(%r) = %r, reference spline %r" % (name, xv, a, b))
                    break
            tab = case["tables"][name]
            if case["ini"] and tab["curv"] != 0 and o.get("d2_test"):
                sgn = 1 if tab["curv"] > 0 else -1
                sc_ = max(1.0, max(abs(v) for v in tab["y"])) / (tab["x"][-1] - tab["x"][0]) ** 2
                # (the mixin fits with IPOPT's default tolerances: the sign is held to about 1e-4 of the data's own curvature)
                badc = [i for i, d2 in enumerate(o["d2_test"]) if sgn * d2 < -1e-3 * sc_]
                if badc:
                    ctx.violation("lookup/curvature-option", dict(rep, table=name, at=badc[:5], values=[o["d2_test"][i] for i in badc[:5]]),
                                  what="table %s fitted through curvefit_options.ini (curvature = %+d) has the wrong curvature sign at test points %s" % (name, tab["curv"], badc[:3]))
            if not close(o["scalar"], o["table"][3], 1e-12):
                ctx.violation("lookup/scalar-vs-array", dict(rep, table=name), what="scalar and array calls disagree")
            if o["nan"][1] is not None or o["nan"][0] is None or o["nan_scalar"] is not None:
                ctx.violation("lookup/nan", dict(rep, table=name, got=o["nan"]), what="NaN input did not give NaN output (or spoiled its neighbours)")
            if isinstance(o["inverse_nan"], dict) or o["inverse_nan"][1] is not None or o["inverse_nan"][0] is None:
                ctx.violation("lookup/inverse-nan", dict(rep, table=name, got=o["inverse_nan"]), what="reverse_call with a NaN entry: %s" % (o["inverse_nan"],))
            for inv in o["inverse"]:
                terms.append("match reverse_decision (table_range %s %s) (Some %s) with RevNaN => [0%%Z] | RevReject => [1%%Z] | RevSolve => [2%%Z] end" % (
                    gq(Fraction(o["flo"])), gq(Fraction(o["fhi"])), gq(Fraction(inv["y"]))))
                meta.append((case, name, o, inv, scale))
    vals = core.eval_terms(ID + "rev", ["BSpline"], terms, shard=400) if terms else []
    for (case, name, o, inv, scale), v in zip(meta, vals):
        rep = {"kind": "lookup", "case": case, "table": name, "y": inv["y"], "range": o["range"], "f_at_domain_ends": [o["flo"], o["fhi"]]}
        # the two end values themselves belong to the range; only values a rounding error outside are not judged
        exact_end = inv["y"] in (o["flo"], o["fhi"])
        edge = (not exact_end) and min(abs(inv["y"] - o["flo"]), abs(inv["y"] - o["fhi"])) <= 1e-9 * scale
        if v[0] == 1:
            if "raised" not in inv and not edge:
                ctx.violation("lookup/inverse-accepted", dict(rep, got=inv), what="reverse_call accepted y = %r outside the range" % inv["y"])
        else:
            if "raised" in inv:
                if not edge:
                    ctx.violation("lookup/inverse-rejected", dict(rep, got=inv), what="reverse_call rejected y = %r inside the range (%r, %r): %s" % (inv["y"], o["flo"], o["fhi"], inv["raised"]))
            elif not close(inv["fx"], inv["y"], 1e-7):
                ctx.violation("lookup/inverse-value", dict(rep, got=inv), what="reverse_call(%r) = %r but f(x) = %r" % (inv["y"], inv["x"], inv["fx"]))
            ctx.count("inverse_points")

    # ---- cache validity
    terms, meta = [], []
    for case, res in zip(caches, r_cache):
        ctx.case_done(core.fingerprint(["cache", case["ini"], case["ops"]]), any(o != "pre" for o in case["ops"]))
        ctx.count("cache_sequences")
        rep = {"kind": "cache", "case": case}
        if "error" in res:
            ctx.violation("cache/exception", dict(rep, error=res["error"]), what="reload sequence raised: %s" % res["error"][:140])
            continue
        for i, step in enumerate(res["log"]):
            b = step["before"]
            terms.append("[if cache_valid %s %s %s then 1 else 0]%%Z" % (gz(b["csv"]), goption(b["ini"], gz), goption(b["npz"], gz)))
            meta.append((case, res, i, step))
    vals = core.eval_terms(ID + "cache", ["BSpline"], terms, shard=400) if terms else []
    for (case, res, i, step), v in zip(meta, vals):
        rep = {"kind": "cache", "case": case, "step": i, "log": res["log"]}
        if step["error"]:
            ctx.violation("cache/pre-raised", dict(rep, error=step["error"]), what="pre() number %d of a reload sequence raised %s" % (i + 1, step["error"][:100]))
            continue
        valid = v[0] == 1
        if step["refit"] == valid:
            ctx.violation("cache/validity", rep, what="pre() number %d %s although the cache was %s (mtimes %s)" % (
                i + 1, "refitted" if step["refit"] else "reused the cache", "valid" if valid else "stale", step["before"]))
        if not close(step["value"], step["expected_value"], 1e-3 * max(1.0, abs(step["expected_value"]))) and case["table"]["kind"] != "noisy_free":
            ctx.violation("cache/stale-values", rep, what="after pre() number %d the table gives %r where the file says %r" % (i + 1, step["value"], step["expected_value"]))
