"""C02 — later priorities never degrade earlier ones.

Deterministic part: _GoalConstraint.update_bounds, both copies of the hard-constraint builder and
the constraint-store update against Interval.v / Goals.v.  Solver part: real multi-priority runs,
the constraint stores after every priority against the model fed with the achieved epsilons, and
the attainment of every earlier goal re-evaluated on every later solution."""
import json
import math
import os
from collections import OrderedDict
from fractions import Fraction

import numpy as np

from .. import core, gp
from ..core import gq, gbool, glist, gz

ID = "C02"
PROPS_FILE = "props/C02.v"
MODEL_FILES = ["Xq", "Interval", "Goals"]
RULE = ("(A) random interval pairs (scalars, arrays, Timeseries; +-inf; inconsistent pairs) for "
        "update_bounds in both enforce modes; (B) random goals (target min/max/both, minimisation, "
        "critical; NaN/inf target steps; nominal, relaxation) x epsilon vectors x options "
        "(equality_threshold, violation_tolerance, constraint_relaxation, fix_minimized_values) for both "
        "copies of the hard-constraint builder, with and without an existing stored constraint; "
        "(C) sequences of store updates with shared function keys; (D) real multi-priority solves "
        "(multi-pass, keep-soft, single-pass) with goals sharing a quantity across priorities incl. "
        "critical goals: stores after each priority vs the model, attainment of earlier goals on later "
        "solutions. non-trivial = shared function key / critical merge / non-finite step; distinct = "
        "abstracted case shapes"
        ' Trade-off runs: kept soft constraints / single pass with unequal member probabilities and two-sided targets only one member can meet, and priorities whose optimal objective is negative, followed by a priority pulling the other way.')
MODELLED = ("goal_programming_mixin_base.py _GoalConstraint.update_bounds (449-493), _gp_goal_hard_constraint "
            "(970-1059), _gp_update_constraint_store (1061-1068); goal_programming_mixin.py "
            "__goal_hard_constraint (343-436), the store update of __soft_to_hard_constraints (438-556)")
NOT_MODELLED = "IPOPT (the achieved epsilons / function values are inputs to the model); vector goals (size > 1)"
ASSUMPTIONS = ["solver contract: success => returned point feasible within tolerance",
               "float arithmetic compared with the exact model to 1e-9 relative"]


def F(x):
    return Fraction(x)


def fx(x):
    return Fraction(float(x))


def gxf(v):
    v = float(v)
    if math.isnan(v):
        return "XNaN"
    if math.isinf(v):
        return "XPInf" if v > 0 else "XNInf"
    return "(XFin %s)" % gq(Fraction(v))


def close(a, b, tol=1e-9):
    a = float(a)
    b = float(b)
    if math.isnan(a) or math.isnan(b):
        return math.isnan(a) and math.isnan(b)
    if math.isinf(a) or math.isinf(b):
        return a == b
    return abs(a - b) <= tol * (1 + abs(a))


def dec_xq(it):
    tag = next(it)
    if tag == 0:
        return float("nan")
    if tag == 1:
        return float("-inf")
    if tag == 2:
        return float("inf")
    n = next(it)
    d = next(it)
    return Fraction(n, d)


def dec_itvs(it):
    n = next(it)
    return [(dec_xq(it), dec_xq(it)) for _ in range(n)]


# ---------------------------------------------------------------------------------------------------
# A. update_bounds
# ---------------------------------------------------------------------------------------------------
def rx(rng, allow_inf=True):
    r = rng.random()
    if allow_inf and r < 0.12:
        return math.inf
    if allow_inf and r < 0.24:
        return -math.inf
    return float(Fraction(rng.randint(-16, 16), rng.choice([1, 2, 4])))


def gen_ub(rng):
    n = rng.choice([1, 1, 2, 3, 4])
    kind = rng.choice(["scalar", "array", "ts"]) if n > 1 else "scalar"
    if kind == "scalar":
        n = 1

    def itv():
        a, b = rx(rng), rx(rng)
        if rng.random() < 0.85 and a > b:
            a, b = b, a
        return [a, b]
    return {"k": "ub", "kind": kind, "self": [itv() for _ in range(n)], "other": [itv() for _ in range(n)],
            "enforce": rng.choice(["self", "other"])}


def impl_ub(c):
    from rtctools.optimization.goal_programming_mixin_base import _GoalConstraint
    from rtctools.optimization.timeseries import Timeseries

    class G:
        size = len(c["self"])

    def mk(itvs):
        lo = np.array([i[0] for i in itvs], dtype=float)
        hi = np.array([i[1] for i in itvs], dtype=float)
        if c["kind"] == "scalar":
            return _GoalConstraint(G(), None, float(lo[0]), float(hi[0]), True)
        if c["kind"] == "array":
            return _GoalConstraint(G(), None, lo, hi, True)
        t = np.arange(len(itvs), dtype=float)
        return _GoalConstraint(G(), None, Timeseries(t, lo), Timeseries(t, hi), True)

    a, b = mk(c["self"]), mk(c["other"])
    a.update_bounds(b, enforce=c["enforce"])
    lo = a.min.values if isinstance(a.min, Timeseries) else np.ravel(a.min)
    hi = a.max.values if isinstance(a.max, Timeseries) else np.ravel(a.max)
    return [(float(x), float(y)) for x, y in zip(lo, hi)]


def g_itvs(itvs):
    return glist(itvs, lambda i: "{| lo := %s; hi := %s |}" % (gxf(i[0]), gxf(i[1])))


def term_ub(c):
    return "ser_itvs (update_bounds_l %s %s %s)" % (gbool(c["enforce"] == "self"), g_itvs(c["self"]), g_itvs(c["other"]))


def ref_ub(c):
    """what C02 needs from update_bounds: result inside the enforced side (when both sides are proper
    intervals), and equal to the intersection when the two overlap"""
    enf = c["self"] if c["enforce"] == "self" else c["other"]
    out = []
    for s, o, e in zip(c["self"], c["other"], enf):
        out.append((s, o, e))
    return out


def ub_property_holds(c, res):
    for (s, o, e), (lo, hi) in zip(ref_ub(c), res):
        if s[0] > s[1] or o[0] > o[1]:
            continue
        if not (e[0] <= lo and hi <= e[1] and lo <= hi):
            return False
        ilo, ihi = max(s[0], o[0]), min(s[1], o[1])
        if ilo <= ihi and not (lo == ilo and hi == ihi):
            return False
    return True


# ---------------------------------------------------------------------------------------------------
# B. hard constraints
# ---------------------------------------------------------------------------------------------------
def gen_hard(rng, n_times):
    path = rng.random() < 0.6
    n = n_times if path else 1
    kind = rng.choice(["min", "max", "both", "both", "minimize", "critical"])
    fn = rng.choice(gp.FUNCS)
    lo, hi = gp.FRANGE[fn]

    def tgt(lo_, hi_):
        if rng.random() < 0.5:
            return float(Fraction(rng.randint(int(lo_ * 2) + 2, int(hi_ * 2) - 2), 2))
        vals = []
        for _ in range(n_times):
            r = rng.random()
            if r < 0.2:
                vals.append("nan")
            elif r < 0.3:
                vals.append(rng.choice(["inf", "-inf"]))
            else:
                vals.append(str(Fraction(rng.randint(int(lo_ * 2) + 2, int(hi_ * 2) - 2), 2)))
        if all(v in ("nan", "inf", "-inf") for v in vals):
            vals[0] = "1"
        return vals

    gs = {"path": path, "fn": fn, "prio": 1, "nominal": rng.choice([1, 1, 2, "1/4", 10, "3/8"]),
          "relax": rng.choice([0, 0, 0, "1/8", "1/2"]), "k": rng.randrange(n_times)}
    if kind in ("min", "both", "critical"):
        gs["tmin"] = tgt(lo, 0) if path else tgt(lo, 0) if not isinstance(tgt(lo, 0), list) else -1.0
    if kind in ("max", "both") or (kind == "critical" and rng.random() < 0.5):
        gs["tmax"] = tgt(0, hi) if path else 2.0
    if not path:
        for k in ("tmin", "tmax"):
            if isinstance(gs.get(k), list):
                gs[k] = float(Fraction(gs[k][0])) if gs[k][0] not in ("nan", "inf", "-inf") else (-1.0 if k == "tmin" else 2.0)
    if kind == "critical":
        gs["critical"] = True
    if kind == "both" and rng.random() < 0.25:
        # nearly equal targets exercise equality folding
        gs["tmin"] = 1.0
        gs["tmax"] = 1.0 + rng.choice([0, 1e-10, 1e-6])
        gs["relax"] = 0
    eps = []
    for _ in range(n):
        if kind == "minimize":
            eps.append(float(Fraction(rng.randint(-40, 40), 4)))
        elif kind == "critical":
            eps.append(0.0)
        else:
            eps.append(rng.choice([0.0, 0.0, 1.0, float(Fraction(rng.randint(0, 16), 16)), 1e-7]))
    opts = {"equality_threshold": rng.choice([1e-8, 1e-8, 0.5]),
            "violation_tolerance": rng.choice(["inf", "inf", "1/4", "0"]),
            "constraint_relaxation": rng.choice([0, 0, "1/16", "1/2"]),
            "fix_minimized_values": rng.random() < 0.5}
    existing = None
    if rng.random() < 0.4:
        existing = []
        for _ in range(n):
            a, b = rx(rng), rx(rng)
            if a > b:
                a, b = b, a
            existing.append([a, b])
    return {"k": "hard", "goal": gs, "eps": eps, "opts": opts, "existing": existing,
            "copy": rng.choice(["base", "mixin"])}


class HardEnv:
    """one solved problem per time grid, reused for all hard-constraint cases"""

    def __init__(self, n_times):
        case = {"times": list(range(n_times)), "E": 1, "variant": "multi",
                "goals": [{"path": True, "fn": "y", "prio": 1, "tmin": -1, "tmax": 2}]}
        self.case = case
        self.p, self.snaps, _ = gp.build(case)
        assert self.p.optimize()
        self.res = self.snaps[-1]["results"][0]
        self.n = n_times


def impl_hard(env, c):
    from rtctools.optimization.goal_programming_mixin_base import _GoalConstraint
    from rtctools.optimization.timeseries import Timeseries

    gs = c["goal"]
    goal = gp.make_goal(gs, env.case["times"])
    p = env.p
    opts = dict(p.goal_programming_options())
    for k, v in c["opts"].items():
        opts[k] = v if isinstance(v, bool) else gp.fnum(v)
    eps = np.array(c["eps"], dtype=float)
    existing = None
    if c["existing"] is not None:
        lo = np.array([e[0] for e in c["existing"]], dtype=float)
        hi = np.array([e[1] for e in c["existing"]], dtype=float)
        if gs["path"]:
            t = p.times()
            existing = _GoalConstraint(goal, None, Timeseries(t, lo), Timeseries(t, hi), True)
        else:
            existing = _GoalConstraint(goal, None, float(lo[0]), float(hi[0]), True)
    fn = p._gp_goal_hard_constraint if c["copy"] == "base" else getattr(p, "_GoalProgrammingMixin__goal_hard_constraint")
    con = fn(goal, eps, existing, 0, opts, gs["path"])
    lo = con.min.values if isinstance(con.min, Timeseries) else np.ravel(con.min)
    hi = con.max.values if isinstance(con.max, Timeseries) else np.ravel(con.max)
    return [(float(x), float(y)) for x, y in zip(lo, hi)]


def g_goal(gs):
    lo, hi = gs.get("range", gp.FRANGE[gs["fn"]])
    return "(mkgoal %s %s %s %s %s %s %s)" % (
        gbool(has_t(gs.get("tmin"))), gbool(has_t(gs.get("tmax"))), gbool(gs.get("critical", False)),
        gq(fx(lo)), gq(fx(hi)), gq(fx(gp.fnum(gs.get("nominal", 1)))), gq(fx(gp.fnum(gs.get("relax", 0)))))


def has_t(v):
    if v is None:
        return False
    if isinstance(v, list):
        return any(math.isfinite(gp.fnum(x)) for x in v)
    return math.isfinite(gp.fnum(v))


def g_opts(o):
    vt = gp.fnum(o.get("violation_tolerance", "inf"))
    return "(mkopts %s %s %s %s)" % (
        gq(fx(gp.fnum(o.get("equality_threshold", 1e-8)))),
        "None" if math.isinf(vt) else "(Some %s)" % gq(fx(vt)),
        gq(fx(gp.fnum(o.get("constraint_relaxation", 0)))), gbool(bool(o.get("fix_minimized_values", False))))


def term_hard(c, vals, n_times):
    gs = c["goal"]
    tm, tM = gp.target_arrays(gs, n_times)
    t = "hard_steps %s %s %s %s %s %s" % (
        g_goal(gs), g_opts(c["opts"]), glist(tm, gxf), glist(tM, gxf),
        glist(c["eps"], lambda x: gq(fx(x))), glist(vals, lambda x: gq(fx(x))))
    if c["existing"] is not None:
        t = "update_bounds_l false (%s) %s" % (t, g_itvs(c["existing"]))
    return "ser_itvs (%s)" % t


def hard_vals(env, gs):
    v = gp.goal_value(gs["fn"], env.res)
    if gs["path"]:
        return [float(x) for x in v]
    return [float(v[gs.get("k", env.n - 1)])]


# ---------------------------------------------------------------------------------------------------
# C. store update sequences
# ---------------------------------------------------------------------------------------------------
def gen_store(rng):
    n = rng.choice([1, 2, 3])
    ops = []
    for _ in range(rng.randint(2, 7)):
        itvs = []
        for _ in range(n):
            a, b = rx(rng), rx(rng)
            if a > b:
                a, b = b, a
            itvs.append([a, b])
        ops.append([rng.choice(["critical", "hard"]), rng.randint(1, 3), itvs])
    return {"k": "store", "n": n, "ops": ops}


def impl_store(c):
    from rtctools.optimization.goal_programming_mixin_base import _GoalConstraint, _GoalProgrammingMixinBase
    from rtctools.optimization.timeseries import Timeseries

    class Host:
        ensemble_size = 1

    host = Host()
    store = [OrderedDict()]
    t = np.arange(c["n"], dtype=float)
    for kind, fk, itvs in c["ops"]:
        class G:
            size = 1
            function_key = "k%d" % fk

            def get_function_key(self, op, em):
                return self.function_key

        lo = np.array([i[0] for i in itvs], dtype=float)
        hi = np.array([i[1] for i in itvs], dtype=float)
        con = _GoalConstraint(G(), None, Timeseries(t, lo), Timeseries(t, hi), True)
        if kind == "critical":
            _GoalProgrammingMixinBase._gp_update_constraint_store(host, store, [[con]])
        else:
            # the store update at the end of __soft_to_hard_constraints
            existing = store[0].get("k%d" % fk, None)
            if existing:
                con.update_bounds(existing, enforce="other")
            store[0]["k%d" % fk] = con
    out = []
    for fk, con in store[0].items():
        out.append((int(fk[1:]), [(float(a), float(b)) for a, b in zip(con.min.values, con.max.values)]))
    return out


def term_store(c):
    ops = glist(c["ops"], lambda o: "(%s %s %s)" % ("OpCritical" if o[0] == "critical" else "OpHard", gz(o[1]), g_itvs(o[2])))
    return "ser_store (fold_left store_step %s [])" % ops


def store_monotone_holds(c):
    """replay on the implementation: each key's bounds only shrink"""
    ok = True
    for upto in range(1, len(c["ops"])):
        before = dict(impl_store({"n": c["n"], "ops": c["ops"][:upto]}))
        after = dict(impl_store({"n": c["n"], "ops": c["ops"][:upto + 1]}))
        for k, b in before.items():
            for (l0, h0), (l1, h1) in zip(b, after[k]):
                if not (l0 <= l1 and h1 <= h0):
                    ok = False
    return ok


# ---------------------------------------------------------------------------------------------------
# D. end-to-end runs
def gen_tradeoff_run(rng):
    """kept soft constraints / single pass: (a) members with unequal probabilities whose violations can be
    traded against each other, (b) a priority whose optimal objective is negative (order-1 minimisation);
    a later priority pulls the other way"""
    n = rng.choice([2, 3])
    fn = rng.choice(["y", "z"])
    variant = rng.choice(["multi_keep_soft", "multi_keep_soft", "single_append", "single_update"])
    if rng.random() < 0.6:
        E = 2
        path = rng.random() < 0.6
        # y_m = u + p_m with p = (0, 1/2): a two-sided target can be met by one member only, so the optimum
        # depends on the probabilities and violation can be traded between the members
        t = float(rng.choice([3, 5, -2]))
        g1 = {"path": path, "fn": "y", "prio": 1, "k": rng.randrange(n), "order": 1, "weight": 1, "nominal": 1, "tmin": t, "tmax": t}
        goals = [g1]
        if rng.random() < 0.4:
            goals.append({"path": not path, "fn": "z", "prio": 1, "k": rng.randrange(n), "order": 1, "weight": 1, "nominal": 1, "tmax": 9.0})
        if rng.random() < 0.5:
            goals.append({"path": path, "fn": "y", "prio": 2, "k": g1["k"], "order": 1, "weight": 1, "nominal": 1})       # minimise y
        else:
            goals.append({"path": path, "fn": "y", "prio": 2, "k": g1["k"], "order": 1, "weight": 1, "nominal": 1, "tmin": 11.0})
        return {"k": "run", "times": list(range(n)), "E": E, "p": [0, "1/2"], "probabilities": rng.choice([["1/4", "3/4"], ["4/5", "1/5"]]),
                "variant": variant, "goals": goals, "options": {}}
    E = rng.choice([1, 2])
    g1 = {"path": rng.random() < 0.6, "fn": fn, "prio": 1, "k": rng.randrange(n), "order": 1, "weight": rng.choice([1, 2]), "nominal": rng.choice([1, 2])}
    g2 = {"path": g1["path"], "fn": fn, "prio": 2, "k": g1["k"], "order": rng.choice([1, 2]), "weight": 1, "nominal": 1,
          "tmin": 8.0 if fn == "y" else 15.0}
    return {"k": "run", "times": list(range(n)), "E": E, "p": [0, "1/2"][:E], "variant": variant, "goals": [g1, g2], "options": {}}


# ---------------------------------------------------------------------------------------------------
def fixed_runs():
    """deterministic runs: (a) members with a degree of freedom of their own, member 0 attaining an earlier
    path goal worse than member 1, a later priority pulling the other way; (b) state goals on a variable and
    on its negated alias at consecutive priorities, a third priority pushing against the first"""
    out = []
    for variant in ("multi", "multi_keep_soft"):
        for later in ({"order": 1}, {"order": 2, "tmax": 9.0}):
            out.append({"k": "run", "times": [0, 1, 2], "E": 2, "p": [0, "1/2"], "variant": variant, "free_alg": True, "options": {},
                        "goals": [{"path": True, "fn": "y+z", "prio": 1, "order": 2, "weight": 1, "nominal": 1, "tmin": 11.2},
                                  dict({"path": True, "fn": "y+z", "prio": 2, "weight": 1, "nominal": 1}, **later)]})
    for first, second in ((("y", "y", "y", 1.0), ("ny", "ny", "-y", -0.8)), (("ny", "ny", "-y", -0.8), ("y", "y", "y", 1.0))):
        goals = []
        for pr, (st, fn, fk, tmax) in enumerate((first, second), 1):
            goals.append({"path": True, "state": st, "fn": fn, "fk": fk, "range": [-40, 40], "prio": pr, "order": 2, "weight": 1, "tmax": tmax})
        # priority 3 pushes against priority 1
        goals.append({"path": True, "fn": "ny" if first[0] == "y" else "y", "prio": 3, "order": 1, "weight": 1, "nominal": 1})
        out.append({"k": "run", "times": [0, 1, 2], "E": 1, "p": [0], "variant": "multi", "aliases": [["y", "-ny"]], "options": {}, "goals": goals})
    # (e) two goals of one priority on one function key (a lower and an upper target), a later priority pulling
    # against the one listed first
    for first, later in (("tmin", "y"), ("tmax", "ny")):
        a = {"path": True, "fn": "y", "prio": 1, "k": 1, "order": 2, "weight": 1, "nominal": 1, "fk": "shared_y", "tmin": 1.0}
        b = {"path": True, "fn": "y", "prio": 1, "k": 1, "order": 2, "weight": 1, "nominal": 1, "fk": "shared_y", "tmax": 1.5}
        out.append({"k": "run", "times": [0, 1, 2], "E": 1, "p": [0], "variant": "multi", "options": {},
                    "goals": ([a, b] if first == "tmin" else [b, a]) + [{"path": True, "fn": later, "prio": 2, "order": 1, "weight": 1, "nominal": 1}]})
    # (d) a goal function that reads a time-varying constant input of the model: priority 1 tracks it, priority 2
    # pulls away; the per-step values kept for priority 1 are those of the right time stamps
    for fix in (True, False):
        out.append({"k": "run", "times": [0, 1, 2, 3], "E": 1, "p": [0], "variant": "multi", "demand": ["1", "4", "-2", "3"],
                    "options": {"fix_minimized_values": fix},
                    "goals": [{"path": True, "fn": "y-d", "prio": 1, "order": 2, "weight": 1, "nominal": 1},
                              {"path": True, "fn": "y", "prio": 2, "order": 1, "weight": 1, "nominal": 1}]})
    # (c) a later priority that cannot be solved (critical goal beyond the bounds): the final result is the one
    # of the last completed priority
    for variant in ("multi", "multi_keep_soft"):
        out.append({"k": "run", "times": [0, 1, 2], "E": 1, "p": [0], "variant": variant, "options": {}, "expect_failure": True,
                    "goals": [{"path": True, "fn": "y", "prio": 1, "order": 2, "weight": 1, "nominal": 1, "tmin": 1.0},
                              {"path": True, "fn": "z", "prio": 2, "order": 1, "weight": 1, "nominal": 1},
                              {"path": True, "fn": "z", "prio": 3, "critical": True, "tmin": 25.0}]})
    return out


def gen_run(rng):
    n = rng.choice([2, 3, 4])
    E = rng.choice([1, 1, 2])
    variant = rng.choice(["multi", "multi", "multi", "multi_keep_soft", "single_append", "single_update"])
    goals = []
    nprio = rng.randint(2, 4)
    shared = rng.choice(gp.FUNCS)
    shared_nominal = rng.choice([1, 1, 2, "1/2"])
    shared_k = rng.randrange(n)
    for pr in range(1, nprio + 1):
        for _ in range(rng.randint(1, 2)):
            fn = shared if rng.random() < 0.6 else rng.choice(gp.FUNCS)
            lo, hi = gp.FRANGE[fn]
            path = rng.random() < 0.7
            kind = rng.choice(["min", "max", "both", "minimize", "critical" if pr > 1 and variant == "multi" else "min"])
            gs = {"path": path, "fn": fn, "prio": pr, "k": rng.randrange(n), "order": rng.choice([1, 2, 2]),
                  "weight": rng.choice([1, 2, "1/2"]), "nominal": rng.choice([1, 1, 2, "1/2"])}
            if fn == shared:
                # one function key = one constraint function: same function and same nominal
                gs["fk"] = "shared_" + fn
                gs["nominal"] = shared_nominal
                gs["k"] = shared_k
            # monotone targets per function key: later priorities ask for more
            base = pr
            if kind in ("min", "both", "critical"):
                gs["tmin"] = float(-6 + base) if rng.random() < 0.8 or not path else [str(-6 + base) if rng.random() < 0.8 else "nan" for _ in range(n)]
            if kind in ("max", "both"):
                gs["tmax"] = float(8 - base) if rng.random() < 0.8 or not path else [str(8 - base) if rng.random() < 0.8 else "nan" for _ in range(n)]
            if kind == "critical":
                gs["critical"] = True
            for k in ("tmin", "tmax"):
                if isinstance(gs.get(k), list) and all(v == "nan" for v in gs[k]):
                    gs[k][0] = str(-6 + base if k == "tmin" else 8 - base)
            if variant != "multi":
                gs.pop("fk", None) if False else None
            goals.append(gs)
    opts = {}
    if variant == "multi" and rng.random() < 0.3:
        opts["constraint_relaxation"] = rng.choice(["1/1024", "1/64"])
    if variant == "multi" and rng.random() < 0.3:
        opts["fix_minimized_values"] = rng.random() < 0.5
    return {"k": "run", "times": list(range(n)), "E": E, "p": [0, "1/2", "-1"][:E], "variant": variant,
            "goals": goals, "options": opts}


def violation(gs, fval_steps, n_times):
    """per-step violation of a target goal in physical units (0 = met)"""
    tm, tM = gp.target_arrays(gs, n_times)
    out = []
    for f, a, b in zip(fval_steps, tm, tM):
        v = 0.0
        if math.isfinite(a):
            v = max(v, a - f)
        if math.isfinite(b):
            v = max(v, f - b)
        out.append(v)
    return out


def envelope_allowance(c, gs, prio_index, res, n_times):
    """per step: how far outside the target the envelope of the reported eps reaches"""
    if gs.get("critical"):
        # what this property asks of a critical goal is the same as of any other: not worse later than in the
        # solution of its own priority (that it is met there at all is C04's clause, checked there)
        return violation(gs, fsteps(gs, res, n_times), n_times)
    same = [g for g in c["goals"] if int(Fraction(str(g["prio"]))) == int(Fraction(str(gs["prio"]))) and g["path"] == gs["path"]]
    j = [id(g) for g in same].index(id(gs))
    nm = ("path_eps_%d_%d" if gs["path"] else "eps_%d_%d") % (prio_index, j)
    if nm not in res:
        return None
    vr = gp.fnum(c.get("options", {}).get("violation_relaxation", 0))
    eps = [float(x) + vr for x in np.ravel(res[nm])]
    lo, hi = gs.get("range", gp.FRANGE[gs["fn"]])
    tm, tM = gp.target_arrays(gs, n_times)
    out = []
    for e, a, b in zip(eps, tm, tM):
        v = 0.0
        if math.isfinite(a):
            v = max(v, e * (a - lo))
        if math.isfinite(b):
            v = max(v, e * (hi - b))
        out.append(v)
    return out


def fsteps(gs, res, n_times):
    v = gp.goal_value(gs["fn"], res) + gp.fnum(gs.get("offset", 0))
    return [float(x) for x in v] if gs["path"] else [float(v[gs.get("k", n_times - 1)])]


def run_case(c):
    p, snaps, goals = gp.build(c)
    try:
        ok = p.optimize()
    except Exception as e:  # validation errors etc. are not this property's business
        return {"error": "%s: %s" % (type(e).__name__, str(e)[:200])}
    try:
        final = [dict((k, np.array(v, dtype=float)) for k, v in p.extract_results(m).items()) for m in range(p.ensemble_size)]
    except Exception:  # noqa: BLE001
        final = None
    return {"ok": ok, "snaps": snaps, "final": final}


def priority_objective(c, prio_index, prio, res_all):
    """the documented objective of one priority evaluated on a (later) solution: sum over goals
    of weight*eps^order resp. weight*(f/nominal)^order, over steps, probability-weighted members"""
    n = len(c["times"])
    total = 0.0
    for m in range(c["E"]):
        res = res_all[m]
        acc = 0.0
        for is_path in (False, True):
            gl = [g for g in c["goals"] if int(Fraction(str(g["prio"]))) == prio and g["path"] == is_path]
            for j, gs in enumerate(gl):
                if gs.get("critical"):
                    continue
                w = gp.fnum(gs.get("weight", 1))
                order = gs.get("order", 2)
                if gs.get("tmin") is not None or gs.get("tmax") is not None:
                    nm = ("path_eps_%d_%d" if is_path else "eps_%d_%d") % (prio_index, j)
                    if nm not in res:
                        return None
                    vals = np.ravel(res[nm])
                else:
                    vals = np.array(fsteps(gs, res, n)) / gp.fnum(gs.get("nominal", 1))
                acc += float(np.sum(w * np.abs(vals) ** order if order % 2 == 0 else w * vals ** order))
        pm = gp.fnum(c["probabilities"][m]) if c.get("probabilities") else 1.0 / c["E"]
        total += acc * pm
    return total


def attainment_check(c, out, tol=1e-5):
    """every goal of an already solved priority: violation / minimised value on later solutions
    (multi-pass); the priority's objective when soft constraints are kept (keep-soft, single pass)"""
    n = len(c["times"])
    snaps = out["snaps"]
    prios = [s["priority"] for s in snaps]
    slack_cr = gp.fnum(c.get("options", {}).get("constraint_relaxation", 0))
    bad = []
    for i, s in enumerate(snaps):
        if c["variant"] != "multi":
            o0 = priority_objective(c, i, s["priority"], s["results"])
            for j in range(i + 1, len(snaps)):
                o1 = priority_objective(c, i, s["priority"], snaps[j]["results"])
                if o0 is None or o1 is None:
                    continue
                if o1 > o0 + slack_cr + tol * (1 + abs(o0)):
                    bad.append({"priority_objective": True, "solved_at": prios[i], "later": prios[j],
                                "objective_then": o0, "objective_later": o1})
            continue
        for gs in c["goals"]:
            if int(Fraction(str(gs["prio"]))) != s["priority"]:
                continue
            nom = gp.fnum(gs.get("nominal", 1))
            for m in range(c["E"]):
                f0 = fsteps(gs, s["results"][m], n)
                is_target = gs.get("tmin") is not None or gs.get("tmax") is not None
                for j in range(i + 1, len(snaps)):
                    f1 = fsteps(gs, snaps[j]["results"][m], n)
                    if is_target:
                        # the attainment recorded at priority i is the reported violation eps: the
                        # function may move inside the envelope [m_t + eps(m - m_t), M_t + eps(M - M_t)]
                        v0 = envelope_allowance(c, gs, i, s["results"][m], n)
                        v1 = violation(gs, f1, n)
                        if v0 is None:
                            continue
                        for k, (a, b) in enumerate(zip(v0, v1)):
                            if b > a + slack_cr * nom + tol * (1 + abs(a)):
                                bad.append({"goal": gs, "member": m, "step": k, "solved_at": prios[i],
                                            "later": prios[j], "violation_then": a, "violation_later": b})
                    else:
                        # minimisation goal: the function value per step may not get worse
                        for k, (a, b) in enumerate(zip(f0, f1)):
                            if b > a + slack_cr * nom + tol * (1 + abs(a)):
                                bad.append({"goal": gs, "member": m, "step": k, "solved_at": prios[i],
                                            "later": prios[j], "value_then": a, "value_later": b})
    return bad


def model_store_terms(c, out):
    """for the multi-pass variant: the model's stores after each priority, fed with the achieved
    epsilons / function values of the implementation"""
    n = len(c["times"])
    terms = []
    meta = []
    if c["variant"] != "multi":
        return terms, meta
    popts = dict(c.get("options", {}))
    # defaults of GoalProgrammingMixin with IPOPT
    popts.setdefault("fix_minimized_values", True)
    snaps = out["snaps"]
    prios = sorted({int(Fraction(str(g["prio"]))) for g in c["goals"]})
    for m in range(c["E"]):
        for is_path in (False, True):
            ops = []
            counters = {}
            for pi, pr in enumerate(prios):
                if pi >= len(snaps):
                    break
                gl = [g for g in c["goals"] if int(Fraction(str(g["prio"]))) == pr and g["path"] == is_path]
                res = snaps[pi]["results"][m]
                # critical goals enter the store before the solve
                for j, gs in enumerate(gl):
                    if gs.get("critical"):
                        tm, tM = gp.target_arrays(gs, n)
                        nn = n if is_path else 1
                        t = "hard_steps %s %s %s %s %s %s" % (
                            g_goal(gs), g_opts(popts), glist(tm, gxf), glist(tM, gxf),
                            glist([0.0] * nn, lambda x: gq(fx(x))), glist([0.0] * nn, lambda x: gq(fx(x))))
                        ops.append("OpCritical %s (%s)" % (gz(fk_id(gs, counters)), t))
                # after the solve: soft -> hard
                for j, gs in enumerate(gl):
                    if gs.get("critical"):
                        continue
                    is_target = gs.get("tmin") is not None or gs.get("tmax") is not None
                    fv = fsteps(gs, res, n)
                    if is_target:
                        nm = ("path_eps_%d_%d" if is_path else "eps_%d_%d") % (pi, j)
                        eps = [float(x) for x in np.ravel(res[nm])]
                        vr = gp.fnum(popts.get("violation_relaxation", 0))
                        eps = [e + vr for e in eps]
                    else:
                        eps = fv
                    tm, tM = gp.target_arrays(gs, n)
                    t = "hard_steps %s %s %s %s %s %s" % (
                        g_goal(gs), g_opts(popts), glist(tm, gxf), glist(tM, gxf),
                        glist(eps, lambda x: gq(fx(x))), glist(fv, lambda x: gq(fx(x))))
                    ops.append("OpHard %s (%s)" % (gz(fk_id(gs, counters)), t))
                terms.append("ser_store (fold_left store_step %s [])" % glist(ops))
                meta.append((m, is_path, pi))
    return terms, meta


_fk_ids = {}


def fk_id(gs, counters):
    """function keys as integers: shared keys by name, anonymous goals get a fresh id per goal"""
    key = gs.get("fk") or "anon_%s" % id(gs)
    if key not in _fk_ids:
        _fk_ids[key] = len(_fk_ids) + 1
    return _fk_ids[key]


# ---------------------------------------------------------------------------------------------------
def run(ctx):
    replay = os.environ.get("VERIF_REPLAY")
    cases = []
    if replay:
        cases = [json.load(open(replay))["replay"]["case"]]
    else:
        cases += core.corpus_cases(ID)
        for _ in range(ctx.n(400, 20000)):
            cases.append(gen_ub(ctx.rng))
        for _ in range(ctx.n(300, 12000)):
            cases.append(gen_hard(ctx.rng, 3))
        for _ in range(ctx.n(150, 6000)):
            cases.append(gen_store(ctx.rng))
        cases += fixed_runs()
        for _ in range(ctx.n(14, 600)):
            cases.append(gen_run(ctx.rng))
        for _ in range(ctx.n(14, 300)):
            cases.append(gen_tradeoff_run(ctx.rng))

    # ---- A ----
    ub = [c for c in cases if c["k"] == "ub"]
    if ub:
        impl = [impl_ub(c) for c in ub]
        mod = core.eval_terms(ID + "a", ["Xq", "Interval"], [term_ub(c) for c in ub])
        for c, im, ms in zip(ub, impl, mod):
            mv = dec_itvs(iter(ms))
            consistent = all(s[0] <= s[1] for s in c["self"]) and all(o[0] <= o[1] for o in c["other"])
            ctx.case_done(core.fingerprint(["ub", c["kind"], c["enforce"], c["self"], c["other"]]), True)
            ctx.count("ub_" + c["enforce"])
            agree = len(im) == len(mv) and all(close(a[0], b[0]) and close(a[1], b[1]) for a, b in zip(im, mv))
            if consistent and any(s[1] < o[0] or o[1] < s[0] for s, o in zip(c["self"], c["other"])):
                ctx.count("ub_disjoint")
            rep = {"case": c, "impl": im, "model": [[str(a), str(b)] for a, b in mv]}
            if not ub_property_holds(c, im):
                ctx.violation("update_bounds/loosens", rep,
                              what="update_bounds(enforce=%s) leaves the enforced interval or is not the intersection: self=%s other=%s -> %s"
                                   % (c["enforce"], c["self"], c["other"], im))
            elif not agree:
                rep["broken_correspondence"] = "Interval.v update_bounds vs _GoalConstraint.update_bounds; C02_merge_* no longer apply"
                ctx.violation("update_bounds/model-mismatch", rep, no_input=True, what="update_bounds differs from the Gallina model")

    # ---- B ----
    hard = [c for c in cases if c["k"] == "hard"]
    if hard:
        env = HardEnv(3)
        rows = []
        for c in hard:
            try:
                im = impl_hard(env, c)
            except Exception as e:
                ctx.count("hard_impl_exception_" + type(e).__name__)
                continue
            rows.append((c, im, hard_vals(env, c["goal"])))
        mod = core.eval_terms(ID + "b", ["Xq", "Interval", "Goals"], [term_hard(c, v, 3) for c, _, v in rows])
        for (c, im, vals), ms in zip(rows, mod):
            mv = dec_itvs(iter(ms))
            gs = c["goal"]
            kind = "critical" if gs.get("critical") else ("target" if (gs.get("tmin") is not None or gs.get("tmax") is not None) else "minimize")
            ctx.case_done(core.fingerprint(["hard", kind, gs["path"], c["copy"], c["opts"], c["existing"] is not None,
                                            gs.get("tmin"), gs.get("tmax"), c["eps"]]), True)
            ctx.count("hard_" + kind)
            ctx.count("hard_copy_" + c["copy"])
            agree = len(im) == len(mv) and all(close(a[0], b[0]) and close(a[1], b[1]) for a, b in zip(im, mv))
            if len(ctx.samples) < 2:
                ctx.sample({"case": c, "impl": im, "model": [[str(a), str(b)] for a, b in mv]})
            if not agree:
                rep = {"case": c, "function_values": vals, "impl": im, "model": [[str(a), str(b)] for a, b in mv]}
                # does the difference matter for C02?  the hard interval must contain the achieved
                # function value (feasibility of the next priority) and must not be looser than the
                # documented bound
                ctx.violation("hard_constraint/mismatch", rep,
                              what="hard constraint of a solved goal differs from the documented form (%s copy, %s goal)" % (c["copy"], kind))

    # ---- C ----
    st = [c for c in cases if c["k"] == "store"]
    if st:
        impl = [impl_store(c) for c in st]
        mod = core.eval_terms(ID + "c", ["Xq", "Interval"], [term_store(c) for c in st])
        for c, im, ms in zip(st, impl, mod):
            it = iter(ms)
            n = next(it)
            mv = []
            for _ in range(n):
                k = next(it)
                mv.append((k, dec_itvs(it)))
            shared = len({o[1] for o in c["ops"]}) < len(c["ops"])
            ctx.case_done(core.fingerprint(["store", c["ops"]]), shared)
            ctx.count("store_ops", len(c["ops"]))
            agree = [k for k, _ in im] == [k for k, _ in mv] and all(
                len(a) == len(b) and all(close(x[0], y[0]) and close(x[1], y[1]) for x, y in zip(a, b))
                for (_, a), (_, b) in zip(im, mv))
            if not agree:
                rep = {"case": c, "impl": im, "model": [[k, [[str(a), str(b)] for a, b in v]] for k, v in mv]}
                if not store_monotone_holds(c):
                    ctx.violation("store/loosens", rep, what="a constraint-store entry was loosened by a later update")
                else:
                    rep["broken_correspondence"] = "Interval.v store_step vs _gp_update_constraint_store / soft_to_hard store update"
                    ctx.violation("store/model-mismatch", rep, no_input=True, what="constraint store differs from the Gallina model")

    # ---- D ----
    runs = [c for c in cases if c["k"] == "run"]
    for c in runs:
        out = run_case(c)
        if "error" in out:
            ctx.count("run_rejected")
            continue
        ctx.runtime_samples += 1
        ctx.count("run_" + c["variant"])
        shared = len({g.get("fk") for g in c["goals"] if g.get("fk")}) > 0
        ctx.case_done(core.fingerprint(["run", c["variant"], c["E"], len(c["times"]),
                                        [[g["prio"], g["fn"], g["path"], g.get("critical", False), g.get("tmin") is not None, g.get("tmax") is not None] for g in c["goals"]]]), shared)
        if out.get("final") is not None and out["snaps"]:
            # what is exposed after the run is the solution of the last completed priority
            last = out["snaps"][-1]["results"]
            diff = [(m, k) for m in range(c["E"]) for k in ("y", "z") if not np.allclose(out["final"][m][k], last[m][k], rtol=1e-9, atol=1e-9)]
            if diff:
                m, k = diff[0]
                ctx.violation("run/final-result", {"case": c, "returned": bool(out["ok"]), "member": m, "variable": k,
                                                   "final": out["final"][m][k].tolist(), "last_completed_priority": last[m][k].tolist()},
                              what="after optimize() returned %s the exposed %s is %s, the last completed priority (%s) gave %s" % (
                                  out["ok"], k, out["final"][m][k].tolist(), out["snaps"][-1]["priority"], last[m][k].tolist()))
        if c.get("expect_failure") and (out["ok"] or len(out["snaps"]) != 2):
            ctx.count("expected_failure_did_not_fail")
        if not out["ok"]:
            ctx.count("run_failed_solve")
            continue
        bad = attainment_check(c, out)
        terms, meta = model_store_terms(c, out)
        store_bad = []
        if terms:
            mod = core.eval_terms(ID + "d", ["Xq", "Interval", "Goals"], terms)
            for (m, is_path, pi), ms in zip(meta, mod):
                it = iter(ms)
                n = next(it)
                mv = []
                for _ in range(n):
                    next(it)
                    mv.append(dec_itvs(it))
                im = out["snaps"][pi]["stores_after"][1 if is_path else 0][m]
                iv = [list(zip(lo, hi)) for _, lo, hi in im]
                same = len(iv) == len(mv) and all(
                    len(a) == len(b) and all(close(x[0], y[0], 1e-7) and close(x[1], y[1], 1e-7) for x, y in zip(a, b))
                    for a, b in zip(iv, mv))
                if not same:
                    store_bad.append({"member": m, "path": is_path, "priority_index": pi, "impl": im,
                                      "model": [[[str(a), str(b)] for a, b in v] for v in mv]})
        if bad:
            ctx.violation("run/degraded", {"case": c, "degraded": bad[:5], "store_differences": store_bad[:3]},
                          what="a later priority degraded an earlier goal: %s" % json.dumps(bad[0], default=str)[:300])
        elif store_bad:
            ctx.violation("run/store-model-mismatch", {"case": c, "store_differences": store_bad[:3],
                                                       "broken_correspondence": "constraint stores after a priority vs Goals.v/Interval.v"},
                          no_input=True, what="constraint store after a priority differs from the model")
