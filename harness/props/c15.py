"""C15 — trajectory accessors agree with each other and with the extracted results."""
import json
import math
import os
from fractions import Fraction

import casadi as ca
import numpy as np

from .. import core, tr, trcheck, problems
from ..core import gq, glist, gbool
from ..problems import ast_gallina

ID = "C15"
PROPS_FILE = "props/C15.v"
MODEL_FILES = ["Xq", "Interp", "Expr", "Transcribe", "Accessors"]
RULE = ("generated problems (states, algebraics, controls on own coarser grids with all three interpolation "
        "modes, nominals, histories, 1-3 members); at a rational decision vector: state_at (scaled / unscaled, "
        "extrapolate on / off) at times on knots, between knots, before t0 (with and without history) and "
        "after the end; der_at on knots, between knots, at t0 and before it; integral and states_in over "
        "windows with 0, 1 or several knots inside and end points on / off knots; map_path_expression of "
        "expressions over variables and derivatives; extract_results. non-trivial = a query off the knots or "
        "outside the horizon; distinct = abstracted (problem, query) shapes.  Metamorphic alias pass: every accessor "
        "through a negated and a plain alias, windows starting inside the history, stored history compared before / after")
MODELLED = ("collocated_integrated_optimization_problem.py extract_results, state_at, der_at, __states_times_in / "
            "states_in / integral (windows inside the horizon), map_path_expression")
NOT_MODELLED = ("alias names and windows reaching into the history have no Coq model: they are checked metamorphically (answer through a "
                "negated alias = negated answer, stored history unchanged); constant inputs / parameters through state_at, integrate_states")
ASSUMPTIONS = ["histories contain no NaN in this check"]

FEAT = {"history": True, "own_grid": True, "modes": True, "equidistant_flag": True}


def gen_queries(rng, s):
    coll = s["states"] + s["algebraics"] + s["controls"]
    E = s["ensemble_size"]
    qs = []
    for _ in range(rng.randint(6, 10)):
        v = rng.choice(coll)
        j = coll.index(v)
        m = rng.randrange(E)
        vt = [Fraction(t) for t in s.get("var_times", {}).get(v, s["times"])]

        def tpoint():
            r = rng.random()
            if r < 0.35:
                return rng.choice(vt)
            if r < 0.65 and len(vt) > 1:
                i = rng.randrange(len(vt) - 1)
                return vt[i] + (vt[i + 1] - vt[i]) * Fraction(rng.randint(1, 7), 8)
            if r < 0.85:
                # before t0: also strictly between two history knots
                return vt[0] - Fraction(rng.randint(1, 12), rng.choice([4, 4, 8, 3]))
            return vt[-1] + Fraction(rng.randint(1, 8), 4)
        kind = rng.choice(["state_at", "state_at", "der_at", "integral", "states_in"])
        if kind == "state_at":
            qs.append({"kind": kind, "v": v, "j": j, "m": m, "t": str(tpoint()), "scaled": rng.random() < 0.3, "extrapolate": rng.random() < 0.7})
        elif kind == "der_at":
            qs.append({"kind": kind, "v": v, "j": j, "m": m, "t": str(tpoint())})
        else:
            a = vt[0] + (vt[-1] - vt[0]) * Fraction(rng.randint(0, 8), 8)
            b = a + (vt[-1] - a) * Fraction(rng.randint(0, 8), 8)
            if rng.random() < 0.3 and len(vt) > 1:
                i = rng.randrange(len(vt) - 1)
                a = vt[i] + (vt[i + 1] - vt[i]) * Fraction(1, 4)
                b = vt[i] + (vt[i + 1] - vt[i]) * Fraction(3, 4)
            qs.append({"kind": kind, "v": v, "j": j, "m": m, "a": str(a), "b": str(b)})
    # strictly between two history knots of every variable that has them (the variable's own
    # interpolation method applies to its history as well)
    for m, h in enumerate(s.get("history", [])):
        for v, hv in h.items():
            if len(hv["times"]) >= 2 and v in coll:
                a, b = Fraction(hv["times"][-2]), Fraction(hv["times"][-1])
                qs.append({"kind": "state_at", "v": v, "j": coll.index(v), "m": m, "t": str(a + (b - a) * Fraction(rng.choice([1, 2, 3]), 4)),
                           "scaled": False, "extrapolate": rng.random() < 0.5})
    # the same point outside the data asked twice in one transcription, with and without extrapolation, in both orders
    v = coll[0]
    vt = [Fraction(t) for t in s.get("var_times", {}).get(v, s["times"])]
    for t, first in ((vt[-1] + Fraction(1, 2), True), (vt[0] - 50, False)):
        for ex in (first, not first):
            qs.append({"kind": "state_at", "v": v, "j": 0, "m": 0, "t": str(t), "scaled": False, "extrapolate": ex})
    ders = ["der(%s)" % x for x in s["states"]]
    e = tr.lin_expr(rng, coll + ders + s["constant_inputs"], 3, allow_nonlinear=True)
    qs.append({"kind": "map_path", "m": rng.randrange(E), "expr": e})
    for v in s.get("var_times", {}):
        # a variable on its own grid inside an expression mapped over the horizon
        qs.append({"kind": "map_path", "m": 0, "expr": ["+", ["v", v], ["c", "1"]]})
    qs.append({"kind": "results", "m": rng.randrange(E)})
    return qs


def fval(e, p, X):
    if isinstance(e, (ca.MX, ca.SX)):
        return [float(x) for x in np.array(ca.Function("f", [p.solver_input], [e])(X)).ravel()]
    if isinstance(e, ca.DM):
        return [float(x) for x in np.array(e).ravel()]
    return [float(e)]


def impl_query(p, s, q, X, Xf):
    try:
        if q["kind"] == "state_at":
            return fval(p.state_at(q["v"], float(Fraction(q["t"])), q["m"], scaled=q["scaled"], extrapolate=q["extrapolate"]), p, X)
        if q["kind"] == "der_at":
            return fval(p.der_at(q["v"], float(Fraction(q["t"])), q["m"]), p, X)
        if q["kind"] == "integral":
            return fval(p.integral(q["v"], float(Fraction(q["a"])), float(Fraction(q["b"])), q["m"]), p, X)
        if q["kind"] == "states_in":
            return fval(p.states_in(q["v"], float(Fraction(q["a"])), float(Fraction(q["b"])), q["m"]), p, X)
        if q["kind"] == "der_map":
            return fval(p.map_path_expression(p.der(q["v"]), q["m"]), p, X)
        if q["kind"] == "map_path":
            sym = p._path_sym()
            e = problems.ast_casadi(q["expr"], sym)
            return fval(p.map_path_expression(e, q["m"]), p, X)
        if q["kind"] == "results":
            setattr(p, "_OptimizationProblem__solver_output", np.array(Xf))
            r = p.extract_results(q["m"])
            out = []
            for v in s["states"] + s["algebraics"] + s["controls"]:
                out += [float(x) for x in np.ravel(r[v])]
            return out
    except Exception as e:
        return "raise:" + type(e).__name__
    return None


def model_term(s, qs, X):
    P = tr.problem_term(s)
    q = lambda v: gq(tr.fx(Fraction(v)))  # noqa: E731
    pi = tr.env_index(s, path=True)
    nvars = len(s["states"] + s["algebraics"] + s["controls"])
    parts = []
    for qu in qs:
        k = qu["kind"]
        if k == "state_at":
            parts.append("ser_acc (state_at P X %d%%nat %d%%nat %s %s %s)" % (qu["m"], qu["j"], q(qu["t"]), gbool(qu["scaled"]), gbool(qu["extrapolate"])))
        elif k == "der_at":
            parts.append("ser_acc (der_at P X %d%%nat %d%%nat %s)" % (qu["m"], qu["j"], q(qu["t"])))
        elif k == "integral":
            parts.append("(7%%Z :: ser_q (integral P X %d%%nat %d%%nat %s %s))" % (qu["m"], qu["j"], q(qu["a"]), q(qu["b"])))
        elif k == "states_in":
            parts.append("(6%%Z :: ser_ql (states_in P X %d%%nat %d%%nat %s %s))" % (qu["m"], qu["j"], q(qu["a"]), q(qu["b"])))
        elif k == "map_path":
            parts.append("(6%%Z :: ser_ql (map_path P X %d%%nat %s))" % (qu["m"], ast_gallina(qu["expr"], pi)))
        else:
            parts.append("(6%%Z :: ser_ql (flat_map (fun j => results P X %d%%nat j) (seq 0 %d)))" % (qu["m"], nvars))
    return "let P := %s in let X := %s in\n  %s" % (P, glist(X, q), " ++ ".join("(%s)" % x for x in parts))


def decode(ser, n):
    it = iter(ser)
    out = []
    for _ in range(n):
        tag = next(it)
        if tag == 9:
            out.append("raise")
        elif tag == 8:
            t2 = next(it)
            if t2 == 0:
                out.append([float("nan")])
            elif t2 == 1:
                out.append([float("-inf")])
            elif t2 == 2:
                out.append([float("inf")])
            else:
                out.append([Fraction(next(it), next(it))])
        elif tag == 7:
            out.append([Fraction(next(it), next(it))])
        else:
            k = next(it)
            out.append([Fraction(next(it), next(it)) for _ in range(k)])
    return out


def same(a, b):
    if isinstance(a, str) or isinstance(b, str):
        return isinstance(a, str) and isinstance(b, str)
    return len(a) == len(b) and all(tr.close(x, y, 1e-8) for x, y in zip(a, b))


def reference(p, s, q, X, Xf):
    """the property evaluated independently on the extracted results (used to classify a mismatch)"""
    if q["kind"] not in ("state_at",) or not q["extrapolate"] or q["scaled"]:
        return None
    v = q["v"]
    vt = [float(Fraction(t)) for t in s.get("var_times", {}).get(v, s["times"])]
    t = float(Fraction(q["t"]))
    if t < vt[0]:
        return None
    setattr(p, "_OptimizationProblem__solver_output", np.array(Xf))
    res = [float(x) for x in np.ravel(p.extract_results(q["m"])[v])]
    mode = s.get("interpolation", {}).get(v, 0)
    if t >= vt[-1]:
        return [res[-1]]
    i = max(k for k in range(len(vt)) if vt[k] <= t)
    if vt[i] == t:
        return [res[i]]
    if mode == 0:
        return [res[i] + (res[i + 1] - res[i]) * (t - vt[i]) / (vt[i + 1] - vt[i])]
    return [res[i]] if mode == 1 else [res[i + 1]]


def run(ctx):
    replay = os.environ.get("VERIF_REPLAY")
    if replay:
        r = json.load(open(replay))["replay"]
        jobs_in = [(r["spec"], r["queries"])]
    else:
        jobs_in = [(c["spec"], c["queries"]) for c in core.corpus_cases(ID)]
        for i in range(ctx.n(60, 2500)):
            s = tr.gen_spec(ctx.rng, FEAT)
            for h in s.get("history", []):
                for hv in h.values():
                    hv["values"] = [x if x != "nan" else "1" for x in hv["values"]]
            jobs_in.append((s, gen_queries(ctx.rng, s)))
        # (own random stream) a control on the first two and the last stamp of a grid of >= 4 stamps, on a problem
        # whose import data are reported equidistant, in every interpolation mode
        import random
        r3 = random.Random(1515)
        k = 0
        while k < ctx.n(6, 60):
            s = tr.gen_spec(r3, FEAT)
            if not s["controls"] or len(s["times"]) < 4:
                continue
            c0 = s["controls"][0]
            s["var_times"] = {c0: [s["times"][0], s["times"][1], s["times"][-1]]}
            s.setdefault("interpolation", {})[c0] = k % 3
            s["equidistant"] = True
            for h in s.get("history", []):
                for hv in h.values():
                    hv["values"] = [x if x != "nan" else "1" for x in hv["values"]]
            jobs_in.append((s, gen_queries(r3, s)))
            k += 1
    jobs = []
    for s, qs in jobs_in:
        try:
            p = problems.make_base(s)()
            p.transcribe()
        except Exception as e:
            ctx.count("impl_exception_" + type(e).__name__)
            continue
        nx = p.solver_input.shape[0]
        X = [Fraction(ctx.rng.randint(-12, 12), ctx.rng.choice([1, 2, 4])) for _ in range(nx)]
        Xf = [float(x) for x in X]
        impl = [impl_query(p, s, q, ca.DM(Xf), Xf) for q in qs]
        jobs.append((s, qs, X, Xf, impl, p))
    vals = core.eval_terms(ID, trcheck.IMPORTS + ["Accessors"], [model_term(s, qs, X) for s, qs, X, _, _, _ in jobs], shard=12)
    for (s, qs, X, Xf, impl, p), v in zip(jobs, vals):
        model = decode(v, len(qs))
        for q, a, b in zip(qs, impl, model):
            ctx.count("query_" + q["kind"])
            bq = "raise" if b == "raise" else b
            nontriv = q["kind"] in ("integral", "states_in", "map_path") or (q["kind"] in ("state_at", "der_at") and
                                                                              Fraction(q["t"]) not in [Fraction(t) for t in s.get("var_times", {}).get(q["v"], s["times"])])
            ctx.case_done(core.fingerprint([trcheck.shape_of(s), {k: v2 for k, v2 in q.items() if k != "expr"}]), nontriv)
            if isinstance(a, str) and a.startswith("raise"):
                ctx.count("impl_raises")
            if same(a, bq):
                if len(ctx.samples) < 3 and nontriv:
                    ctx.sample({"query": q, "impl": a, "model": [str(x) for x in bq] if not isinstance(bq, str) else bq})
                continue
            rep = {"spec": s, "queries": qs, "X": [str(x) for x in X], "query": q, "impl": a,
                   "model": [str(x) for x in bq] if not isinstance(bq, str) else bq}
            ref = reference(p, s, q, X, Xf)
            if ref is not None and not isinstance(a, str) and same(a, ref):
                rep["broken_correspondence"] = "Accessors.v vs the accessor; C15 theorems no longer apply"
                ctx.violation("accessor/model-mismatch", rep, no_input=True, what="%s differs from the Gallina model" % q["kind"])
            else:
                ctx.violation("accessor/" + q["kind"], rep,
                              what="%s(%s) = %s but the extracted results imply %s" % (q["kind"], {k: v2 for k, v2 in q.items() if k not in ("kind", "expr", "j")}, a if isinstance(a, str) else [round(x, 6) for x in a][:6], bq if isinstance(bq, str) else [round(float(x), 6) for x in bq][:6]))


# ---- accessors through (negated) aliases, windows reaching into the history, and purity -----------------
def alias_checks(ctx):
    """metamorphic: an accessor asked through a negated alias returns the negated answer of the
    variable itself (also for windows that start in the history), and no accessor call changes
    the stored history"""
    from rtctools.optimization.timeseries import Timeseries
    rng = ctx.rng
    for _ in range(ctx.n(25, 800)):
        s = tr.gen_spec(rng, {"history": True, "own_grid": False})
        coll = s["states"] + s["algebraics"] + s["controls"]
        if not coll:
            continue
        v = rng.choice(coll)
        times = [Fraction(t) for t in s["times"]]
        E = s["ensemble_size"]
        # a history of at least three points for v, for every member
        hs = s.get("history") or [dict() for _ in range(E)]
        for m in range(E):
            k = rng.randint(3, 4)
            ht = [times[0] - Fraction(k - 1 - i, 2) for i in range(k)]
            hs[m][v] = {"times": [str(t) for t in ht], "values": [str(tr.dy(rng)) for _ in ht]}
            for hv in hs[m].values():
                hv["values"] = [x if x != "nan" else "1" for x in hv["values"]]
        s["history"] = hs
        # (canonical, alias): the variable itself stays the canonical name
        s["aliases"] = [[v, "-neg_" + v], [v, "same_" + v]]
        Base = problems.make_base(s)

        class P(Base):
            def history(self, ensemble_member):
                # cached, like the real mixins do
                if not hasattr(self, "_hist_cache"):
                    self._hist_cache = {}
                if ensemble_member not in self._hist_cache:
                    self._hist_cache[ensemble_member] = super().history(ensemble_member)
                return self._hist_cache[ensemble_member]
        try:
            p = P()
            p.transcribe()
        except Exception as e:  # noqa: BLE001
            ctx.count("alias_impl_exception_" + type(e).__name__)
            continue
        nx = p.solver_input.shape[0]
        Xf = [float(Fraction(rng.randint(-12, 12), rng.choice([1, 2, 4]))) for _ in range(nx)]
        X = ca.DM(Xf)
        before = {m: {k: (np.array(ts.times, copy=True), np.array(ts.values, copy=True)) for k, ts in p.history(m).items()} for m in range(E)}
        m = rng.randrange(E)
        h0 = Fraction(hs[m][v]["times"][0])
        qs = []
        for _ in range(6):
            a = rng.choice([h0, h0 + Fraction(1, 4), times[0] - Fraction(1, 2), times[0], times[0] + (times[1] - times[0]) / 2])
            b = rng.choice([t for t in times[1:]] + [times[-1] - (times[-1] - times[-2]) / 2])
            if a < b:
                qs.append(rng.choice([{"kind": "integral", "a": str(a), "b": str(b), "m": m}, {"kind": "states_in", "a": str(a), "b": str(b), "m": m}]))
            t = rng.choice([h0, times[0] - Fraction(1, 4), times[0], times[-1], times[0] + (times[1] - times[0]) / 3])
            qs.append({"kind": "state_at", "t": str(t), "m": m, "scaled": False, "extrapolate": True})
            qs.append({"kind": "der_at", "t": str(rng.choice(times)), "m": m})
        qs.append({"kind": "der_map", "m": m})          # der() inside an expression mapped over the horizon
        ctx.case_done(core.fingerprint(["alias", len(coll), E, v in s["states"], [q["kind"] for q in qs]]), True)
        ctx.count("alias_cases")
        for q in qs:
            got = {}
            for nm in (v, "neg_" + v, "same_" + v):
                got[nm] = impl_query(p, s, dict(q, v=nm), X, Xf)
            rep = {"spec": s, "query": q, "variable": v, "answers": got, "X": Xf}
            base = got[v]
            if isinstance(base, str) or base is None:
                if got["neg_" + v] != base or got["same_" + v] != base:
                    ctx.violation("alias/raise-differs", rep, what="%s through an alias behaves differently: %s" % (q["kind"], got))
                continue
            for nm, sg in (("neg_" + v, -1.0), ("same_" + v, 1.0)):
                g = got[nm]
                if isinstance(g, str) or g is None or len(g) != len(base) or any(abs(x - sg * y) > 1e-9 * (1 + abs(y)) for x, y in zip(g, base)):
                    ctx.violation("alias/accessor", rep, what="%s of %s is %s, of %s it is %s (expected the %s)" % (
                        q["kind"], v, str(base)[:80], nm, str(g)[:80], "negation" if sg < 0 else "same"))
                    break
        after = {mm: {k: (np.array(ts.times), np.array(ts.values)) for k, ts in p.history(mm).items()} for mm in range(E)}
        for mm in range(E):
            for k in before[mm]:
                if not (np.array_equal(before[mm][k][0], after[mm][k][0]) and np.array_equal(before[mm][k][1], after[mm][k][1], equal_nan=True)):
                    ctx.violation("alias/history-mutated", {"spec": s, "queries": qs, "variable": k, "member": mm,
                                                            "before": before[mm][k][1].tolist(), "after": after[mm][k][1].tolist()},
                                  what="accessor calls changed the stored history of %s from %s to %s" % (k, before[mm][k][1].tolist(), after[mm][k][1].tolist()))


_run_core = run


def run(ctx):  # noqa: F811
    _run_core(ctx)
    if not os.environ.get("VERIF_REPLAY"):
        alias_checks(ctx)
