"""C06 — objective and user constraints are transcribed as given, at every time stamp."""
import json

from .. import core, tr, trcheck

ID = "C06"
PROPS_FILE = "props/C06.v"
MODEL_FILES = ["Xq", "Interp", "Expr", "Transcribe"]
RULE = ("generated problems with objectives over variables at collocation times, path objectives over "
        "states / controls / derivatives / constant inputs / parameters (the t0 instance depends on the "
        "initial derivatives), unequal member probabilities, 0-2 path constraints with scalar / +-inf / "
        "Timeseries (shorter than the horizon) / per-member bounds, 0-2 point constraints per member; "
        "nlp f, g, lbg, ubg compared at two rational decision vectors. non-trivial = a path objective or "
        "path constraint on a grid of >= 3 stamps or >= 2 members; distinct = abstracted problem shapes"
        ' Also: path and extra variables inside path / point expressions of multi-member problems, series bounds on other stamps than the collocation times, and objective_value against nlp f at solver_output after converged, iteration-limited and repeated solves.')
MODELLED = ("transcribe(): objective assembly (1862-1871), point constraints (1873-1919), path constraints and "
            "their bounds (1921-1975), the t0 instances through __func_initial_inputs")
NOT_MODELLED = ("vector constraints; parameter-dependent (symbolic) bounds; derivative of algebraics / controls at t0 "
                "(known finding C06-t0-derivative: the history slope computed for it is lost)")
ASSUMPTIONS = []

FEAT = {"objective": True, "path": True, "history": True, "bounds": False, "pvars": True, "extra_cin": True, "cin_axis": True}


def run(ctx):
    rs = trcheck.replay_spec()
    specs = [rs] if rs else [c["spec"] for c in core.corpus_cases(ID)] + \
        [tr.gen_spec(ctx.rng, FEAT) for _ in range(ctx.n(120, 4000))]
    rows = trcheck.run_cases(ctx, ID, specs)
    for s, o, m, diffs in rows:
        nontriv = (s.get("path_objective") is not None or s.get("path_constraints")) and \
            (len(s["times"]) > 2 or s.get("ensemble_size", 1) > 1)
        ctx.case_done(trcheck.shape_of(s), bool(nontriv))
        ctx.count("path_objective" if s.get("path_objective") is not None else "no_path_objective")
        ctx.count("path_constraints", len(s.get("path_constraints", [])))
        ctx.count("point_constraints", sum(len(c) for c in s.get("constraints", [])))
        if s.get("probabilities"):
            ctx.count("unequal_probabilities")
        if o is not None and nontriv:
            ctx.sample({"spec": s, "f_impl": [gf[1] for gf in o["gf"]], "f_model": [str(p[1]) for p in m[3]]})
        bad = [d for d in (diffs or []) if d[0] in ("objective", "g-size", "g-rows-count", "g-row", "g-bounds", "impl-exception")]
        if bad:
            ctx.violation("transcribe/" + bad[0][0], {"spec": s, "differences": bad[:4],
                                                      "X": [[str(x) for x in X] for X in o["X"]] if o else None},
                          what="objective / user constraints differ from the documented transcription: %s" % json.dumps(bad[0], default=str)[:300])
    t0_derivative_probe(ctx)


def t0_derivative_probe(ctx):
    """the t0 instance of a path expression mentioning der(u) of a control with >= 2 history points
    must see the history slope (what der_at returns); the code sees 0"""
    s = {"times": ["0", "1", "2"], "states": [], "algebraics": ["y0"], "controls": ["u0"], "constant_inputs": [],
         "parameters": [], "ensemble_size": 1, "theta": "1",
         "residual": [["-", ["v", "y0"], ["v", "u0"]]], "initial_residual": [],
         "param_values": [{}], "constant_input_values": [{}],
         "history": [{"u0": {"times": ["-1", "0"], "values": ["1", "4"]}}],
         "path_objective": ["v", "der(u0)"], "objective": [["c", "0"]]}
    o = tr.observe(s, 0, ctx.rng)
    from fractions import Fraction
    # a feasible point: u(t0) is pinned to the history value 4
    X = [Fraction(4), Fraction(ctx.rng.randint(-8, 8)), Fraction(ctx.rng.randint(-8, 8))] + \
        [Fraction(ctx.rng.randint(-8, 8)) for _ in range(o["nx"] - 3)]
    p = o["p"]
    d_, lbx_, ubx_, lbg_, ubg_, x0_, nlp_ = p.transcribe()
    import casadi as ca
    f_impl = float(ca.Function("f", [nlp_["x"]], [nlp_["f"]])(ca.DM([float(x) for x in X])))
    o["gf"] = [([], f_impl)]
    import casadi as ca
    f = ca.Function("f", [p.solver_input], [p.der_at("u0", 0.0)])
    slope = float(f(ca.DM([float(x) for x in X])))
    # spec: f = der(u)(t0) + sum_i (u_i - u_{i-1})/dt ;  u index 0..2 are the controls
    u = [float(x) for x in X[:3]]
    spec_f = slope + (u[1] - u[0]) / 1.0 + (u[2] - u[1]) / 1.0
    ctx.count("t0_derivative_probe")
    if abs(spec_f - o["gf"][0][1]) > 1e-9:
        ctx.violation("path/t0-derivative-of-undifferentiated",
                      {"spec": s, "X": [str(x) for x in X], "f_impl": o["gf"][0][1], "f_spec": spec_f, "der_at_t0": slope},
                      what="path objective at t0 ignores the history slope of der(u0) (der_at gives %g)" % slope)


# ---- the objective value reported after a solve is the objective of the returned trajectories -----------------
def reported_objective(ctx):
    """real solves - converged, and stopped early on an iteration limit, also a second optimize() on the same
    object: objective_value must be nlp f at solver_output every time"""
    import os
    import casadi as ca
    import numpy as np
    from .. import problems
    rng = ctx.rng
    done = 0
    for _ in range(ctx.n(30, 600)):
        if done >= ctx.n(6, 150):
            break
        s = tr.gen_spec(rng, {"objective": True, "path": False, "history": False, "bounds": True, "own_grid": False})
        if s["states"] or not s.get("objective"):
            continue                       # algebraic-only models (NumPy-2 seed issue with states in this sandbox)
        # a strictly convex objective so that the solve is well posed
        coll = s["algebraics"] + s["controls"]
        n = len(s["times"])
        for m in range(s["ensemble_size"]):
            e = s["objective"][m]
            for v in coll:
                for k in range(n):
                    e = ["+", e, ["*", ["-", ["at", v, k], ["c", str(rng.randint(-3, 3))]], ["-", ["at", v, k], ["c", "1"]]]]
            s["objective"][m] = e
        Base = problems.make_base(s)
        limit = {"it": None}

        class P(Base):
            def solver_options(self):
                o = super().solver_options()
                o["ipopt"] = {"print_level": 0, "tol": 1e-9}
                if limit["it"] is not None:
                    o["ipopt"]["max_iter"] = limit["it"]
                o["print_time"] = False
                return o

            def seed(self, m):
                sd = super().seed(m)
                if limit["it"] is not None:
                    from rtctools.optimization.timeseries import Timeseries
                    for v in coll:
                        sd[v] = Timeseries(self.times(v), np.full(len(self.times(v)), 7.0))
                return sd
        fd = os.open(os.devnull, os.O_WRONLY)
        so, se = os.dup(1), os.dup(2)
        os.dup2(fd, 1)
        os.dup2(fd, 2)
        try:
            p = P()
            obs = []
            for it in (None, 1, None):
                limit["it"] = it
                ok = p.optimize()
                d, lbx, ubx, lbg, ubg, x0, nlp = p.transcribe()
                f = float(ca.Function("f", [nlp["x"]], [nlp["f"]])(p.solver_output))
                obs.append({"max_iter": it, "success": bool(ok), "objective_value": float(p.objective_value), "f_at_solver_output": f})
        except Exception as e:  # noqa: BLE001
            obs = {"error": "%s: %s" % (type(e).__name__, str(e)[:160])}
        finally:
            os.dup2(so, 1)
            os.dup2(se, 2)
            os.close(fd)
        if isinstance(obs, dict):
            ctx.count("reported_objective_exception")
            continue
        done += 1
        ctx.runtime_samples += 1
        ctx.case_done(core.fingerprint(["reported", len(coll), n, s["ensemble_size"], [o["success"] for o in obs]]), not all(o["success"] for o in obs))
        ctx.count("reported_objective_runs")
        for o in obs:
            if not o["success"]:
                ctx.count("reported_objective_after_unsuccessful_solve")
            if abs(o["objective_value"] - o["f_at_solver_output"]) > 1e-8 * (1 + abs(o["f_at_solver_output"])):
                ctx.violation("objective/reported-value", {"spec": s, "runs": obs},
                              what="objective_value %r after a solve (max_iter %s, success %s) is not the objective %r of the returned point" % (
                                  o["objective_value"], o["max_iter"], o["success"], o["f_at_solver_output"]))
                break


_run_core = run


def run(ctx):  # noqa: F811
    _run_core(ctx)
    if not trcheck.replay_spec():
        reported_objective(ctx)
