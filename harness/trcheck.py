"""Common driver for the transcription properties: run tr cases, compare, classify by category."""
import json
import os

from . import core, tr

IMPORTS = ["Xq", "Interp", "Expr", "Transcribe"]


def run_cases(ctx, pid, specs, probes=2, shard=12):
    """returns list of (spec, obs, model, diffs)"""
    rows = []
    for s in specs:
        try:
            o = tr.observe(s, probes, ctx.rng)
        except Exception as e:
            ctx.count("impl_exception_" + type(e).__name__)
            rows.append((s, None, None, [("impl-exception", {"error": "%s: %s" % (type(e).__name__, str(e)[:300])})]))
            continue
        rows.append([s, o, None, None])
    good = [r for r in rows if r[1] is not None]
    terms = [tr.eval_term(r[0], r[1]["X"]) for r in good]
    vals = core.eval_terms(pid + "tr", IMPORTS, terms, shard=shard) if terms else []
    for r, v in zip(good, vals):
        r[2] = tr.decode(v, len(r[1]["layout"]), probes)
        r[3] = tr.compare(r[1], r[2])
    return rows


def shape_of(s):
    return core.fingerprint({
        "n": len(s["times"]), "E": s.get("ensemble_size", 1), "theta": s.get("theta"),
        "ns": len(s.get("states", [])), "na": len(s.get("algebraics", [])), "nc": len(s.get("controls", [])),
        "ncin": len(s.get("constant_inputs", [])), "npar": len(s.get("parameters", [])),
        "own_grid": sorted(s.get("var_times", {})), "nominals": sorted(s.get("nominals", {}).items()),
        "t0": s["times"][0], "equidistant": len({tr.F(b) - tr.F(a) for a, b in zip(s["times"], s["times"][1:])}) <= 1,
        "bounds": {k: [type(x).__name__ if not isinstance(x, str) else x for x in v] for k, v in s.get("bounds", {}).items()},
        "hist": [{k: [len(v["values"]), v["values"][-1] == "nan"] for k, v in h.items()} for h in s.get("history", [])],
        "obj": s.get("objective") is not None, "pobj": s.get("path_objective") is not None,
        "npc": len(s.get("path_constraints", [])), "ncons": [len(c) for c in s.get("constraints", [])],
    })


def replay_spec():
    r = os.environ.get("VERIF_REPLAY")
    if not r:
        return None
    return json.load(open(r))["replay"]["spec"]


def jsonable_obs(o):
    return {k: v for k, v in o.items() if k not in ("p",)}
