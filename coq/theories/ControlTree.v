(* Executable model of ControlTreeMixin.discretize_controls (control_tree_mixin.py 72-204): the
   k-ary scenario tree built by branch(), and which members share a control index at which time
   (discretize_control, 54-70), plus PlanningMixin (planning_mixin.py).

   Members are numbered 0..E-1.  dist L a b is the distance between the forecasts of members a and b
   on the segment that decides the children of a branch of depth L (sum over forecast variables
   of the 2-norm of the difference on [bt(L+1), bt(L+2)) ). *)
From Coq Require Import ZArith QArith List Bool Arith.
From RT Require Import Xq.
Import ListNotations.
Open Scope Q_scope.

Definition qmax (a b : Q) : Q := if Qlt_bool a b then b else a.

Section Branching.
  Variable k : nat.
  Variable d : nat -> nat -> Q.          (* distance between two members on the deciding segment *)

  (* position of the first maximum of f over positions 0..n-1 (numpy.argmax); values are
     extended rationals because -inf marks "not available" *)
  Fixpoint argmax_from (f : nat -> Xq) (n start : nat) (best : nat) (bestv : Xq) : nat :=
    match n with
    | O => best
    | S n' => let v := f start in
              if xlt bestv v then argmax_from f n' (S start) start v
              else argmax_from f n' (S start) best bestv
    end.
  Definition argmax (f : nat -> Xq) (n : nat) : nat :=
    match n with O => O | S n' => argmax_from f n' 1 0 (f 0%nat) end.

  Definition mem (x : nat) (l : list nat) : bool := existsb (Nat.eqb x) l.

  (* column maxima of the distance matrix of `members` *)
  Definition col_max (members : list nat) (j : nat) : Xq :=
    XFin (fold_right (fun i acc => qmax (d i (nth j members 0%nat)) acc) 0 members).

  (* min over the already chosen seeds of the distance to member at position p; -inf if the member
     is itself a seed (or no seed exists) *)
  Definition min_to_seeds (members seeds : list nat) (p : nat) : Xq :=
    let mp := nth p members 0%nat in
    if mem mp seeds then XNInf
    else match seeds with
         | [] => XNInf
         | s :: rest => XFin (fold_right (fun s' acc => if Qlt_bool (d s' mp) acc then d s' mp else acc) (d s mp) rest)
         end.

  (* the seed selection loop: returns the seeds in child order (at most k) *)
  Fixpoint pick_seeds (fuel : nat) (members seeds : list nat) (idx : option nat) : list nat :=
    match fuel with
    | O => seeds
    | S fuel' =>
        match idx with
        | None => seeds
        | Some p =>
            let seeds' := seeds ++ [nth p members 0%nat] in
            let f := min_to_seeds members seeds' in
            let p' := argmax f (length members) in
            let nxt := match f p' with
                       | XFin v => if Qle_bool v 0 then None else Some p'
                       | XPInf => Some p'
                       | _ => None
                       end in
            pick_seeds fuel' members seeds' nxt
        end
    end.

  Definition seeds_of (members : list nat) : list nat :=
    pick_seeds k members [] (Some (argmax (col_max members) (length members))).

  (* cluster a non-seed member to the nearest seed (first one on ties) *)
  Fixpoint nearest (seeds : list nat) (m : nat) (i best : nat) (bestv : option Q) : nat :=
    match seeds with
    | [] => best
    | s :: rest =>
        match bestv with
        | None => nearest rest m (S i) i (Some (d m s))
        | Some bv => if Qlt_bool (d m s) bv then nearest rest m (S i) i (Some (d m s))
                     else nearest rest m (S i) best bestv
        end
    end.

  Fixpoint insert_sorted (x : nat) (l : list nat) : list nat :=
    match l with
    | [] => [x]
    | y :: t => if x <=? y then x :: l else y :: insert_sorted x t
    end.

  (* children 0..k-1: child i = seed i followed by the clustered members in ascending order
     (iteration order of a Python set of small ints); missing seeds give empty children *)
  Definition children (members : list nat) : list (list nat) :=
    let seeds := seeds_of members in
    let rest := fold_right insert_sorted [] (filter (fun m => negb (mem m seeds)) members) in
    map (fun i =>
           match nth_error seeds i with
           | None => []
           | Some s => s :: filter (fun m => Nat.eqb (nearest seeds m 0 0 None) i) rest
           end) (seq 0 k).
End Branching.

(* the whole tree: list of (path, members) in creation order *)
Section Tree.
  Variable k : nat.
  Variable dist : nat -> nat -> nat -> Q.       (* depth of the parent, member, member *)
  Variable nbt : nat.                           (* number of branching times *)

  Fixpoint build (fuel : nat) (path : list nat) (members : list nat) : list (list nat * list nat) :=
    match fuel with
    | O => []
    | S fuel' =>
        if Nat.leb nbt (length path) then []
        else match members with
             | [] => []
             | _ =>
                 let cs := children k (dist (length path)) members in
                 let named := combine (map (fun i => path ++ [i]) (seq 0 k)) cs in
                 named ++ flat_map (fun pc => build fuel' (fst pc) (snd pc)) named
             end
    end.

  Definition tree (E : nat) : list (list nat * list nat) :=
    ([], seq 0 E) :: build (S nbt) [] (seq 0 E).

  (* the branch of depth L containing member m *)
  Definition branch_of (t : list (list nat * list nat)) (L m : nat) : option (list nat) :=
    match filter (fun pc => Nat.eqb (length (fst pc)) L && mem m (snd pc)) t with
    | pc :: _ => Some (fst pc)
    | [] => None
    end.
End Tree.

(* members share a control at a time in segment L iff they are in the same branch of depth L *)
Definition share_class (t : list (list nat * list nat)) (L m : nat) : Z :=
  match filter (fun pc => Nat.eqb (length (fst pc)) L && mem m (snd pc)) t with
  | pc :: _ => Z.of_nat (fold_right Nat.min m (snd pc))
  | [] => (-1)%Z
  end.

Definition ser_tree (t : list (list nat * list nat)) : list Z :=
  Z.of_nat (length t) ::
  flat_map (fun pc => Z.of_nat (length (fst pc)) :: map Z.of_nat (fst pc) ++
                      Z.of_nat (length (snd pc)) :: map Z.of_nat (snd pc)) t.
