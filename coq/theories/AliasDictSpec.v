(* Abstract specification of AliasDict: a map from equivalence classes to base-signed values.
   This is what C13 says; AliasDict.v is what the code does; AliasDict_proofs.v relates them. *)
From Coq Require Import ZArith List Bool.
From RT Require Import AliasDict.
Import ListNotations.
Open Scope Z_scope.

Section Spec.
  Variable canon : Z -> Z * bool.
  Variable signed : bool.
  Notation cmap := (Z -> option value).

  Definition cls (k : Z) : Z := fst (canon k).
  Definition sgn (k : Z) : bool := snd (canon k).
  Definition same_quantity (k k' : Z) : Prop := cls k = cls k'.

  Definition spec_set (m : cmap) (k : Z) (v : value) : cmap :=
    fun c => if c =? cls k then Some (flip (signed && sgn k) v) else m c.
  Definition spec_get (m : cmap) (k : Z) : option value :=
    option_map (flip (signed && sgn k)) (m (cls k)).
  Definition spec_del (m : cmap) (k : Z) : cmap :=
    fun c => if c =? cls k then None else m c.

  Inductive sout := SNone | SKeyError | SVal (v : value) | SBool (b : bool) | SUnspecified.

  Definition spec_update (m : cmap) (kvs : list (Z * value)) : cmap :=
    fold_left (fun m kv => spec_set m (fst kv) (snd kv)) kvs m.

  Definition spec_step (m : cmap) (o : op) : cmap * sout :=
    match o with
    | OSet k v => (spec_set m k v, SNone)
    | OGet k => (m, match spec_get m k with Some v => SVal v | None => SKeyError end)
    | ODel k => match m (cls k) with
                | Some _ => (spec_del m k, SNone)
                | None => (m, SKeyError)
                end
    | OContains k => (m, SBool (match m (cls k) with Some _ => true | None => false end))
    | OLen | OKeys | OItems => (m, SUnspecified)
    | OGetDefault k v => (m, match spec_get m k with Some w => SVal w | None => SVal v end)
    | OSetDefault k v =>
        match spec_get m k with
        | Some w => (m, SVal w)
        | None => (spec_set m k v, SVal v)
        end
    | OUpdate kvs => (spec_update m kvs, SNone)
    end.

  Fixpoint spec_run (m : cmap) (ops : list op) : cmap * list sout :=
    match ops with
    | [] => (m, [])
    | o :: t => let (m', r) := spec_step m o in let (m'', rs) := spec_run m' t in (m'', r :: rs)
    end.
End Spec.

Definition ser_sout (o : sout) : list Z :=
  match o with
  | SNone => [10]
  | SKeyError => [11]
  | SVal v => 12 :: ser_value v
  | SBool b => [13; if b then 1 else 0]
  | SUnspecified => [19]
  end.

(* the property oracle: specified outputs of an op sequence, then a probe of every key of the
   universe through the final class map *)
Definition spec_case (tbl : list (Z * (Z * bool))) (signed : bool) (ops : list op) (probe : list Z) : list Z :=
  let (m, outs) := spec_run (table_canon tbl) signed (fun _ => None) ops in
  flat_map ser_sout outs ++
  flat_map (fun k => match spec_get (table_canon tbl) signed m k with
                     | Some v => 12 :: ser_value v
                     | None => [11] end) probe.
