(* Model of LinearizedOrderGoal._get_linear_coefficients' result
   (linearized_order_goal_programming_mixin.py 23-73): given the breakpoints 0 = x0 < ... < xm = 1
   the penalty eps^order is replaced by the maximum of the chords through consecutive breakpoints. *)
From Coq Require Import ZArith QArith List Bool.
From RT Require Import Xq.
Import ListNotations.
Open Scope Q_scope.

Fixpoint pw (x : Q) (r : nat) : Q := match r with O => 1 | S r' => x * pw x r' end.

(* (a, b) of one chord:  a = (y1 - y0)/(x1 - x0),  b = y1 - a*x1 *)
Definition coef (r : nat) (x0 x1 : Q) : Q * Q :=
  let a := (pw x1 r - pw x0 r) / (x1 - x0) in (a, pw x1 r - a * x1).

Fixpoint lines (r : nat) (xs : list Q) : list (Q * Q) :=
  match xs with
  | x0 :: ((x1 :: _) as t) => coef r x0 x1 :: lines r t
  | _ => []
  end.

Definition line_val (ab : Q * Q) (e : Q) : Q := fst ab * e + snd ab.

Definition qmax (a b : Q) : Q := if Qle_bool a b then b else a.

(* the linearised penalty: the epigraph variable is >= every line, so its minimum is their max *)
Definition penalty (ls : list (Q * Q)) (e : Q) : Q :=
  match ls with
  | [] => 0
  | l :: t => fold_left (fun acc l' => qmax acc (line_val l' e)) t (line_val l e)
  end.

(* decidable check of a breakpoint list against a tolerance: per segment [a, b] the curve at b
   exceeds the tangent taken at a by at most tol *)
Fixpoint check_breaks (r : nat) (tol : Q) (xs : list Q) : bool :=
  match xs with
  | a :: ((b :: _) as t) =>
      Qlt_bool a b &&
      Qle_bool (pw b r - (pw a r + inject_Z (Z.of_nat r) * pw a (r - 1) * (b - a))) tol &&
      check_breaks r tol t
  | _ => true
  end.

Definition breaks_ok (xs : list Q) : bool :=
  match xs with
  | [] => false
  | x0 :: _ => Qeq_bool x0 0 && Qeq_bool (last xs 0) 1
  end.

Definition ser_lines (ls : list (Q * Q)) : list Z :=
  Z.of_nat (length ls) :: flat_map (fun ab => ser_q (fst ab) ++ ser_q (snd ab)) ls.
