(* Executable model of OptimizationProblem.interpolate / __interpolate
   (src/rtctools/optimization/optimization_problem.py 787-880) and of the symbolic interpolator
   rtctools._internal.casadi_helpers.interpolate (= casadi.interp1d, modes linear/floor/ceil).
   Values are exact rationals; fill values may be NaN / +-inf / None (None = "raise outside"). *)
From Coq Require Import ZArith QArith List Bool.
From RT Require Import Xq.
Import ListNotations.
Open Scope Q_scope.

Inductive mode := Linear | Forward | Backward.   (* INTERPOLATION_LINEAR / _FORWARD / _BACKWARD *)

Inductive res (A : Type) := Val (a : A) | Raise.
Arguments Val {A} a.
Arguments Raise {A}.

Definition hdq (l : list Q) : Q := hd 0 l.
Definition lastq (l : list Q) : Q := last l 0.

(* numpy.searchsorted on a sorted array *)
Definition count_le (ts : list Q) (t : Q) : nat := length (filter (fun x => Qle_bool x t) ts).
Definition count_lt (ts : list Q) (t : Q) : nat := length (filter (fun x => Qlt_bool x t) ts).

(* numpy.interp for ts[0] <= t <= ts[-1]: the segment [ts_j, ts_{j+1}) containing t *)
Fixpoint lin (ts fs : list Q) (t : Q) : Q :=
  match ts, fs with
  | t0 :: ((t1 :: _) as ts'), f0 :: ((f1 :: _) as fs') =>
      if Qlt_bool t t1 then f0 + (f1 - f0) * ((t - t0) / (t1 - t0)) else lin ts' fs' t
  | _, f0 :: _ => f0
  | _, [] => 0
  end.

Definition fill (f : option Xq) (dflt : Q) : Xq :=
  match f with Some x => x | None => XFin dflt end.

Definition is_none {A} (o : option A) : bool := match o with None => true | Some _ => false end.

(* __interpolate for one query point (the raise checks are done by the callers, as in the code
   they use min(t)/max(t) over the whole query array) *)
Definition core_val (m : mode) (ts fs : list Q) (fl fr : option Xq) (t : Q) : Xq :=
  if Qlt_bool t (hdq ts) then fill fl (hdq fs)
  else if Qlt_bool (lastq ts) t then fill fr (lastq fs)
  else match m with
       | Linear => XFin (lin ts fs t)
       | Forward => XFin (nth (Nat.max (count_le ts t - 1) 0) fs 0)
       | Backward => XFin (nth (Nat.min (count_lt ts t) (length ts - 1)) fs 0)
       end.

Definition out_of_range (ts : list Q) (fl fr : option Xq) (t : Q) : bool :=
  (is_none fl && Qlt_bool t (hdq ts)) || (is_none fr && Qlt_bool (lastq ts) t).

Definition core1 (m : mode) (ts fs : list Q) (fl fr : option Xq) (t : Q) : res Xq :=
  if out_of_range ts fl fr t then Raise else Val (core_val m ts fs fl fr t).

(* interpolate(t scalar) *)
Definition interp_scalar (m : mode) (ts fs : list Q) (fl fr : option Xq) (t : Q) : res Xq :=
  if Qeq_bool (hdq ts) t then Val (XFin (hdq fs)) else core1 m ts fs fl fr t.

Fixpoint list_eqb (a b : list Q) : bool :=
  match a, b with
  | [], [] => true
  | x :: a', y :: b' => Qeq_bool x y && list_eqb a' b'
  | _, _ => false
  end.

Definition core_array (m : mode) (ts fs : list Q) (fl fr : option Xq) (tq : list Q) : res (list Xq) :=
  if existsb (out_of_range ts fl fr) tq then Raise else Val (map (core_val m ts fs fl fr) tq).

(* interpolate(t array, fs 1-D) *)
Definition interp_array (m : mode) (ts fs : list Q) (fl fr : option Xq) (tq : list Q) : res (list Xq) :=
  if list_eqb tq ts then Val (map XFin fs) else core_array m ts fs fl fr tq.

(* interpolate(t array, fs 2-D): a list of columns *)
Fixpoint all_vals {A} (l : list (res A)) : res (list A) :=
  match l with
  | [] => Val []
  | Raise :: _ => Raise
  | Val a :: t => match all_vals t with Val r => Val (a :: r) | Raise => Raise end
  end.

Definition interp_2d (m : mode) (ts : list Q) (cols : list (list Q)) (fl fr : option Xq) (tq : list Q)
  : res (list (list Xq)) :=
  if list_eqb tq ts then Val (map (map XFin) cols)
  else all_vals (map (fun fs => interp_array m ts fs fl fr tq) cols).

(* ---- casadi.interp1d(ts, xs, t, mode, equidistant): clamped outside the knot range ------------ *)
Definition interp1d (m : mode) (ts fs : list Q) (t : Q) : Q :=
  if Qle_bool t (hdq ts) then hdq fs
  else if Qle_bool (lastq ts) t then lastq fs
  else match m with
       | Linear => lin ts fs t
       | Forward => nth (Nat.max (count_le ts t - 1) 0) fs 0     (* "floor" *)
       | Backward => nth (Nat.min (count_lt ts t) (length ts - 1)) fs 0   (* "ceil" *)
       end.

(* ---- serialisation --------------------------------------------------------------------------- *)
Definition ser_res_x (r : res Xq) : list Z :=
  match r with Raise => [9%Z] | Val x => 8%Z :: ser_xq x end.
Definition ser_res_l (r : res (list Xq)) : list Z :=
  match r with Raise => [9%Z] | Val l => 8%Z :: Z.of_nat (length l) :: flat_map ser_xq l end.
Definition ser_res_ll (r : res (list (list Xq))) : list Z :=
  match r with
  | Raise => [9%Z]
  | Val ll => 8%Z :: Z.of_nat (length ll) :: flat_map (fun l => Z.of_nat (length l) :: flat_map ser_xq l) ll
  end.

Definition mode_of (z : Z) : mode := if (z =? 0)%Z then Linear else if (z =? 1)%Z then Forward else Backward.
