(* Expression AST standing for the user's model functions (DAE residual, objective, constraint
   expressions) when the models are *executed*; in the theorems these functions are arbitrary. *)
From Coq Require Import ZArith QArith List.
Import ListNotations.
Open Scope Q_scope.

Inductive expr :=
| EC (q : Q)
| EV (i : nat)
| EAdd (a b : expr)
| ESub (a b : expr)
| EMul (a b : expr)
| ENeg (a : expr).

Fixpoint eval (env : list Q) (e : expr) : Q :=
  match e with
  | EC q => q
  | EV i => nth i env 0
  | EAdd a b => eval env a + eval env b
  | ESub a b => eval env a - eval env b
  | EMul a b => eval env a * eval env b
  | ENeg a => - eval env a
  end.

Definition evals (env : list Q) (es : list expr) : list Q := map (eval env) es.
