(* Glue between the transcription model and the certificate checker: the documented subproblem of
   a goal-programming priority on a linear model has affine rows; they are extracted from the
   Transcribe.v model by evaluating it at the origin and at the unit vectors. *)
From Coq Require Import ZArith QArith List Bool Arith.
From RT Require Import Xq Interp Expr Transcribe KktCert.
Import ListNotations.
Open Scope Q_scope.

Definition unit_vec (n j : nat) : list Q := map (fun i => if Nat.eqb i j then 1 else 0) (seq 0 n).

Definition affine_of (G : list Q -> list Q) (n : nat) : list (list Q * Q) :=
  let b := G (repeat 0 n) in
  let cols := map (fun j => G (unit_vec n j)) (seq 0 n) in
  map (fun i => (map (fun col => KktCert.qnth col i - KktCert.qnth b i) cols, KktCert.qnth b i))
      (seq 0 (length b)).

Definition mk_cqp (n : nat) (terms : list term) (G : list Q -> list Q)
           (gb xb : list (Xq * Xq)) : cqp :=
  {| q_n := n; q_terms := terms; q_const := 0; q_rows := affine_of G n;
     q_lbg := map fst gb; q_ubg := map snd gb; q_lbx := map fst xb; q_ubx := map snd xb |}.

Definition Qeqb_list (a b : list Q) : bool :=
  Nat.eqb (length a) (length b) && forallb (fun p => Qeq_bool (fst p) (snd p)) (combine a b).

(* result of one certificate run:
   [valid?; gap; max violation of x; objective (structured); objective (transcription model);
    rows affine at the probe? ] *)
Definition cert_report (P : cqp) (G : list Q -> list Q) (Fobj : list Q -> Q)
           (x lam mu probe : list Q) : list Z :=
  let aff_ok := Qeqb_list (G probe) (map (fun r => row_val (q_n P) r probe) (q_rows P)) &&
                Qeq_bool (Fobj probe) (obj P probe) in
  match check_cert P x lam mu with
  | None => [0%Z]
  | Some gap => 1%Z :: ser_q gap ++ ser_q (max_violation P x) ++ ser_q (obj P x) ++ ser_q (Fobj x) ++
                [if aff_ok then 1%Z else 0%Z]
  end.
