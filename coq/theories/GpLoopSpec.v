(* C10 in closed form: what the trace, the return value and the exposed results must be, written
   without reference to the loop. *)
From Coq Require Import ZArith QArith List Bool Arith.
From RT Require Import GpLoop.
Import ListNotations.
Open Scope Z_scope.

(* index of the first failing solve among the first n, or n *)
Fixpoint first_fail (oracle : nat -> bool) (i n : nat) : nat :=
  match n with
  | O => O
  | S n' => if oracle i then S (first_fail oracle (S i) n') else O
  end.

Definition spec_trace (ps : list Z) (k : nat) : list ev :=
  flat_map (fun p => [Started p; Solve p true; Completed p]) (firstn k ps) ++
  (match nth_error ps k with
   | Some p => [Started p; Solve p false]
   | None => []
   end) ++ [Post].

Definition spec_ret (ps : list Z) (k : nat) : bool :=
  match ps with [] => false | _ => Nat.eqb k (length ps) end.

Definition spec_exposed (ps : list Z) (k : nat) : option nat :=
  match k with
  | O => match ps with [] => None | _ => Some O end   (* nothing completed: the raw first solve *)
  | S k' => Some k'                                     (* the last completed priority *)
  end.

Definition spec_outcome (goals : list goal) (oracle : nat -> bool) : outcome :=
  let ps := prios goals in
  let k := first_fail oracle 0 (length ps) in
  {| trace := spec_trace ps k; ret := spec_ret ps k; exposed := spec_exposed ps k |}.

Definition spec_case (goals : list (Q * bool)) (script : list bool) : list Z :=
  ser_outcome (spec_outcome (map (fun g => {| g_prio := fst g; g_empty := snd g |}) goals)
                            (oracle_of script)).
