(* Executable model of rtctools._internal.alias_tools.AliasDict (src lines 99-188).

   Keys are integers (the harness numbers the variable names, negated names included); the alias
   relation is an arbitrary function  canon : key -> canonical key * negated?  exactly as
   AliasRelation.canonical_signed.  The dictionary is a Python dict: an association list in
   insertion order whose keys are canonical names. *)
From Coq Require Import ZArith List Bool.
Import ListNotations.
Open Scope Z_scope.

Inductive value :=
| VInt (z : Z)                 (* a number: negated through a negated alias *)
| VPair (a b : Z)              (* a (min, max) tuple: swapped and negated *)
| VList (l : list Z).          (* a list: element-wise negated *)

Definition neg_value (v : value) : value :=
  match v with
  | VInt z => VInt (- z)
  | VPair a b => VPair (- b) (- a)
  | VList l => VList (map Z.opp l)
  end.

(* s = true : the alias is negated w.r.t. the canonical variable *)
Definition flip (s : bool) (v : value) : value := if s then neg_value v else v.

Definition dict := list (Z * value).

Fixpoint lookup (d : dict) (c : Z) : option value :=
  match d with
  | [] => None
  | (c', v) :: t => if c =? c' then Some v else lookup t c
  end.

(* d[c] = v : an existing key keeps its position, a new key is appended *)
Fixpoint assoc_set (d : dict) (c : Z) (v : value) : dict :=
  match d with
  | [] => [(c, v)]
  | (c', v') :: t => if c =? c' then (c', v) :: t else (c', v') :: assoc_set t c v
  end.

Fixpoint assoc_del (d : dict) (c : Z) : dict :=
  match d with
  | [] => []
  | (c', v') :: t => if c =? c' then t else (c', v') :: assoc_del t c
  end.

Definition keys (d : dict) : list Z := map fst d.

Section Dict.
  Variable canon : Z -> Z * bool.
  Variable signed : bool.        (* AliasDict(..., signed_values=...) *)

  Definition csigned (k : Z) : Z * bool :=
    let (c, s) := canon k in (c, if signed then s else false).

  Definition ad_set (d : dict) (k : Z) (v : value) : dict :=
    let (c, s) := csigned k in assoc_set d c (flip s v).

  Definition ad_get (d : dict) (k : Z) : option value :=
    let (c, s) := csigned k in option_map (flip s) (lookup d c).

  Definition ad_contains (d : dict) (k : Z) : bool :=
    match lookup d (fst (csigned k)) with Some _ => true | None => false end.

  Definition ad_del (d : dict) (k : Z) : option dict :=
    if ad_contains d k then Some (assoc_del d (fst (csigned k))) else None.

  Definition ad_update (d : dict) (kvs : list (Z * value)) : dict :=
    fold_left (fun d kv => ad_set d (fst kv) (snd kv)) kvs d.

  Inductive op :=
  | OSet (k : Z) (v : value)
  | OGet (k : Z)
  | ODel (k : Z)
  | OContains (k : Z)
  | OLen
  | OKeys
  | OGetDefault (k : Z) (dflt : value)
  | OSetDefault (k : Z) (dflt : value)
  | OUpdate (kvs : list (Z * value))
  | OItems.

  Inductive out :=
  | RNone
  | RKeyError
  | RVal (v : value)
  | RBool (b : bool)
  | RLen (n : nat)
  | RKeys (ks : list Z)
  | RItems (kvs : list (Z * value)).

  Definition step (d : dict) (o : op) : dict * out :=
    match o with
    | OSet k v => (ad_set d k v, RNone)
    | OGet k => (d, match ad_get d k with Some v => RVal v | None => RKeyError end)
    | ODel k => match ad_del d k with Some d' => (d', RNone) | None => (d, RKeyError) end
    | OContains k => (d, RBool (ad_contains d k))
    | OLen => (d, RLen (length d))
    | OKeys => (d, RKeys (keys d))
    | OGetDefault k v => (d, match ad_get d k with Some w => RVal w | None => RVal v end)
    | OSetDefault k v =>
        match ad_get d k with
        | Some w => (d, RVal w)
        | None => (ad_set d k v, RVal v)
        end
    | OUpdate kvs => (ad_update d kvs, RNone)
    | OItems => (d, RItems d)
    end.

  Fixpoint run (d : dict) (ops : list op) : dict * list out :=
    match ops with
    | [] => (d, [])
    | o :: t => let (d', r) := step d o in let (d'', rs) := run d' t in (d'', r :: rs)
    end.
End Dict.

(* ---- serialisation for the correspondence check ------------------------------------------- *)
Definition ser_value (v : value) : list Z :=
  match v with
  | VInt z => [0; z]
  | VPair a b => [1; a; b]
  | VList l => 2 :: Z.of_nat (length l) :: l
  end.

Definition ser_items (d : dict) : list Z :=
  Z.of_nat (length d) :: flat_map (fun kv => fst kv :: ser_value (snd kv)) d.

Definition ser_out (o : out) : list Z :=
  match o with
  | RNone => [10]
  | RKeyError => [11]
  | RVal v => 12 :: ser_value v
  | RBool b => [13; if b then 1 else 0]
  | RLen n => [14; Z.of_nat n]
  | RKeys ks => 15 :: Z.of_nat (length ks) :: ks
  | RItems d => 16 :: ser_items d
  end.

(* the relation is handed over as a finite table; names not in the table are their own class *)
Fixpoint table_canon (tbl : list (Z * (Z * bool))) (k : Z) : Z * bool :=
  match tbl with
  | [] => (k, false)
  | (k', r) :: t => if k =? k' then r else table_canon t k
  end.

Definition run_case (tbl : list (Z * (Z * bool))) (signed : bool) (ops : list op) : list Z :=
  let (d, outs) := run (table_canon tbl) signed [] ops in
  flat_map ser_out outs ++ ser_items d.
