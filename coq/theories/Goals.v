(* Executable model of how a goal becomes constraints, per ensemble member and per time step:
   - soft constraint rows and epsilon bounds  (goal_programming_mixin_base.py 915-962)
   - hard constraints once epsilon / the function value is fixed (_gp_goal_hard_constraint,
     970-1059; identical copy in goal_programming_mixin.py 343-436)
   Values are exact rationals; targets may be NaN / +-inf (inactive steps). *)
From Coq Require Import ZArith QArith Qabs List Bool.
From RT Require Import Xq Interval.
Import ListNotations.
Open Scope Q_scope.

Record goal := {
  g_has_min : bool;      (* has_target_min: some finite target_min entry *)
  g_has_max : bool;
  g_critical : bool;
  g_lo : Q;              (* function_range (ignored for critical goals) *)
  g_hi : Q;
  g_nom : Q;             (* function_nominal *)
  g_relax : Q            (* relaxation *)
}.

Record gopts := {
  o_thr : Q;             (* equality_threshold *)
  o_vtol : option Q;     (* violation_tolerance; None = inf *)
  o_cr : Q;              (* constraint_relaxation *)
  o_fix : bool           (* fix_minimized_values *)
}.

(* ---- soft constraints ------------------------------------------------------------------------ *)
(* (f - eps*(bound - target) - target)/nominal, or the constant 0 where the target is not finite
   (the code substitutes +-float_max and tests |target| < float_max) *)
Definition soft_row (g : goal) (bound : Q) (target : Xq) (f eps : Q) : Q :=
  match target with
  | XFin t => (f - eps * (bound - t) - t) * / g_nom g
  | _ => 0
  end.

(* rows of one goal at one step, with their bounds *)
Definition soft_rows (g : goal) (gm gM : Xq) (f eps : Q) : list (Q * itv) :=
  (if g_has_min g then [(soft_row g (g_lo g) gm f eps, {| lo := XFin 0; hi := XPInf |})] else []) ++
  (if g_has_max g then [(soft_row g (g_hi g) gM f eps, {| lo := XNInf; hi := XFin 0 |})] else []).

(* ---- hard constraints ------------------------------------------------------------------------ *)
Definition side_val (has : bool) (crit : bool) (eps bound relax_signed k : Q) (t : Xq) : option Q :=
  if has then
    match t with
    | XFin q => Some ((eps * (if crit then 0 else bound - q) + q + relax_signed) * k)
    | _ => None
    end
  else None.

Definition vtol_exceeded (o : gopts) (eps : Q) : bool :=
  match o_vtol o with None => false | Some vt => Qlt_bool vt eps end.

Definition hard_target (g : goal) (o : gopts) (gm gM : Xq) (eps value : Q) : itv :=
  let k := / g_nom g in
  let m0 := side_val (g_has_min g) (g_critical g) eps (g_lo g) (- g_relax g) k gm in
  let M0 := side_val (g_has_max g) (g_critical g) eps (g_hi g) (g_relax g) k gM in
  let mM1 :=
    match m0, M0 with
    | Some a, Some b =>
        if Qlt_bool (Qabs (a - b)) (o_thr o)
        then (Some ((1 # 2) * (a + b)), Some ((1 # 2) * (a + b)))
        else (m0, M0)
    | _, _ => (m0, M0)
    end in
  let mM2 :=
    if vtol_exceeded o eps
    then (Some ((value - g_relax g) * k), Some ((value + g_relax g) * k))
    else mM1 in
  {| lo := match fst mM2 with Some a => XFin (a - o_cr o) | None => XNInf end;
     hi := match snd mM2 with Some b => XFin (b + o_cr o) | None => XPInf end |}.

(* minimisation goals: `eps` is the achieved function value *)
Definition hard_minimize (g : goal) (o : gopts) (fval : Q) : itv :=
  let k := / g_nom g in
  if o_fix o && Qeq_bool (g_relax g) 0
  then {| lo := XFin (fval * k); hi := XFin (fval * k) |}
  else {| lo := XNInf; hi := XFin ((fval + g_relax g) * k + o_cr o) |}.

Definition is_target (g : goal) : bool := g_has_min g || g_has_max g.

(* one goal, all steps: targets, epsilons (target goals) or function values (minimisation) *)
Fixpoint hard_steps (g : goal) (o : gopts) (gms gMs : list Xq) (eps vals : list Q) : list itv :=
  match gms, gMs, eps, vals with
  | gm :: gms', gM :: gMs', e :: eps', v :: vals' =>
      (if is_target g then hard_target g o gm gM e v else hard_minimize g o e)
      :: hard_steps g o gms' gMs' eps' vals'
  | _, _, _, _ => []
  end.

Definition mkgoal (hm hM cr : bool) (l h n r : Q) : goal :=
  {| g_has_min := hm; g_has_max := hM; g_critical := cr; g_lo := l; g_hi := h; g_nom := n; g_relax := r |}.
Definition mkopts (thr : Q) (vt : option Q) (cr : Q) (fix_ : bool) : gopts :=
  {| o_thr := thr; o_vtol := vt; o_cr := cr; o_fix := fix_ |}.
