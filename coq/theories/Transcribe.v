(* Executable model of CollocatedIntegratedOptimizationProblem.transcribe() for fully collocated
   problems (integrate_states = False): decision-vector layout, theta-method collocation rows,
   initial residual, initial-derivative handling, variable bounds and history pins, objective and
   path / point constraints.  (collocated_integrated_optimization_problem.py 208-1992,
   2046-2127, 2183-2333.)

   The user's model -- DAE residual F, initial residual F0, objective, path objective, path and
   point constraint expressions -- are Section variables: arbitrary functions of an environment.
   Everything is in exact rationals; bounds may be +-inf / NaN. *)
From Coq Require Import ZArith QArith List Bool Arith.
From RT Require Import Xq Interp.
Import ListNotations.
Open Scope Q_scope.

(* ---- problem data --------------------------------------------------------------------------- *)
Inductive bspec :=
| BNone
| BScalar (x : Xq)
| BSeries (ts : list Q) (vals : list Q)      (* Timeseries bound, finite values *)
| BGrid (vals : list Xq).                    (* Timeseries given on the variable's own stamps; entries may be +-inf *)

Record hist := { h_times : list Q; h_vals : list Xq }.   (* last stamp = t0 by convention *)

Record problem := {
  times : list Q;               (* collocation times *)
  theta : Q;
  nE : nat;                     (* ensemble size *)
  ns : nat; na : nat; nc : nat; (* differentiated states, algebraics, controls *)
  npv : nat; nev : nat;         (* scalar path variables / extra variables *)
  vtimes : list (list Q);       (* own time grid of each collocated variable (states, algebraics, controls) *)
  vmode : list mode;            (* interpolation method of each collocated variable *)
  nom : list Q;                 (* nominal of each collocated variable *)
  nom_pv : list Q;
  nom_ev : list Q;
  cin : list (list (list Q));   (* member -> constant input -> values on the collocation grid *)
  par : list (list Q);          (* member -> parameter values *)
  prob : list Q;                (* member probabilities *)
  lower : list bspec;           (* bounds of collocated variables *)
  upper : list bspec;
  lower_pv : list bspec; upper_pv : list bspec;
  lower_ev : list bspec; upper_ev : list bspec;
  history : list (list (option hist))  (* member -> collocated variable -> history *)
}.

Definition nv (P : problem) : nat := (ns P + na P + nc P)%nat.
Definition nt (P : problem) : nat := length (times P).
Definition vlen (P : problem) (j : nat) : nat := length (nth j (vtimes P) []).

Fixpoint sumn (f : nat -> nat) (k : nat) : nat :=
  match k with O => O | S k' => (sumn f k' + f k')%nat end.

(* ---- layout of the decision vector ------------------------------------------------------------ *)
(* controls first (shared by all members), then one block per member:
   states, algebraics, path variables, extra variables, initial derivatives *)
Definition nsa (P : problem) : nat := (ns P + na P)%nat.
Definition ctl_size (P : problem) : nat := sumn (fun c => vlen P (nsa P + c)) (nc P).
Definition sa_size (P : problem) : nat := sumn (vlen P) (nsa P).
Definition member_size (P : problem) : nat :=
  (sa_size P + npv P * nt P + nev P + ns P)%nat.
Definition xsize (P : problem) : nat := (ctl_size P + nE P * member_size P)%nat.
Definition base (P : problem) (m : nat) : nat := (ctl_size P + m * member_size P)%nat.

(* start of the slice of collocated variable j for member m *)
Definition var_start (P : problem) (m j : nat) : nat :=
  if j <? nsa P then (base P m + sumn (vlen P) j)%nat
  else sumn (fun c => vlen P (nsa P + c)) (j - nsa P).
Definition pv_start (P : problem) (m k : nat) : nat := (base P m + sa_size P + k * nt P)%nat.
Definition ev_index (P : problem) (m k : nat) : nat := (base P m + sa_size P + npv P * nt P + k)%nat.
Definition idr_index (P : problem) (m j : nat) : nat :=
  (base P m + sa_size P + npv P * nt P + nev P + j)%nat.

Definition xget (X : list Q) (i : nat) : Q := nth i X 0.
Definition slice (X : list Q) (start len : nat) : list Q := map (fun k => xget X (start + k)) (seq 0 len).

(* ---- physical values ---------------------------------------------------------------------------- *)
Definition qnth (l : list Q) (i : nat) : Q := nth i l 0.

(* collocated variable j of member m at collocation time index i, in physical units *)
Definition cval (P : problem) (X : list Q) (m j i : nat) : Q :=
  let n := qnth (nom P) j in
  if Nat.eqb (vlen P j) (nt P)
  then n * xget X (var_start P m j + i)
  else n * interp1d (nth j (vmode P) Linear) (nth j (vtimes P) [])
                    (slice X (var_start P m j) (vlen P j)) (qnth (times P) i).

Definition vars_at (P : problem) (X : list Q) (m i : nat) : list Q :=
  map (fun j => cval P X m j i) (seq 0 (nv P)).

(* finite differences over step i -> i+1 of all collocated variables *)
Definition fd_at (P : problem) (X : list Q) (m i : nat) : list Q :=
  map (fun j => (cval P X m j (S i) - cval P X m j i) / (qnth (times P) (S i) - qnth (times P) i))
      (seq 0 (nv P)).

Definition cin_at (P : problem) (m i : nat) : list Q :=
  map (fun c => qnth c i) (nth m (cin P) []).

Definition par_of (P : problem) (m : nat) : list Q := nth m (par P) [].
Definition t0 (P : problem) : Q := qnth (times P) 0.

Definition pv_at (P : problem) (X : list Q) (m i : nat) : list Q :=
  map (fun k => qnth (nom_pv P) k * xget X (pv_start P m k + i)) (seq 0 (npv P)).
Definition ev_of (P : problem) (X : list Q) (m : nat) : list Q :=
  map (fun k => qnth (nom_ev P) k * xget X (ev_index P m k)) (seq 0 (nev P)).

(* ---- history ---------------------------------------------------------------------------------------- *)
Definition hist_of (P : problem) (m j : nat) : option hist := nth j (nth m (history P) []) None.

Definition last2 {A} (l : list A) : option (A * A) :=
  match rev l with a :: b :: _ => Some (b, a) | _ => None end.

Definition xfin (x : Xq) : option Q := match x with XFin q => Some q | _ => None end.

(* backward difference of the two last history points, when the history really extends before t0 *)
Definition hist_slope (h : hist) : option Q :=
  match last2 (h_times h), last2 (h_vals h) with
  | Some (ta, tb), Some (XFin va, XFin vb) =>
      if Qeq_bool (hd 0 (h_times h)) tb then None else Some ((vb - va) / (tb - ta))
  | _, _ => None
  end.

(* nominal of the initial derivative of state j: nominal / dt, dt from member 0's history or the
   first step of the variable's grid *)
Definition idr_nominal (P : problem) (j : nat) : Q :=
  let tj := nth j (vtimes P) [] in
  let dflt := match tj with a :: b :: _ => b - a | _ => 0 end in
  let dt :=
    match hist_of P 0 j with
    | Some h =>
        match last2 (h_times h) with
        | Some (ta, tb) => if Qeq_bool (hd 0 (h_times h)) (qnth tj 0) then dflt else tb - ta
        | None => dflt
        end
    | None => dflt
    end in
  if Qlt_bool 0 dt then qnth (nom P) j / dt else qnth (nom P) j.

(* derivatives handed to the residual and to path expressions at t0: free variables for
   differentiated states.  For algebraics and controls the code computes the history slope but
   then loses it (reduce_matvec keeps only the part linear in X), so what is used is 0; the value
   the property asks for is init_ders_spec (known finding C06-t0-derivative). *)
Definition init_ders (P : problem) (X : list Q) (m : nat) : list Q :=
  map (fun j => if j <? ns P then idr_nominal P j * xget X (idr_index P m j) else 0)
      (seq 0 (nv P)).

Definition init_ders_spec (P : problem) (X : list Q) (m : nat) : list Q :=
  map (fun j =>
         if j <? ns P then idr_nominal P j * xget X (idr_index P m j)
         else match hist_of P m j with
              | Some h => match hist_slope h with Some s => s | None => 0 end
              | None => 0
              end)
      (seq 0 (nv P)).

Section Model.
  (* environment handed to the DAE: variables, derivatives, constant inputs, parameters, time *)
  Variable F : list Q -> list Q -> list Q -> list Q -> Q -> list Q.
  Variable F0 : list Q -> list Q -> list Q -> list Q -> Q -> list Q.
  (* path expressions additionally see path variables and extra variables *)
  Variable PathObj : list Q -> list Q -> list Q -> list Q -> Q -> list Q -> list Q -> Q.
  Variable PathCon : list Q -> list Q -> list Q -> list Q -> Q -> list Q -> list Q -> list Q.
  Variable has_path_obj : bool.

  (* ---- theta-method collocation -------------------------------------------------------------- *)
  Definition blend (th : Q) (r0 r1 : list Q) : list Q :=
    map (fun ab => (1 - th) * fst ab + th * snd ab) (combine r0 r1).

  Definition res0 (P : problem) (X : list Q) (m i : nat) : list Q :=
    F (vars_at P X m i) (fd_at P X m i) (cin_at P m i) (par_of P m) (qnth (times P) i - t0 P).
  Definition res1 (P : problem) (X : list Q) (m i : nat) : list Q :=
    F (vars_at P X m (S i)) (fd_at P X m i) (cin_at P m (S i)) (par_of P m)
      (qnth (times P) (S i) - t0 P).

  Definition step_rows (P : problem) (X : list Q) (m i : nat) : list Q :=
    if Qeq_bool (theta P) 0 then res0 P X m i
    else if Qeq_bool (theta P) 1 then res1 P X m i
    else blend (theta P) (res0 P X m i) (res1 P X m i).

  Definition collocation_rows (P : problem) (X : list Q) (m : nat) : list Q :=
    flat_map (step_rows P X m) (seq 0 (nt P - 1)).

  Definition initial_rows (P : problem) (X : list Q) (m : nat) : list Q :=
    F (vars_at P X m 0) (init_ders P X m) (cin_at P m 0) (par_of P m) 0 ++
    F0 (vars_at P X m 0) (init_ders P X m) (cin_at P m 0) (par_of P m) 0.

  (* rows that tie the free initial derivative of state j to the history when the t0 value itself
     is unknown (NaN) but the previous one is known *)
  Definition init_der_rows (P : problem) (X : list Q) (m : nat) : list Q :=
    flat_map (fun j =>
      match hist_of P m j with
      | Some h =>
          match last2 (h_times h), last2 (h_vals h) with
          | Some (ta, tb), Some (XFin va, XNaN) =>
              [idr_nominal P j * xget X (idr_index P m j) - (cval P X m j 0 - va) / (t0 P - ta)]
          | _, _ => []
          end
      | None => []
      end) (seq 0 (ns P)).

  (* ---- path objective / constraints, objective ---------------------------------------------- *)
  Definition path_env_obj (P : problem) (X : list Q) (m i : nat) : Q :=
    match i with
    | O => PathObj (vars_at P X m 0) (init_ders P X m) (cin_at P m 0) (par_of P m) 0
                   (pv_at P X m 0) (ev_of P X m)
    | S i' => PathObj (vars_at P X m i) (fd_at P X m i') (cin_at P m i) (par_of P m)
                      (qnth (times P) i - t0 P) (pv_at P X m i) (ev_of P X m)
    end.

  Definition path_con_at (P : problem) (X : list Q) (m i : nat) : list Q :=
    match i with
    | O => PathCon (vars_at P X m 0) (init_ders P X m) (cin_at P m 0) (par_of P m) 0
                   (pv_at P X m 0) (ev_of P X m)
    | S i' => PathCon (vars_at P X m i) (fd_at P X m i') (cin_at P m i) (par_of P m)
                      (qnth (times P) i - t0 P) (pv_at P X m i) (ev_of P X m)
    end.

  Definition qsum (l : list Q) : Q := fold_right Qplus 0 l.

  (* objective of member m: user objective + path objective at every collocation time incl. t0 *)
  Definition member_objective (P : problem) (Obj : nat -> list Q -> Q) (X : list Q) (m : nat) : Q :=
    Obj m X + (if has_path_obj then qsum (map (path_env_obj P X m) (seq 0 (nt P))) else 0).

  Definition objective (P : problem) (Obj : nat -> list Q -> Q) (X : list Q) : Q :=
    qsum (map (fun m => qnth (prob P) m * member_objective P Obj X m) (seq 0 (nE P))).

  (* path constraint rows of member m: t0 first, then every later collocation time *)
  Definition path_rows (P : problem) (X : list Q) (m : nat) : list Q :=
    flat_map (path_con_at P X m) (seq 0 (nt P)).

  (* all constraint rows, in the order the code emits them: the initial block of every member,
     then per member: initial-derivative rows, collocation rows, point constraints, path rows *)
  Definition g_rows (P : problem) (PointCon : nat -> list Q -> list Q) (n_path : nat) (X : list Q) : list Q :=
    flat_map (initial_rows P X) (seq 0 (nE P)) ++
    flat_map (fun m => init_der_rows P X m ++ collocation_rows P X m ++ PointCon m X ++
                       (if Nat.eqb n_path 0 then [] else path_rows P X m))
             (seq 0 (nE P)).
End Model.

(* ---- bounds on the decision vector ---------------------------------------------------------------- *)
Definition xdiv (x : Xq) (n : Q) : Xq :=
  match x with
  | XFin q => XFin (q / n)
  | XNaN => XNaN
  | XPInf => if Qlt_bool 0 n then XPInf else XNInf
  | XNInf => if Qlt_bool 0 n then XNInf else XPInf
  end.

(* value of a bound at the variable's own time stamps *)
Definition bound_at (b : bspec) (outside : Xq) (md : mode) (tgrid : list Q) : list Xq :=
  match b with
  | BNone => map (fun _ => outside) tgrid
  | BScalar x => map (fun _ => x) tgrid
  | BSeries ts vals =>
      match interp_array md ts vals (Some outside) (Some outside) tgrid with
      | Val l => l
      | Raise => map (fun _ => XNaN) tgrid
      end
  | BGrid vals => map (fun i => nth i vals outside) (seq 0 (length tgrid))
  end.

Definition hist_last (h : hist) : Xq := last (h_vals h) XNaN.

(* lower/upper bounds of the slice of collocated variable j of member m, pins included *)
Definition var_bounds (P : problem) (m j : nat) : list (Xq * Xq) :=
  let tj := nth j (vtimes P) [] in
  let md := nth j (vmode P) Linear in
  let n := qnth (nom P) j in
  let lo := map (fun x => xdiv x n) (bound_at (nth j (lower P) BNone) XNInf md tj) in
  let hi := map (fun x => xdiv x n) (bound_at (nth j (upper P) BNone) XPInf md tj) in
  let l := combine lo hi in
  match hist_of P m j with
  | Some h =>
      match hist_last h, l with
      | XFin v, _ :: rest => (XFin (v / n), XFin (v / n)) :: rest   (* history pins the t0 entry *)
      | _, _ => l
      end
  | None => l
  end.

Definition idr_bounds (P : problem) (m j : nat) : Xq * Xq :=
  match hist_of P m j with
  | Some h =>
      match last2 (h_times h), last2 (h_vals h) with
      | Some (ta, tb), Some (XFin va, XFin vb) =>
          let v := ((vb - va) / (t0 P - ta)) / idr_nominal P j in (XFin v, XFin v)
      | _, _ => (XNInf, XPInf)
      end
  | None => (XNInf, XPInf)
  end.

Definition scalar_bounds (lo hi : bspec) (n : Q) (tgrid : list Q) : list (Xq * Xq) :=
  combine (map (fun x => xdiv x n) (bound_at lo XNInf Linear tgrid))
          (map (fun x => xdiv x n) (bound_at hi XPInf Linear tgrid)).

(* (lbx, ubx) in decision-vector order *)
Definition member_bounds (P : problem) (m : nat) : list (Xq * Xq) :=
  flat_map (var_bounds P m) (seq 0 (nsa P)) ++
  flat_map (fun k => scalar_bounds (nth k (lower_pv P) BNone) (nth k (upper_pv P) BNone)
                                   (qnth (nom_pv P) k) (times P)) (seq 0 (npv P)) ++
  flat_map (fun k => scalar_bounds (nth k (lower_ev P) BNone) (nth k (upper_ev P) BNone)
                                   (qnth (nom_ev P) k) [t0 P]) (seq 0 (nev P)) ++
  map (idr_bounds P m) (seq 0 (ns P)).

(* controls are shared: the bounds are those of the declaration; a history pin of any member
   overwrites the t0 entry (later members win, as in the code) *)
Fixpoint pin_controls (P : problem) (j : nat) (l : list (Xq * Xq)) (ms : list nat) : list (Xq * Xq) :=
  match ms with
  | [] => l
  | m :: ms' =>
      let l' := match hist_of P m j with
                | Some h => match hist_last h, l with
                            | XFin v, _ :: rest =>
                                (XFin (v / qnth (nom P) j), XFin (v / qnth (nom P) j)) :: rest
                            | _, _ => l
                            end
                | None => l
                end in
      pin_controls P j l' ms'
  end.

Definition control_bounds (P : problem) (c : nat) : list (Xq * Xq) :=
  let j := (nsa P + c)%nat in
  let tj := nth j (vtimes P) [] in
  let md := nth j (vmode P) Linear in
  let n := qnth (nom P) j in
  let l := combine (map (fun x => xdiv x n) (bound_at (nth j (lower P) BNone) XNInf md tj))
                   (map (fun x => xdiv x n) (bound_at (nth j (upper P) BNone) XPInf md tj)) in
  pin_controls P j l (seq 0 (nE P)).

Definition x_bounds (P : problem) : list (Xq * Xq) :=
  flat_map (control_bounds P) (seq 0 (nc P)) ++ flat_map (member_bounds P) (seq 0 (nE P)).

(* ---- instantiation with expression ASTs (for execution) ------------------------------------------ *)
From RT Require Import Expr.

Definition envF (v d c p : list Q) (t : Q) : list Q := v ++ d ++ c ++ p ++ [t].
Definition envP (v d c p : list Q) (t : Q) (pv ev : list Q) : list Q := v ++ d ++ c ++ p ++ [t] ++ pv ++ ev.

Definition F_of (es : list expr) : list Q -> list Q -> list Q -> list Q -> Q -> list Q :=
  fun v d c p t => evals (envF v d c p t) es.
Definition PathObj_of (e : expr) := fun v d c p t pv ev => eval (envP v d c p t pv ev) e.
Definition PathCon_of (es : list expr) := fun v d c p t pv ev => evals (envP v d c p t pv ev) es.

Definition ser_ql (l : list Q) : list Z := Z.of_nat (length l) :: flat_map ser_q l.
Definition ser_bounds (l : list (Xq * Xq)) : list Z :=
  Z.of_nat (length l) :: flat_map (fun p => ser_xq (fst p) ++ ser_xq (snd p)) l.

(* point expressions (objective, point constraints) see every collocated variable at every
   collocation time, and the extra variables *)
Definition grid_env (P : problem) (X : list Q) (m : nat) : list Q :=
  flat_map (fun j => map (cval P X m j) (seq 0 (nt P))) (seq 0 (nv P)) ++ ev_of P X m.

Definition Obj_of (es : list expr) (P : problem) : nat -> list Q -> Q :=
  fun m X => eval (grid_env P X m) (nth m es (EC 0)).
Definition PointCon_of (ess : list (list expr)) (P : problem) : nat -> list Q -> list Q :=
  fun m X => evals (grid_env P X m) (nth m ess []).

(* ---- bounds of the constraint rows -------------------------------------------------------------- *)
Definition n_init_der_rows (P : problem) (m : nat) : nat :=
  length (flat_map (fun j =>
      match hist_of P m j with
      | Some h =>
          match last2 (h_times h), last2 (h_vals h) with
          | Some (ta, tb), Some (XFin va, XNaN) => [tt]
          | _, _ => []
          end
      | None => []
      end) (seq 0 (ns P))).

Definition zeros (k : nat) : list (Xq * Xq) := repeat (XFin 0, XFin 0) k.

(* path constraint bounds of one member: per constraint a (lower, upper) bound spec; laid out
   time-major like the rows *)
Definition path_bounds (P : problem) (bs : list (bspec * bspec)) : list (Xq * Xq) :=
  let cols := map (fun b => combine (bound_at (fst b) XNInf Linear (times P))
                                    (bound_at (snd b) XPInf Linear (times P))) bs in
  flat_map (fun i => map (fun col => nth i col (XNaN, XNaN)) cols) (seq 0 (nt P)).

Definition g_bounds (P : problem) (neq neq0 : nat)
           (point_bounds : list (list (Xq * Xq))) (path_bspecs : list (list (bspec * bspec)))
  : list (Xq * Xq) :=
  zeros (nE P * (neq + neq0)) ++
  flat_map (fun m => zeros (n_init_der_rows P m) ++ zeros ((nt P - 1) * neq) ++
                     nth m point_bounds [] ++ path_bounds P (nth m path_bspecs []))
           (seq 0 (nE P)).

(* layout observables *)
Definition layout (P : problem) : list Z :=
  Z.of_nat (xsize P) ::
  flat_map (fun m =>
     map (fun j => Z.of_nat (var_start P m j)) (seq 0 (nv P)) ++
     map (fun k => Z.of_nat (pv_start P m k)) (seq 0 (npv P)) ++
     map (fun k => Z.of_nat (ev_index P m k)) (seq 0 (nev P)) ++
     map (fun j => Z.of_nat (idr_index P m j)) (seq 0 (ns P))) (seq 0 (nE P)).
