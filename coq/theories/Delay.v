(* Executable model of the delayed-feedback rows of transcribe()
   (collocated_integrated_optimization_problem.py 1643-1860):  for  y = delay(expr, tau)
   one row per collocation time,  (y(t_i) - expr(t_i - tau)) / nominal,  where expr at earlier times
   is interpolated over history ++ horizon, or over the horizon only (t0 value extrapolated
   backwards) when the history is incomplete. *)
From Coq Require Import ZArith QArith List Bool Arith.
From RT Require Import Xq Interp Expr Transcribe.
Import ListNotations.
Open Scope Q_scope.

(* expressions on history values: NaN (None) propagates *)
Fixpoint evalo (env : list (option Q)) (e : expr) : option Q :=
  let bin f a b := match evalo env a, evalo env b with Some x, Some y => Some (f x y) | _, _ => None end in
  match e with
  | EC q => Some q
  | EV i => nth i env None
  | EAdd a b => bin Qplus a b
  | ESub a b => bin Qminus a b
  | EMul a b => bin Qmult a b
  | ENeg a => match evalo env a with Some x => Some (- x) | None => None end
  end.

Record delay := {
  d_expr : expr;           (* over the DAE environment: variables, derivatives, constant inputs, parameters, time *)
  d_in : nat;              (* index of the collocated variable that receives the delayed value *)
  d_tau : list Q           (* delay duration at every collocation time (already evaluated) *)
}.

(* sorted, duplicate-free union of the history time stamps of member m, without the last one *)
Fixpoint insert_q (x : Q) (l : list Q) : list Q :=
  match l with
  | [] => [x]
  | y :: t => if Qlt_bool x y then x :: l else if Qeq_bool x y then l else y :: insert_q x t
  end.

Definition hist_times (P : problem) (m : nat) : list Q :=
  removelast (fold_right insert_q []
    (flat_map (fun j => match hist_of P m j with Some h => h_times h | None => [] end) (seq 0 (nv P)))).

Definition hq (h : hist) : list Q := map (fun x => match x with XFin q => q | _ => 0 end) (h_vals h).

(* history value of collocated variable j at a history time stamp; NaN outside / without history *)
Definition hist_value (P : problem) (m j : nat) (t : Q) : option Q :=
  match hist_of P m j with
  | None => None
  | Some h =>
      match interp_scalar (nth j (vmode P) Linear) (h_times h) (hq h) (Some XNaN) (Some XNaN) t with
      | Val (XFin v) => Some v
      | _ => None
      end
  end.

Definition odiv (a b : option Q) (dt : Q) : option Q :=
  match a, b with Some x, Some y => Some ((x - y) / dt) | _, _ => None end.

(* expr on the history: one value per history time stamp (None = NaN) *)
Definition delay_history (P : problem) (m : nat) (e : expr) : list (option Q) :=
  let ht := hist_times P m in
  let vals := fun k => map (fun j => hist_value P m j (qnth ht k)) (seq 0 (nv P)) in
  map (fun k =>
         let ders := match k with
                     | O => map (fun _ => None) (seq 0 (nv P))
                     | S k' => map (fun j => odiv (hist_value P m j (qnth ht k)) (hist_value P m j (qnth ht k'))
                                                  (qnth ht k - qnth ht k')) (seq 0 (nv P))
                     end in
         evalo (vals k ++ ders ++ map (fun _ => None) (nth m (cin P) []) ++
                map Some (par_of P m) ++ [Some (qnth ht k)]) e)
      (seq 0 (length ht)).

(* expr on the horizon, time stamp i *)
Definition delay_at (P : problem) (X : list Q) (m : nat) (e : expr) (i : nat) : Q :=
  match i with
  | O => eval (envF (vars_at P X m 0) (init_ders P X m) (cin_at P m 0) (par_of P m) 0) e
  | S i' => eval (envF (vars_at P X m i) (fd_at P X m i') (cin_at P m i) (par_of P m)
                       (qnth (times P) i - t0 P)) e
  end.

Definition qmin_list (l : list Q) : Q :=
  match l with [] => 0 | x :: t => fold_left (fun a b => if Qlt_bool b a then b else a) t x end.

Definition count_lt_q (l : list Q) (x : Q) : nat := length (filter (fun y => Qlt_bool y x) l).

(* is the supplied history long enough and free of NaN from where it is needed? *)
Definition history_complete (P : problem) (m : nat) (d : delay) : bool :=
  let ht := hist_times P m in
  let out_times := ht ++ times P in
  let earliest := qmin_list (map (fun i => qnth (times P) i - qnth (d_tau d) i) (seq 0 (nt P))) in
  let ind0 := count_lt_q out_times earliest in                       (* searchsorted, side=left *)
  let exact := Qeq_bool (qnth out_times ind0) earliest in
  let hist := delay_history P m (d_expr d) in
  if exact then forallb (fun k => match nth k hist None with Some _ => true | None => false end)
                        (seq ind0 (length ht - ind0))
  else match ind0 with
       | O => false                                                   (* needs a value before the first one *)
       | S i' => forallb (fun k => match nth k hist None with Some _ => true | None => false end)
                         (seq i' (length ht - i'))
       end.

(* nominal of the row: the expression evaluated at the nominals (derivatives 0, t0 inputs); rows
   whose nominal vanishes are left unscaled *)
Definition delay_nominal (P : problem) (m : nat) (e : expr) : Q :=
  let v := eval (envF (map (qnth (nom P)) (seq 0 (nv P))) (map (fun _ => 0) (seq 0 (nv P))) (cin_at P m 0) (par_of P m) 0) e in
  if Qeq_bool v 0 then 1 else v.

Definition delay_rows (P : problem) (X : list Q) (m : nat) (d : delay) : list Q :=
  let ht := hist_times P m in
  let horizon := map (delay_at P X m (d_expr d)) (seq 0 (nt P)) in
  let complete := history_complete P m d in
  let out_times := if complete then ht ++ times P else times P in
  let out_values := if complete
                    then map (fun o => match o with Some v => v | None => 0 end) (delay_history P m (d_expr d)) ++ horizon
                    else horizon in
  let md := nth (d_in d) (vmode P) Linear in
  let nomd := delay_nominal P m (d_expr d) in
  map (fun i => (cval P X m (d_in d) i -
                 interp1d md out_times out_values (qnth (times P) i - qnth (d_tau d) i)) / nomd)
      (seq 0 (nt P)).
