(* Executable model of HomotopyMixin.optimize (src/rtctools/optimization/homotopy_mixin.py,
   the `while True:` loop) over exact rationals.  The inner solve is an oracle: solve number n
   succeeds iff  oracle n = true. *)
From Coq Require Import ZArith QArith List Bool.
Import ListNotations.
Open Scope Q_scope.

Record opts := { theta_start : Q; delta0 : Q; delta_min : Q }.

(* one event per inner optimize(): the homotopy parameter it ran at, whether it succeeded, and
   the theta whose results seed it (None: the plain seed; the code seeds from the stored results
   exactly when theta > theta_start) *)
Record event := { ev_theta : Q; ev_ok : bool; ev_seed : option Q }.

Definition Qge_bool (a b : Q) : bool := Qle_bool b a.
Definition Qlt_bool (a b : Q) : bool := negb (Qle_bool b a).

(* the guarded increment at the end of the loop body *)
Definition step (th dl : Q) : Q * Q :=
  if Qge_bool (th + dl) 1 then (1, 1 - th) else (th + dl, dl).

(* returns (Some ret, trace) when optimize() returns ret; (None, trace) when fuel ran out *)
Fixpoint loop (fuel : nat) (o : opts) (oracle : nat -> bool)
         (n : nat) (th dl acc : Q) : option bool * list event :=
  match fuel with
  | O => (None, [])
  | S fuel' =>
      let ok := oracle n in
      let seed := if Qlt_bool (theta_start o) th then Some acc else None in
      let e := {| ev_theta := th; ev_ok := ok; ev_seed := seed |} in
      if ok then
        if Qge_bool th 1 then (Some true, [e])
        else let (th', dl') := step th dl in
             let (r, t) := loop fuel' o oracle (S n) th' dl' th in (r, e :: t)
      else
        if Qeq_bool th (theta_start o) then (Some false, [e])
        else
          let dl2 := dl * (1 # 2) in
          if Qlt_bool dl2 (delta_min o) then (Some false, [e])
          else let (th', dl') := step acc dl2 in
               let (r, t) := loop fuel' o oracle (S n) th' dl' acc in (r, e :: t)
  end.

Definition run (fuel : nat) (o : opts) (oracle : nat -> bool) : option bool * list event :=
  loop fuel o oracle 0 (theta_start o) (delta0 o) (theta_start o).

(* ---- serialisation --------------------------------------------------------------------------- *)
Definition ser_q (q : Q) : list Z := let r := Qred q in [Qnum r; Zpos (Qden r)].
Definition ser_event (e : event) : list Z :=
  ser_q (ev_theta e) ++ [if ev_ok e then 1 else 0]%Z ++
  match ev_seed e with None => [0%Z] | Some q => 1%Z :: ser_q q end.

Definition ser_result (r : option bool * list event) : list Z :=
  (match fst r with Some true => 1 | Some false => 0 | None => 2 end)%Z
  :: Z.of_nat (length (snd r)) :: flat_map ser_event (snd r).

Definition oracle_of (l : list bool) (n : nat) : bool := nth n l true.

Definition mkopts (ts d0 dm : Q) : opts := {| theta_start := ts; delta0 := d0; delta_min := dm |}.

Definition run_case (ts d0 dm : Q) (l : list bool) : list Z :=
  ser_result (run 400 (mkopts ts d0 dm) (oracle_of l)).
