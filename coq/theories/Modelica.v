(* Executable model of how ModelicaMixin (optimization/modelica_mixin.py 82-101, 233-467) and
   SimulationProblem.initialize (simulation_problem.py 414-520) turn the declarations of a Modelica
   model into roles, bounds, initial conditions, seeds, nominals and discreteness. *)
From Coq Require Import ZArith QArith Qabs List Bool.
From RT Require Import Xq Expr.
Import ListNotations.
Open Scope Q_scope.

Inductive vkind := KState | KAlg | KInput.
Inductive vtype := TReal | TInteger | TBoolean.

Record mvar := {
  mv_kind : vkind;
  mv_type : vtype;
  mv_min : option expr;      (* attribute expressions over the parameter vector; None = not given *)
  mv_max : option expr;
  mv_start : option expr;
  mv_fixed : bool;
  mv_nominal : option expr;
  mv_output : bool
}.

Inductive role := RState | RAlgebraic | RControl | RConstantInput.

(* optimisation: inputs declared fixed are constant inputs, all other inputs are controls *)
Definition role_of (v : mvar) : role :=
  match mv_kind v with
  | KState => RState
  | KAlg => RAlgebraic
  | KInput => if mv_fixed v then RConstantInput else RControl
  end.

(* what gets exported: declared outputs plus the controls *)
Definition exported (v : mvar) : bool :=
  mv_output v || match role_of v with RControl => true | _ => false end.

Definition attr (par : list Q) (e : option expr) (dflt : Xq) : Xq :=
  match e with Some x => XFin (eval par x) | None => dflt end.

(* bounds(): the declared (min, max), with parameter values substituted, intersected with the
   bounds from other sources; Booleans default to (0, 1) *)
Definition bounds_of (par : list Q) (v : mvar) (other : option (Xq * Xq)) : Xq * Xq :=
  let dflt := match other with
              | Some b => b
              | None => match mv_type v with TBoolean => (XFin 0, XFin 1) | _ => (XNInf, XPInf) end
              end in
  (pymax (fst dflt) (attr par (mv_min v) XNInf), pymin (snd dflt) (attr par (mv_max v) XPInf)).

(* the bound series read from the input files (IOMixin.bounds, which runs after ModelicaMixin's in the
   usual class order) are intersected with the result *)
Definition final_bounds (par : list Q) (v : mvar) (other file : option (Xq * Xq)) : Xq * Xq :=
  let b := bounds_of par v other in
  match file with
  | None => b
  | Some f => (pymax (fst b) (fst f), pymin (snd b) (snd f))
  end.

(* history(): a differentiated state with a fixed start value gets that value as initial condition *)
Definition history_of (par : list Q) (v : mvar) : option Q :=
  match mv_kind v with
  | KState => if mv_fixed v then Some (match mv_start v with Some e => eval par e | None => 0 end) else None
  | _ => None
  end.

(* seed(): a non-fixed state / algebraic variable with a non-zero start value is seeded with it *)
Definition seed_of (par : list Q) (v : mvar) : option Q :=
  match mv_kind v with
  | KInput => None
  | _ => if mv_fixed v then None
         else match mv_start v with
              | Some e => if Qeq_bool (eval par e) 0 then None else Some (eval par e)
              | None => None
              end
  end.

(* variable_nominal(): |nominal|, the default 1 for 0 and 1 *)
Definition nominal_of (par : list Q) (v : mvar) : Q :=
  match mv_nominal v with
  | None => 1
  | Some e => let n := Qabs (eval par e) in if Qeq_bool n 0 || Qeq_bool n 1 then 1 else n
  end.

Definition discrete_of (v : mvar) : bool := match mv_type v with TReal => false | _ => true end.

(* the input files come later in the chain: a history / seed series read from file replaces the
   one derived from the start attribute (IOMixin.history / IOMixin.seed run after ModelicaMixin's) *)
Definition chain (file model : option Q) : option Q :=
  match file with Some f => Some f | None => model end.
Definition history_final (par : list Q) (v : mvar) (file : option Q) : option Q := chain file (history_of par v).
Definition seed_final (par : list Q) (v : mvar) (file : option Q) : option Q :=
  match mv_kind v with KInput => (match role_of v with RControl => file | _ => None end) | _ => chain file (seed_of par v) end.

(* parameter values: model <- parameter file <- code *)
Definition param_value (model : Q) (file code : option Q) : Q :=
  match code with Some c => c | None => match file with Some f => f | None => model end end.

(* ---- simulation: which start value initialize() uses, and whether it is imposed ---------------- *)
Inductive source := SrcSeed | SrcModelica | SrcInitialState | SrcDefault.

(* start: numeric start attribute; initial_state / seed: entries of initial_state() / seed() *)
Definition sim_start (start : Q) (fixed : bool) (initial_state seed : option Q) : source * Q * bool :=
  let has_modelica := negb (Qeq_bool start 0) in
  let fixed' := fixed || (negb fixed && match initial_state with Some _ => true | None => false end) in
  let use_initial := negb fixed in
  let use_seed := negb fixed' in
  match (if use_seed then seed else None), has_modelica, (if use_initial then initial_state else None) with
  | Some s, _, _ => (SrcSeed, s, fixed')
  | None, true, _ => (SrcModelica, start, fixed')
  | None, false, Some i => (SrcInitialState, i, fixed')
  | None, false, None => (SrcDefault, start, fixed')
  end.

(* serialisation *)
Definition ser_role (r : role) : Z := match r with RState => 0 | RAlgebraic => 1 | RControl => 2 | RConstantInput => 3 end%Z.
Definition ser_src (s : source) : Z := match s with SrcSeed => 0 | SrcModelica => 1 | SrcInitialState => 2 | SrcDefault => 3 end%Z.
Definition ser_oq (o : option Q) : list Z := match o with None => [0%Z] | Some q => 1%Z :: ser_q q end.
Definition ser_mvar (par : list Q) (v : mvar) (other : option (Xq * Xq)) (files : list (option (Xq * Xq))) (fhist : option Q) (fseeds : list (option Q)) : list Z :=
  [ser_role (role_of v); if exported v then 1 else 0; if discrete_of v then 1 else 0]%Z ++
  flat_map (fun f => ser_xq (fst (final_bounds par v other f)) ++ ser_xq (snd (final_bounds par v other f))) files ++
  ser_oq (history_final par v fhist) ++ flat_map (fun f => ser_oq (seed_final par v f)) fseeds ++ ser_q (nominal_of par v).
Definition ser_sim (r : source * Q * bool) : list Z :=
  ser_src (fst (fst r)) :: ser_q (snd (fst r)) ++ [if snd r then 1 else 0]%Z.
