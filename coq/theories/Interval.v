(* Executable model of _GoalConstraint.update_bounds
   (src/rtctools/optimization/goal_programming_mixin_base.py 449-493), per element. *)
From Coq Require Import ZArith QArith List Bool.
From RT Require Import Xq.
Import ListNotations.
Open Scope Q_scope.

Record itv := { lo : Xq; hi : Xq }.

(* self.update_bounds(other, enforce=...) : enforce_self = true for enforce="self" *)
Definition update_bounds (enforce_self : bool) (s o : itv) : itv :=
  let mn := npmax (lo s) (lo o) in
  let mx := npmin (hi s) (hi o) in
  let mn2 := if enforce_self then npmin mn (hi s) else npmin mn (hi o) in
  let mx2 := if enforce_self then npmax mx (lo s) else npmax mx (lo o) in
  {| lo := npmin mn2 mx2; hi := mx2 |}.

(* element-wise on arrays / Timeseries values *)
Fixpoint update_bounds_l (enforce_self : bool) (s o : list itv) : list itv :=
  match s, o with
  | a :: s', b :: o' => update_bounds enforce_self a b :: update_bounds_l enforce_self s' o'
  | _, _ => []
  end.

(* the constraint store: insertion-ordered dictionary function key -> bounds (one per step) *)
Definition store := list (Z * list itv).

Fixpoint store_get (st : store) (fk : Z) : option (list itv) :=
  match st with
  | [] => None
  | (k, v) :: t => if (k =? fk)%Z then Some v else store_get t fk
  end.

Fixpoint store_set (st : store) (fk : Z) (v : list itv) : store :=
  match st with
  | [] => [(fk, v)]
  | (k, w) :: t => if (k =? fk)%Z then (k, v) :: t else (k, w) :: store_set t fk v
  end.

(* _gp_update_constraint_store: a critical goal's hard constraint is merged into the store,
   the stored bounds being enforced *)
Definition store_add_critical (st : store) (fk : Z) (c : list itv) : store :=
  match store_get st fk with
  | Some old => store_set st fk (update_bounds_l true old c)
  | None => store_set st fk c
  end.

(* __soft_to_hard_constraints: the new hard constraint replaces the entry after being merged
   with the existing one, the existing bounds being enforced *)
Definition store_add_hard (st : store) (fk : Z) (c : list itv) : store :=
  match store_get st fk with
  | Some old => store_set st fk (update_bounds_l false c old)
  | None => store_set st fk c
  end.

Inductive store_op := OpCritical (fk : Z) (c : list itv) | OpHard (fk : Z) (c : list itv).

Definition store_step (st : store) (o : store_op) : store :=
  match o with
  | OpCritical fk c => store_add_critical st fk c
  | OpHard fk c => store_add_hard st fk c
  end.

Definition ser_itv (i : itv) : list Z := ser_xq (lo i) ++ ser_xq (hi i).
Definition ser_itvs (l : list itv) : list Z := Z.of_nat (length l) :: flat_map ser_itv l.
Definition ser_store (st : store) : list Z :=
  Z.of_nat (length st) :: flat_map (fun kv => fst kv :: ser_itvs (snd kv)) st.
