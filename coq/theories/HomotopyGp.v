(* Executable model of HomotopyMixin.optimize wrapped around GoalProgrammingMixin.optimize
   (homotopy_mixin.py `while True:` loop; goal_programming_mixin.py priority loop and seed()):
   every homotopy step runs the priorities in order and stops at the first failing one; the step
   succeeds iff every priority did.  Solves are numbered globally from 0; the solution of solve k
   carries the tag  S k.  What a solve starts from (its seed):
     - the first priority of a step: the homotopy seed, i.e. the final solution of the last
       accepted step when theta > theta_start, and the plain seed (None) otherwise
       (GoalProgrammingMixin.seed defers to super().seed() on the first priority of every run);
     - a later priority: the solution of the priority before it. *)
From Coq Require Import ZArith QArith List Bool Arith.
From RT Require Import Homotopy.
Import ListNotations.
Open Scope Q_scope.

Record gev := { g_idx : nat; g_prio : nat; g_ok : bool; g_seed : option nat }.
Record gstep := { s_theta : Q; s_ok : bool; s_seed_theta : option Q; s_events : list gev }.

(* priorities j, j+1, ... (r of them left), the next solve has number k *)
Fixpoint inner (r : nat) (oracle : nat -> bool) (j k : nat) (seed : option nat) : bool * list gev :=
  match r with
  | O => (true, [])
  | S r' =>
      let ok := oracle k in
      let e := {| g_idx := k; g_prio := j; g_ok := ok; g_seed := seed |} in
      if ok then let (b, t) := inner r' oracle (S j) (S k) (Some (S k)) in (b, e :: t)
      else (false, [e])
  end.

Fixpoint gloop (fuel : nat) (o : opts) (np : nat) (oracle : nat -> bool)
         (k : nat) (th dl acc : Q) (acc_tag : option nat) : option bool * list gstep :=
  match fuel with
  | O => (None, [])
  | S fuel' =>
      let hot := Qlt_bool (theta_start o) th in
      let (ok, evs) := inner np oracle 0 k (if hot then acc_tag else None) in
      let k' := (k + length evs)%nat in
      let s := {| s_theta := th; s_ok := ok; s_seed_theta := if hot then Some acc else None; s_events := evs |} in
      if ok then
        if Qge_bool th 1 then (Some true, [s])
        else let (th', dl') := step th dl in
             let (r, t) := gloop fuel' o np oracle k' th' dl' th (Some k') in (r, s :: t)
      else
        if Qeq_bool th (theta_start o) then (Some false, [s])
        else
          let dl2 := dl * (1 # 2) in
          if Qlt_bool dl2 (delta_min o) then (Some false, [s])
          else let (th', dl') := step acc dl2 in
               let (r, t) := gloop fuel' o np oracle k' th' dl' acc acc_tag in (r, s :: t)
  end.

Definition grun (fuel : nat) (o : opts) (np : nat) (oracle : nat -> bool) : option bool * list gstep :=
  gloop fuel o np oracle 0 (theta_start o) (delta0 o) (theta_start o) None.

(* the homotopy-level view of a step *)
Definition s_event (s : gstep) : event :=
  {| ev_theta := s_theta s; ev_ok := s_ok s; ev_seed := s_seed_theta s |}.

(* ---- what C18 says about the seeds, as a checker on the observable trace ---------------------- *)
(* events of one step: priorities 0, 1, ... with consecutive solve numbers from k; the first starts
   from `first`, each later one from the solution of the solve before it; only the last may fail *)
Fixpoint chk_events (j k : nat) (seed : option nat) (evs : list gev) : bool :=
  match evs with
  | [] => true
  | e :: rest =>
      Nat.eqb (g_idx e) k && Nat.eqb (g_prio e) j &&
      match g_seed e, seed with
      | None, None => true
      | Some a, Some b => Nat.eqb a b
      | _, _ => false
      end &&
      (match rest with [] => true | _ => g_ok e end) &&
      chk_events (S j) (S k) (Some (S k)) rest
  end.

Definition all_ok (evs : list gev) : bool := forallb g_ok evs.

(* acc_tag: tag of the final solution of the last accepted step (None before there is one) *)
Fixpoint chk_steps (o : opts) (np : nat) (k : nat) (acc_tag : option nat) (steps : list gstep) : bool :=
  match steps with
  | [] => true
  | s :: rest =>
      let evs := s_events s in
      let hot := Qlt_bool (theta_start o) (s_theta s) in
      (* beyond theta_start there is an accepted solution, and the first priority starts from it *)
      (if hot then match acc_tag with Some _ => true | None => false end else true) &&
      chk_events 0 k (if hot then acc_tag else None) evs &&
      Bool.eqb (s_ok s) (all_ok evs && Nat.eqb (length evs) np) &&
      (if s_ok s then true else negb (all_ok evs)) &&
      (length evs <=? np)%nat &&
      let k' := (k + length evs)%nat in
      chk_steps o np k' (if s_ok s then Some k' else acc_tag) rest
  end.

Definition seeds_ok (o : opts) (np : nat) (steps : list gstep) : bool := chk_steps o np 0 None steps.

(* ---- serialisation ------------------------------------------------------------------------------ *)
Definition ser_gev (th : Q) (e : gev) : list Z :=
  ser_q th ++ [Z.of_nat (g_prio e); if g_ok e then 1 else 0;
               match g_seed e with None => 0 | Some t => Z.of_nat t end]%Z.

Definition ser_gresult (r : option bool * list gstep) : list Z :=
  (match fst r with Some true => 1 | Some false => 0 | None => 2 end)%Z
  :: Z.of_nat (length (flat_map s_events (snd r)))
  :: flat_map (fun s => flat_map (ser_gev (s_theta s)) (s_events s)) (snd r).

Definition grun_case (ts d0 dm : Q) (np : nat) (l : list bool) : list Z :=
  ser_gresult (grun 400 (mkopts ts d0 dm) np (oracle_of l)).
