(* A verified optimality-certificate checker for the convex problems goal programming produces on
   linear models:   minimise  sum_k w_k * (a_k.x + b_k)^(1 or 2)  + const
                    subject to lbg <= A x + b <= ubg,  lbx <= x <= ubx.
   Given a candidate x and multipliers (lam for the rows, mu for the box; sign convention of
   CasADi/IPOPT: positive = upper side active) check_cert computes an exact bound `gap` with
   objective(x) - gap <= objective(y) for every feasible y  (KktCert_proofs.check_cert_sound). *)
From Coq Require Import ZArith QArith Qabs List Bool.
From RT Require Import Xq.
Import ListNotations.
Open Scope Q_scope.

Record term := { t_w : Q; t_a : list Q; t_b : Q; t_sq : bool }.

Record cqp := {
  q_n : nat;                          (* number of variables *)
  q_terms : list term;
  q_const : Q;
  q_rows : list (list Q * Q);         (* row i: a_i . x + b_i *)
  q_lbg : list Xq; q_ubg : list Xq;
  q_lbx : list Xq; q_ubx : list Xq
}.

Definition qnth (l : list Q) (i : nat) : Q := nth i l 0.
Definition qsum (l : list Q) : Q := fold_right Qplus 0 l.
Definition dotn (n : nat) (a x : list Q) : Q := qsum (map (fun j => qnth a j * qnth x j) (seq 0 n)).

Definition lin (n : nat) (t : term) (x : list Q) : Q := dotn n (t_a t) x + t_b t.
Definition term_val (n : nat) (t : term) (x : list Q) : Q :=
  if t_sq t then t_w t * (lin n t x * lin n t x) else t_w t * lin n t x.
Definition obj (P : cqp) (x : list Q) : Q := qsum (map (fun t => term_val (q_n P) t x) (q_terms P)) + q_const P.

(* d term / d lin *)
Definition term_coef (n : nat) (t : term) (x : list Q) : Q :=
  if t_sq t then t_w t * (2 * lin n t x) else t_w t.

Definition grad (P : cqp) (x : list Q) (j : nat) : Q :=
  qsum (map (fun t => term_coef (q_n P) t x * qnth (t_a t) j) (q_terms P)).

Definition row_val (n : nat) (r : list Q * Q) (x : list Q) : Q := dotn n (fst r) x + snd r.

Definition atl (P : cqp) (lam : list Q) (j : nat) : Q :=
  qsum (map (fun rl => snd rl * qnth (fst (fst rl)) j) (combine (q_rows P) lam)).

Definition resid (P : cqp) (x lam mu : list Q) (j : nat) : Q := grad P x j + atl P lam j + qnth mu j.

(* contribution of one multiplier l on a quantity with value v and bounds [lo, hi] *)
Definition side_gap (l v : Q) (lo hi : Xq) : option Q :=
  if Qeq_bool l 0 then Some 0
  else if Qlt_bool 0 l then match hi with XFin u => Some (l * (u - v)) | _ => None end
  else match lo with XFin d => Some (- l * (v - d)) | _ => None end.

Definition viol (lo hi : Xq) (v : Q) : Q :=
  let a := match lo with XFin d => if Qlt_bool v d then d - v else 0 | _ => 0 end in
  let b := match hi with XFin u => if Qlt_bool u v then v - u else 0 | _ => 0 end in
  if Qlt_bool a b then b else a.

(* the stationarity residual r_j can move the objective by at most |r_j| * |y_j - x_j|, and
   |y_j - x_j| <= width of the box + distance of x_j to the box *)
Definition resid_gap (r xv : Q) (lo hi : Xq) : option Q :=
  if Qeq_bool r 0 then Some 0
  else match lo, hi with XFin d, XFin u => Some (Qabs r * ((u - d) + viol lo hi xv)) | _, _ => None end.

Fixpoint sum_opt (l : list (option Q)) : option Q :=
  match l with
  | [] => Some 0
  | None :: _ => None
  | Some a :: t => match sum_opt t with Some s => Some (a + s) | None => None end
  end.

Definition xnth (l : list Xq) (i : nat) : Xq := nth i l XNaN.

Definition check_cert (P : cqp) (x lam mu : list Q) : option Q :=
  let n := q_n P in
  if negb (forallb (fun t => negb (t_sq t) || Qle_bool 0 (t_w t)) (q_terms P)) then None
  else if negb (Nat.eqb (length lam) (length (q_rows P))) then None
  else
    match sum_opt (map (fun i => side_gap (qnth lam i) (row_val n (nth i (q_rows P) ([], 0)) x)
                                          (xnth (q_lbg P) i) (xnth (q_ubg P) i))
                       (seq 0 (length (q_rows P)))),
          sum_opt (map (fun j => side_gap (qnth mu j) (qnth x j) (xnth (q_lbx P) j) (xnth (q_ubx P) j))
                       (seq 0 n)),
          sum_opt (map (fun j => resid_gap (resid P x lam mu j) (qnth x j) (xnth (q_lbx P) j) (xnth (q_ubx P) j))
                       (seq 0 n))
    with
    | Some g1, Some g2, Some g3 => Some (g1 + g2 + g3)
    | _, _, _ => None
    end.

(* feasibility of a point, and its worst violation (for reporting) *)
Definition feasible (P : cqp) (y : list Q) : Prop :=
  (forall i, (i < length (q_rows P))%nat ->
     xle (xnth (q_lbg P) i) (XFin (row_val (q_n P) (nth i (q_rows P) ([], 0)) y)) = true /\
     xle (XFin (row_val (q_n P) (nth i (q_rows P) ([], 0)) y)) (xnth (q_ubg P) i) = true) /\
  (forall j, (j < q_n P)%nat ->
     xle (xnth (q_lbx P) j) (XFin (qnth y j)) = true /\ xle (XFin (qnth y j)) (xnth (q_ubx P) j) = true).

Definition max_violation (P : cqp) (x : list Q) : Q :=
  fold_right (fun v acc => if Qlt_bool acc v then v else acc) 0
    (map (fun i => viol (xnth (q_lbg P) i) (xnth (q_ubg P) i) (row_val (q_n P) (nth i (q_rows P) ([], 0)) x))
         (seq 0 (length (q_rows P))) ++
     map (fun j => viol (xnth (q_lbx P) j) (xnth (q_ubx P) j) (qnth x j)) (seq 0 (q_n P))).
