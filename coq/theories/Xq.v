(* Extended rationals: the IEEE specials rtc-tools relies on (missing bounds = +-inf, missing data
   = NaN) around exact rational finite values. *)
From Coq Require Import ZArith QArith List Bool.
Import ListNotations.
Open Scope Q_scope.

Inductive Xq := XNaN | XNInf | XFin (q : Q) | XPInf.

Definition Qlt_bool (a b : Q) : bool := negb (Qle_bool b a).

(* IEEE comparisons: anything involving NaN is false *)
Definition xle (a b : Xq) : bool :=
  match a, b with
  | XNaN, _ | _, XNaN => false
  | XNInf, _ => true
  | _, XPInf => true
  | XFin x, XFin y => Qle_bool x y
  | _, _ => false
  end.

Definition xlt (a b : Xq) : bool :=
  match a, b with
  | XNaN, _ | _, XNaN => false
  | XNInf, XNInf => false
  | XNInf, _ => true
  | XPInf, _ => false
  | XFin x, XFin y => Qlt_bool x y
  | XFin _, XPInf => true
  | XFin _, XNInf => false
  end.

Definition xeqb (a b : Xq) : bool :=
  match a, b with
  | XNInf, XNInf | XPInf, XPInf => true
  | XFin x, XFin y => Qeq_bool x y
  | _, _ => false          (* NaN == NaN is false *)
  end.

Definition is_nan (a : Xq) : bool := match a with XNaN => true | _ => false end.
Definition is_finite (a : Xq) : bool := match a with XFin _ => true | _ => false end.

(* Python's builtin max(a, b) / min(a, b) on floats: `b if b > a else a` / `b if b < a else a` *)
Definition pymax (a b : Xq) : Xq := if xlt a b then b else a.
Definition pymin (a b : Xq) : Xq := if xlt b a then b else a.

(* numpy.maximum / numpy.minimum: NaN propagates *)
Definition npmax (a b : Xq) : Xq :=
  if is_nan a then XNaN else if is_nan b then XNaN else if xlt a b then b else a.
Definition npmin (a b : Xq) : Xq :=
  if is_nan a then XNaN else if is_nan b then XNaN else if xlt b a then b else a.

Definition xneg (a : Xq) : Xq :=
  match a with XNaN => XNaN | XNInf => XPInf | XPInf => XNInf | XFin q => XFin (- q) end.

(* equality up to Qeq, NaN equal to itself (for comparing observables, not IEEE ==) *)
Definition xsame (a b : Xq) : Prop :=
  match a, b with
  | XNaN, XNaN | XNInf, XNInf | XPInf, XPInf => True
  | XFin x, XFin y => x == y
  | _, _ => False
  end.

(* serialisation: tag, numerator, denominator *)
Definition ser_q (q : Q) : list Z := let r := Qred q in [Qnum r; Zpos (Qden r)].
Definition ser_xq (a : Xq) : list Z :=
  match a with
  | XNaN => [0%Z] | XNInf => [1%Z] | XPInf => [2%Z]
  | XFin q => 3%Z :: ser_q q
  end.
