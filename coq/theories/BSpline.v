(* Executable model of rtctools/data/interpolation/bspline.py (Cox-de Boor basis), bspline1d.py /
   bspline2d.py (__call__ with their support guards) and of the decision logic of
   optimization/csv_lookup_table_mixin.py (domain / range check of reverse_call, NaN pass-through,
   fit cache validity) over exact rationals. *)
From Coq Require Import ZArith QArith List Bool Arith.
Import ListNotations.
Open Scope Q_scope.

Definition Qlt_bool (a b : Q) : bool := negb (Qle_bool b a).

(* knot i of a knot vector; beyond the end the last knot repeats (never used by the code, keeps the
   vector non-decreasing for every index) *)
Definition knot (ts : list Q) (i : nat) : Q := nth i ts (last ts 0).

(* BSpline.basis(t, x, k, i) *)
Fixpoint basis (ts : list Q) (x : Q) (k i : nat) : Q :=
  match k with
  | O => if Qle_bool (knot ts i) x && Qlt_bool x (knot ts (S i)) then 1 else 0
  | S k' =>
      (if Qlt_bool (knot ts i) (knot ts (i + k))
       then (x - knot ts i) / (knot ts (i + k) - knot ts i) * basis ts x k' i else 0) +
      (if Qlt_bool (knot ts (S i)) (knot ts (i + k + 1))
       then (knot ts (i + k + 1) - x) / (knot ts (i + k + 1) - knot ts (S i)) * basis ts x k' (S i) else 0)
  end.

Definition nbasis (ts : list Q) (k : nat) : nat := length ts - k - 1.

(* the reference spline  sum_i w_i B_{i,k}(x) *)
Definition spline_ref (ts ws : list Q) (k : nat) (x : Q) : Q :=
  fold_right Qplus 0 (map (fun i => nth i ws 0 * basis ts x k i) (seq 0 (nbasis ts k))).

(* BSpline1D.__call__: every term guarded by  t[i] <= x <= t[i+k+1] *)
Definition guard (ts : list Q) (k i : nat) (x : Q) : bool :=
  Qle_bool (knot ts i) x && Qle_bool x (knot ts (i + k + 1)).

Definition spline1d (ts ws : list Q) (k : nat) (x : Q) : Q :=
  fold_right Qplus 0
    (map (fun i => if guard ts k i x then nth i ws 0 * basis ts x k i else 0) (seq 0 (nbasis ts k))).

(* BSpline2D.__call__ *)
Definition gbasis (ts : list Q) (k i : nat) (x : Q) : Q := if guard ts k i x then basis ts x k i else 0.

Definition spline2d (tx ty ws : list Q) (kx ky : nat) (x y : Q) : Q :=
  fold_right Qplus 0
    (flat_map (fun i => map (fun j => nth (i * nbasis ty ky + j) ws 0 * gbasis tx kx i x * gbasis ty ky j y)
                            (seq 0 (nbasis ty ky)))
              (seq 0 (nbasis tx kx))).

Definition spline2d_ref (tx ty ws : list Q) (kx ky : nat) (x y : Q) : Q :=
  fold_right Qplus 0
    (flat_map (fun i => map (fun j => nth (i * nbasis ty ky + j) ws 0 * basis tx x kx i * basis ty y ky j)
                            (seq 0 (nbasis ty ky)))
              (seq 0 (nbasis tx kx))).

(* ---- lookup table decisions ------------------------------------------------------------------------- *)
(* the range of a (monotone) table from its values at the two ends of the domain *)
Definition table_range (flo fhi : Q) : Q * Q := (if Qle_bool flo fhi then flo else fhi, if Qle_bool flo fhi then fhi else flo).

Inductive rev := RevNaN | RevReject | RevSolve.

(* reverse_call on one value: NaN passes through, values outside the range are rejected *)
Definition reverse_decision (rng : Q * Q) (y : option Q) : rev :=
  match y with
  | None => RevNaN
  | Some v => if Qlt_bool v (fst rng) || Qlt_bool (snd rng) v then RevReject else RevSolve
  end.

(* a cached fit is used only while it is newer than the table and the options it was made from *)
Definition cache_valid (csv_mtime : Z) (ini_mtime cache_mtime : option Z) : bool :=
  match cache_mtime with
  | None => false
  | Some c => (csv_mtime <? c)%Z && match ini_mtime with None => true | Some i => (i <? c)%Z end
  end.

Definition ser_q (q : Q) : list Z := let r := Qred q in [Qnum r; Zpos (Qden r)].
