(* Executable model of the PI time series file semantics of rtctools/data/pi.py:
   Timeseries.__init__ (346-676: global range, time axis, forecast index, ensemble structure, missing
   values, padding), write() of a new file (718-916), resize() (1097-1172); of the six-decimal text
   format of rtctools/data/csv.py; and of ParameterConfig get/set (123-339).
   Times are integer seconds; a value is  None (missing / NaN)  or  Some q. *)
From Coq Require Import ZArith QArith List Bool Arith Lia.
Import ListNotations.
Open Scope Z_scope.

Definition val := option Q.

Record series := {
  s_var : nat;
  s_member : option nat;        (* ensembleMemberIndex *)
  s_start : Z;
  s_end : Z;
  s_forecast : option Z;        (* forecastDate *)
  s_times : list Z;             (* time stamps of the events *)
  s_events : list val;          (* event values, missVal already mapped to missing *)
  s_unit : nat
}.

Record pifile := { f_dt : option Z; f_series : list series }.

Record entry := { e_m : nat; e_v : nat; e_vals : list val; e_unit : nat }.

Record store := {
  st_dt : option Z;
  st_times : list Z;
  st_fc : Z;                    (* forecast time *)
  st_fci : Z;                   (* its index on the axis, -1 when absent *)
  st_ens : bool;                (* contains_ensemble *)
  st_size : nat;                (* ensemble size *)
  st_entries : list entry       (* in storing order: a later entry for the same (member, variable) wins *)
}.

(* int(round(a / b)) for b > 0, exact when b divides a *)
Definition rdiv (a b : Z) : Z := (2 * a + b) / (2 * b).

Definition zmin_list (d : Z) (l : list Z) : Z := match l with [] => d | x :: t => fold_left Z.min t x end.
Definition zmax_list (d : Z) (l : list Z) : Z := match l with [] => d | x :: t => fold_left Z.max t x end.

Definition gstart (f : pifile) : Z := zmin_list 0 (map s_start (f_series f)).
Definition gend (f : pifile) : Z := zmax_list 0 (map s_end (f_series f)).

Definition times_eq (a b dt : Z) : list Z :=
  map (fun i => a + Z.of_nat i * dt) (seq 0 (Z.to_nat (rdiv (b - a) dt + 1))).

(* bisect.bisect_left on a sorted list *)
Definition bisect_left (l : list Z) (x : Z) : nat := length (filter (fun y => y <? x) l).

(* non-equidistant: the events of the (first) longest series define the axis *)
Definition longest_times (f : pifile) : list Z :=
  fold_left (fun acc s => if (length acc <? length (s_events s))%nat then s_times s else acc) (f_series f) [].

Definition slice {A} (l : list A) (a n : nat) : list A := firstn n (skipn a l).

Definition global_times (f : pifile) : list Z :=
  match f_dt f with
  | Some dt => times_eq (gstart f) (gend f) dt
  | None => let lt := longest_times f in
            let a := bisect_left lt (gstart f) in
            slice lt a (bisect_left lt (gend f) + 1 - a)
  end.

Definition n_values (f : pifile) (s : series) : nat :=
  match f_dt f with
  | Some dt => Z.to_nat (rdiv (s_end s - s_start s) dt + 1)
  | None => let lt := longest_times f in (bisect_left lt (s_end s) - bisect_left lt (s_start s) + 1)%nat
  end.

Definition steps_between (f : pifile) (a b : Z) : nat :=
  match f_dt f with
  | Some dt => Z.to_nat (rdiv (b - a) dt)
  | None => let lt := longest_times f in (bisect_left lt b - bisect_left lt a)%nat
  end.

Definition take_pad (n : nat) (l : list val) : list val := firstn n l ++ repeat None (n - length l).

(* the values of one series on the global axis: missing before its start and after its end *)
Definition series_values (f : pifile) (s : series) : list val :=
  (if gstart f <? s_start s then repeat None (steps_between f (gstart f) (s_start s)) else []) ++
  take_pad (n_values f s) (s_events s) ++
  (if s_end s <? gend f then repeat None (steps_between f (s_end s) (gend f)) else []).

Definition contains_ensemble (f : pifile) : bool :=
  existsb (fun s => match s_member s with Some _ => true | None => false end) (f_series f).

Definition ensemble_size (f : pifile) : nat :=
  fold_left (fun acc s => match s_member s with Some i => Nat.max acc (S i) | None => acc end) (f_series f) 1%nat.

(* a series without member index in an ensemble file is shared by all members *)
Definition series_entries (f : pifile) (s : series) : list entry :=
  let vals := series_values f s in
  match s_member s with
  | Some i => [{| e_m := i; e_v := s_var s; e_vals := vals; e_unit := s_unit s |}]
  | None =>
      {| e_m := 0; e_v := s_var s; e_vals := vals; e_unit := s_unit s |} ::
      (if contains_ensemble f
       then map (fun i => {| e_m := i; e_v := s_var s; e_vals := vals; e_unit := s_unit s |}) (seq 1 (ensemble_size f - 1))
       else [])
  end.

(* the forecast date of the file: the first series', its start date when it has none *)
Definition file_forecast (f : pifile) : Z :=
  match f_series f with
  | [] => 0
  | s :: _ => match s_forecast s with Some t => t | None => s_start s end
  end.

(* a later series with an explicit, different forecast date is an error *)
Definition forecast_conflict (f : pifile) : bool :=
  match f_series f with
  | [] => false
  | _ :: rest => existsb (fun s => match s_forecast s with Some t => negb (t =? file_forecast f) | None => false end) rest
  end.

(* __floor_date_time: to the nearest multiple of dt from the global start *)
Definition floor_forecast (f : pifile) (t : Z) : Z :=
  match f_dt f with
  | Some dt => let secs := t - gstart f in t + ((2 * secs + dt) / (2 * dt) * dt - secs)
  | None => t
  end.

Fixpoint index_of (x : Z) (l : list Z) (i : Z) : Z :=
  match l with [] => -1 | y :: t => if y =? x then i else index_of x t (i + 1) end.

Definition pi_read (f : pifile) : store :=
  let fc := floor_forecast f (file_forecast f) in
  {| st_dt := f_dt f;
     st_times := global_times f;
     st_fc := fc;
     st_fci := index_of fc (global_times f) 0;
     st_ens := contains_ensemble f;
     st_size := ensemble_size f;
     st_entries := flat_map (series_entries f) (f_series f) |}.

(* dictionary view: the last entry stored for (member, variable) *)
Definition lookup (es : list entry) (m v : nat) : option entry :=
  find (fun e => (e_m e =? m)%nat && (e_v e =? v)%nat) (rev es).

(* ---- writing a new file ---------------------------------------------------------------------- *)
Definition first_time (st : store) : Z := hd 0 (st_times st).
Definition last_time (st : store) : Z := last (st_times st) 0.

Definition entry_series (st : store) (e : entry) : series :=
  {| s_var := e_v e;
     s_member := if st_ens st then Some (e_m e) else None;
     s_start := first_time st; s_end := last_time st;
     s_forecast := if st_fc st =? first_time st then None else Some (st_fc st);
     s_times := st_times st;
     s_events := e_vals e;
     s_unit := e_unit e |}.

(* series without values are left out *)
Definition pi_write (st : store) : pifile :=
  {| f_dt := st_dt st;
     f_series := map (entry_series st) (filter (fun e => negb (length (e_vals e) =? 0)%nat) (st_entries st)) |}.

(* ---- resize ------------------------------------------------------------------------------------ *)
Definition resize_front (n : Z) (l : list val) : list val :=
  if 0 <? n then skipn (Z.to_nat n) l else repeat None (Z.to_nat (- n)) ++ l.
Definition resize_back (n : Z) (l : list val) : list val :=
  if 0 <? n then l ++ repeat None (Z.to_nat n) else firstn (length l - Z.to_nat (- n)) l.

(* number of steps the start / the end move (positive = later) *)
Definition delta_steps (st : store) (old new : Z) : Z :=
  match st_dt st with
  | Some dt => rdiv (new - old) dt
  | None => Z.of_nat (bisect_left (st_times st) new) - Z.of_nat (bisect_left (st_times st) old)
  end.

Definition resize_times (st : store) (a b : Z) : list Z :=
  match st_dt st with
  | Some dt => times_eq a b dt
  | None => let lt := st_times st in slice lt (bisect_left lt a) (bisect_left lt b + 1 - bisect_left lt a)
  end.

Definition resize (st : store) (a b : Z) : store :=
  let ns := delta_steps st (first_time st) a in
  let ne := delta_steps st (last_time st) b in
  let ts := resize_times st a b in
  {| st_dt := st_dt st; st_times := ts; st_fc := st_fc st; st_fci := index_of (st_fc st) ts 0;
     st_ens := st_ens st; st_size := st_size st;
     st_entries := map (fun e => {| e_m := e_m e; e_v := e_v e; e_unit := e_unit e;
                                    e_vals := resize_back ne (resize_front ns (e_vals e)) |}) (st_entries st) |}.

(* non-equidistant axes cannot be stretched beyond their range *)
Definition resize_allowed (st : store) (a b : Z) : bool :=
  match st_dt st with Some _ => true | None => (first_time st <=? a) && (b <=? last_time st) end.

(* ---- CSV: the "%f" text format ------------------------------------------------------------------ *)
Open Scope Q_scope.
(* round to nearest integer, ties to even *)
Definition round_half_even (q : Q) : Z :=
  let n := Qnum q in let d := Zpos (Qden q) in
  let fl := (n / d)%Z in
  let r2 := (2 * (n - fl * d))%Z in
  if (r2 <? d)%Z then fl else if (d <? r2)%Z then (fl + 1)%Z else if Z.even fl then fl else (fl + 1)%Z.

Definition fmt6 (q : Q) : Q := inject_Z (round_half_even (q * 1000000)) / 1000000.

(* ---- parameter configuration: typed values ------------------------------------------------------- *)
Inductive pval := PBool (b : bool) | PInt (z : Z) | PDbl (q : Q) | PStr (s : nat).
Inductive pres := POk (v : pval) | PRaise.

(* set(new_value) on a parameter that currently holds `old`: the element keeps its type *)
Definition param_set (old new : pval) : pres :=
  match old, new with
  | PBool _, PBool b => POk (PBool b)
  | PBool _, _ => PRaise
  | PInt _, PInt z => POk (PInt z)
  | PInt _, PDbl q => POk (PInt (Qnum q / Zpos (Qden q) + (if (Qnum q <? 0)%Z && negb (Qnum q mod Zpos (Qden q) =? 0)%Z then 1 else 0))%Z)   (* int() truncates *)
  | PInt _, PBool b => POk (PInt (if b then 1 else 0))
  | PDbl _, PDbl q => POk (PDbl q)
  | PDbl _, PInt z => POk (PDbl (inject_Z z))
  | PDbl _, PBool b => POk (PDbl (if b then 1 else 0))
  | PStr _, _ => PRaise
  | _, PStr _ => PRaise
  end.

(* ---- serialisation -------------------------------------------------------------------------------- *)
Definition ser_q (q : Q) : list Z := let r := Qred q in [Qnum r; Zpos (Qden r)].
Definition ser_val (v : val) : list Z := match v with None => [0%Z] | Some q => 1%Z :: ser_q q end.
Definition ser_vals (l : list val) : list Z := Z.of_nat (length l) :: flat_map ser_val l.
Definition ser_fmt6 (l : list val) : list Z :=
  flat_map (fun v => match v with None => [0%Z] | Some q => 1%Z :: ser_q (fmt6 q) end) l.
Definition ser_entry (o : option entry) : list Z :=
  match o with None => [0%Z] | Some e => 1%Z :: Z.of_nat (e_unit e) :: ser_vals (e_vals e) end.
Definition ser_store (st : store) (keys : list (nat * nat)) : list Z :=
  (match st_dt st with None => 0 | Some d => d end :: Z.of_nat (length (st_times st)) :: st_times st)%Z ++
  [st_fc st; st_fci st; if st_ens st then 1 else 0; Z.of_nat (st_size st)]%Z ++
  flat_map (fun k => ser_entry (lookup (st_entries st) (fst k) (snd k))) keys.
