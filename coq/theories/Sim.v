(* Executable model of one SimulationProblem.update() step (simulation_problem.py 708-791, 823-887):
   the residual handed to the rootfinder is the model equations at the new time with every
   derivative tied to the backward difference of its state, plus the delay buffer equations. *)
From Coq Require Import ZArith QArith Qabs List Bool Arith.
From RT Require Import Xq Interp Expr Transcribe.
Import ListNotations.
Open Scope Q_scope.

(* environment of the model equations: states, derivatives, algebraics, inputs, parameters, time *)
Definition sim_env (x der alg inp par : list Q) (t : Q) : list Q := x ++ der ++ alg ++ inp ++ par ++ [t].

Definition step_residual (eqs : list expr) (x_new x_old der alg inp par : list Q) (t dt : Q) : list Q :=
  evals (sim_env x_new der alg inp par t) eqs ++
  map (fun k => qnth der k - (qnth x_new k - qnth x_old k) / dt) (seq 0 (length x_new)).

Definition max_abs (l : list Q) : Q := fold_right (fun x acc => if Qlt_bool acc (Qabs x) then Qabs x else acc) 0 l.

(* delayed feedback with delay tau in ((n-1) dt, n dt]: the buffer holds the expression at
   t, t-dt, ..., t-(n-1)dt; the delayed value combines the oldest entry now and before the step *)
Definition delay_weight (n : nat) (tau dt : Q) : Q := inject_Z (Z.of_nat n) - tau / dt.
Definition delayed_value (n : nat) (tau dt : Q) (e_nm1 e_n : Q) : Q :=
  delay_weight n tau dt * e_nm1 + (1 - delay_weight n tau dt) * e_n.

(* the IO loop: after initialize() one output entry, one more per update() *)
Inductive sim_ev := SimInit | SimUpdate (ok : bool).
Fixpoint outputs_recorded (evs : list sim_ev) : option nat :=
  match evs with
  | [] => Some 0%nat
  | SimInit :: t => match outputs_recorded t with Some k => Some (S k) | None => None end
  | SimUpdate true :: t => match outputs_recorded t with Some k => Some (S k) | None => None end
  | SimUpdate false :: _ => None           (* a failed step raises *)
  end.
