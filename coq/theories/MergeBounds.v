(* Executable model of OptimizationProblem.merge_bounds
   (src/rtctools/optimization/optimization_problem.py 499-590). *)
From Coq Require Import ZArith QArith List Bool.
From RT Require Import Xq Interp.
Import ListNotations.
Open Scope Q_scope.

Inductive bnd :=
| BNum (x : Xq)                                   (* int / float *)
| BVec (v : list Xq)                              (* 1-D ndarray *)
| BTs (times : list Q) (vals : list Xq)           (* Timeseries with 1-D values *)
| BTs2 (times : list Q) (rows : list (list Xq)).  (* Timeseries with 2-D values (time x component) *)

Inductive mres := MOk (lo hi : bnd) | MErr.

(* single element vectors are treated as scalars *)
Definition norm1 (b : bnd) : bnd :=
  match b with BVec [x] => BNum x | _ => b end.

(* one step of the upcasting loop: v1 is of a "smaller" type than v2 *)
Definition upcast (v1 v2 : bnd) : option bnd :=
  match v1, v2 with
  | BNum x, BTs t vals => Some (BTs t (map (fun _ => x) vals))
  | BNum x, BTs2 t rows => Some (BTs2 t (map (map (fun _ => x)) rows))
  | BVec v, BTs _ _ => None                       (* values.ndim != 2 *)
  | BVec v, BTs2 t rows =>
      if forallb (fun r => Nat.eqb (length r) (length v)) rows && negb (Nat.eqb (length rows) 0)
      then Some (BTs2 t (map (fun _ => v) rows)) else None
  | BNum x, BVec v => Some (BVec (map (fun _ => x) v))
  | _, _ => Some v1
  end.

Fixpoint map2 {A B C} (f : A -> B -> C) (l1 : list A) (l2 : list B) : list C :=
  match l1, l2 with
  | a :: t1, b :: t2 => f a b :: map2 f t1 t2
  | _, _ => []
  end.

Definition same_shape2 (r1 r2 : list (list Xq)) : bool :=
  Nat.eqb (length r1) (length r2) &&
  forallb (fun p => Nat.eqb (length (fst p)) (length (snd p))) (combine r1 r2).

(* merge one side; f is numpy maximum/minimum, g Python's max/min *)
Definition merge_side (f g : Xq -> Xq -> Xq) (a b : bnd) : option bnd :=
  match a, b with
  | BNum x, BNum y => Some (BNum (g x y))
  | BVec v, BVec w => if Nat.eqb (length v) (length w) then Some (BVec (map2 f v w)) else None
  | BTs t v, BTs u w =>
      if Nat.eqb (length t) (length u) && list_eqb t u && Nat.eqb (length v) (length w)
      then Some (BTs t (map2 f v w)) else None
  | BTs2 t r, BTs2 u s =>
      if Nat.eqb (length t) (length u) && list_eqb t u && same_shape2 r s
      then Some (BTs2 t (map2 (map2 f) r s)) else None
  | BTs t v, BTs2 u s | BTs2 u s, BTs t v => None      (* values.shape differ *)
  | _, _ => None                                        (* assert isinstance(a, type(b)) *)
  end.

Definition merge_bounds (a A b B : bnd) : mres :=
  let a := norm1 a in let A := norm1 A in let b := norm1 b in let B := norm1 B in
  (* pairs (0,2), (2,0), (1,3), (3,1) in this order, updating in place *)
  match upcast a b with
  | None => MErr
  | Some a1 =>
      match upcast b a1 with
      | None => MErr
      | Some b1 =>
          match upcast A B with
          | None => MErr
          | Some A1 =>
              match upcast B A1 with
              | None => MErr
              | Some B1 =>
                  match merge_side npmax pymax a1 b1, merge_side npmin pymin A1 B1 with
                  | Some m, Some M => MOk m M
                  | _, _ => MErr
                  end
              end
          end
      end
  end.

(* ---- serialisation --------------------------------------------------------------------------- *)
Definition ser_bnd (b : bnd) : list Z :=
  match b with
  | BNum x => 20%Z :: ser_xq x
  | BVec v => 21%Z :: Z.of_nat (length v) :: flat_map ser_xq v
  | BTs t v => 22%Z :: Z.of_nat (length t) :: flat_map ser_q t ++ Z.of_nat (length v) :: flat_map ser_xq v
  | BTs2 t r => 23%Z :: Z.of_nat (length t) :: flat_map ser_q t ++
                Z.of_nat (length r) :: flat_map (fun l => Z.of_nat (length l) :: flat_map ser_xq l) r
  end.

Definition ser_mres (r : mres) : list Z :=
  match r with MErr => [9%Z] | MOk lo hi => 8%Z :: ser_bnd lo ++ ser_bnd hi end.
