(* Executable model of _GoalProgrammingMixinBase._gp_validate_goals
   (goal_programming_mixin_base.py 604-772) for scalar goals: which goal lists are rejected before
   any solve.  One call validates the point goals, another the path goals. *)
From Coq Require Import ZArith QArith List Bool.
From RT Require Import Xq.
Import ListNotations.
Open Scope Q_scope.

Record vgoal := {
  v_fk : Z;                      (* function key *)
  v_prio : Q;
  v_tmin : list Xq;              (* target min per step (1 entry for point goals); NaN = none *)
  v_tmax : list Xq;
  v_lo : Xq; v_hi : Xq;          (* function_range; (NaN, NaN) = not given *)
  v_nominal : Q;
  v_weight : Q;
  v_critical : bool;
  v_relax : Q
}.

Record vopts := { vo_keep_soft : bool; vo_monotone : bool }.

Definition any_finite (l : list Xq) : bool := existsb is_finite l.

Record vgoal' := { vg : vgoal; ts_min : bool; ts_max : bool }.   (* which targets are Timeseries *)

Definition vg_has_min (g : vgoal') : bool := ts_min g || any_finite (v_tmin (vg g)).
Definition vg_has_max (g : vgoal') : bool := ts_max g || any_finite (v_tmax (vg g)).
Definition vg_has_bounds (g : vgoal') : bool := vg_has_min g || vg_has_max g.

Definition range_unset (g : vgoal') : bool := is_nan (v_lo (vg g)) && is_nan (v_hi (vg g)).

(* per-goal checks of the first loop *)
Definition check_goal (o : vopts) (is_path : bool) (g : vgoal') : bool :=
  let v := vg g in
  Qlt_bool 0 (v_nominal v) &&
  negb (v_critical v && negb (vg_has_bounds g)) &&
  (if v_critical v then true
   else if vg_has_bounds g then
     is_finite (v_lo v) && is_finite (v_hi v) && xlt (v_lo v) (v_hi v) && Qlt_bool 0 (v_weight v)
   else range_unset g) &&
  (is_path || negb (ts_min g || ts_max g)) &&
  (if vo_keep_soft o then Qeq_bool (v_relax v) 0 else true).

(* no step where both are present and the later goal asks for less *)
Fixpoint all2 (f : Xq -> Xq -> bool) (a b : list Xq) : bool :=
  match a, b with
  | x :: a', y :: b' => f x y && all2 f a' b'
  | _, _ => true
  end.

Definition min_ok (cur prev : Xq) : bool :=           (* not (cur < prev) where both are non-NaN *)
  if is_nan cur || is_nan prev then true else negb (xlt cur prev).
Definition max_ok (cur prev : Xq) : bool :=
  if is_nan cur || is_nan prev then true else negb (xlt prev cur).

(* goals sorted by priority (stable insertion sort = Python's sorted) *)
Fixpoint insert_by_prio (g : vgoal') (l : list vgoal') : list vgoal' :=
  match l with
  | [] => [g]
  | h :: t => if Qle_bool (v_prio (vg g)) (v_prio (vg h)) then g :: l else h :: insert_by_prio g t
  end.
Definition sort_by_prio (l : list vgoal') : list vgoal' := fold_right insert_by_prio [] l.
(* fold_right inserts the last element first; inserting before larger-or-equal keys keeps the
   original order among equal priorities *)

Fixpoint last_with_key (fk : Z) (seen : list vgoal') : option vgoal' :=
  match seen with
  | [] => None
  | g :: t => if (v_fk (vg g) =? fk)%Z then Some g else last_with_key fk t
  end.

(* `seen` holds the goals already visited, most recent first *)
Fixpoint monotone_from (seen : list vgoal') (l : list vgoal') : bool :=
  match l with
  | [] => true
  | g :: t =>
      (match last_with_key (v_fk (vg g)) seen with
       | None => true
       | Some p =>
           (if vg_has_min g then all2 min_ok (v_tmin (vg g)) (v_tmin (vg p)) else true) &&
           (if vg_has_max g then all2 max_ok (v_tmax (vg g)) (v_tmax (vg p)) else true)
       end) && monotone_from (g :: seen) t
  end.

(* per-goal checks of the last loop *)
Definition minmax_ok (m M : Xq) : bool := if is_nan m || is_nan M then true else negb (xlt M m).
Definition tmin_in_range (lo hi m : Xq) : bool :=
  if is_finite m then negb (xle m lo) && negb (xlt hi m) else true.
Definition tmax_in_range (lo hi M : Xq) : bool :=
  if is_finite M then negb (xle hi M) && negb (xlt M lo) else true.

Definition check_targets (g : vgoal') : bool :=
  let v := vg g in
  (if vg_has_min g && vg_has_max g then all2 minmax_ok (v_tmin v) (v_tmax v) else true) &&
  (if vg_has_min g && negb (v_critical v) then forallb (tmin_in_range (v_lo v) (v_hi v)) (v_tmin v) else true) &&
  (if vg_has_max g && negb (v_critical v) then forallb (tmax_in_range (v_lo v) (v_hi v)) (v_tmax v) else true) &&
  Qle_bool 0 (v_relax v).

Definition validate (o : vopts) (is_path : bool) (goals : list vgoal') : bool :=
  let sorted := sort_by_prio goals in
  forallb (check_goal o is_path) sorted &&
  (if vo_monotone o then monotone_from [] sorted else true) &&
  forallb check_targets sorted.

Definition mk_vgoal (fk : Z) (prio : Q) (tmin tmax : list Xq) (smin smax : bool) (lo hi : Xq)
           (nominal weight : Q) (critical : bool) (relax : Q) : vgoal' :=
  {| vg := {| v_fk := fk; v_prio := prio; v_tmin := tmin; v_tmax := tmax;
              v_lo := lo; v_hi := hi; v_nominal := nominal; v_weight := weight;
              v_critical := critical; v_relax := relax |};
     ts_min := smin; ts_max := smax |}.
