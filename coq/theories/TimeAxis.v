(* Executable model of the time axis of the data store and the IO mixins:
   rtctools/data/storage.py (datetimes <-> seconds relative to the reference datetime),
   optimization/io_mixin.py (times(), history(), bounds() from _Min/_Max series, set_timeseries alignment),
   the export row assembly of the CSV / PI / NetCDF writers, and simulation/io_mixin.py (input feed,
   output record).  Datetimes and times are integer seconds; a value is None (NaN) or Some q. *)
From Coq Require Import ZArith QArith List Bool Arith Lia.
From RT Require Import Xq.
Import ListNotations.
Open Scope Z_scope.

Definition val := option Q.

(* storage.py: times in seconds relative to the reference datetime *)
Definition times_sec (datetimes : list Z) (ref : Z) : list Z := map (fun d => d - ref) datetimes.

Definition bisect_left (l : list Z) (x : Z) : nat := length (filter (fun y => y <? x) l).

(* the reference must be one of the datetimes *)
Definition ref_ok (datetimes : list Z) (ref : Z) : bool := existsb (Z.eqb ref) datetimes.

(* IOMixin.times(): from t0 on *)
Definition t_pos (datetimes : list Z) (ref : Z) : nat := bisect_left (times_sec datetimes ref) 0.
Definition horizon (datetimes : list Z) (ref : Z) : list Z := skipn (t_pos datetimes ref) (times_sec datetimes ref).

(* IOMixin.history(): the series up to and including t0 *)
Definition history {A} (datetimes : list Z) (ref : Z) (xs : list A) : list A := firstn (t_pos datetimes ref + 1) xs.

(* IOMixin.bounds(): <var>_Min / <var>_Max from t0 on, gaps = no bound *)
Definition bound_series (datetimes : list Z) (ref : Z) (lower : bool) (vals : list val) : list Xq :=
  map (fun v => match v with Some q => XFin q | None => if lower then XNInf else XPInf end)
      (skipn (t_pos datetimes ref) vals).

(* IOMixin.set_timeseries with a Timeseries object whose times are a contiguous part of the axis:
   NaN before and after *)
Definition stretch (n pos : nat) (vals : list val) : list val :=
  let body := firstn (n - pos) vals in
  repeat None pos ++ body ++ repeat None (n - pos - length body).

Fixpoint index_of (x : Z) (l : list Z) (i : nat) : option nat :=
  match l with [] => None | y :: t => if y =? x then Some i else index_of x t (S i) end.

(* every value at the position of its own time stamp *)
Definition place (axis ts : list Z) (vals : list val) : list val :=
  map (fun t => match index_of t ts 0 with Some i => nth i vals None | None => None end) axis.

Definition subset (ts axis : list Z) : bool := forallb (fun t => existsb (Z.eqb t) axis) ts.

Definition set_with_times (datetimes : list Z) (ref : Z) (ts : list Z) (vals : list val) : list val :=
  let axis := times_sec datetimes ref in
  if list_eq_dec Z.eq_dec axis ts then vals
  else if subset ts axis then place axis ts vals
  else stretch (length axis) (bisect_left axis (hd 0 ts)) vals.

(* ... with plain values: they start at t0 *)
Definition set_plain (datetimes : list Z) (ref : Z) (vals : list val) : list val :=
  stretch (length datetimes) (t_pos datetimes ref) vals.

(* value of a stored series at an absolute datetime *)
Definition value_at (datetimes : list Z) (vals : list val) (d : Z) : val :=
  match index_of d datetimes 0 with Some i => nth i vals None | None => None end.
(* ... at a time in seconds relative to the reference *)
Definition value_at_sec (datetimes : list Z) (ref : Z) (vals : list val) (t : Z) : val :=
  match index_of t (times_sec datetimes ref) 0 with Some i => nth i vals None | None => None end.

(* export: one row per horizon time, stamped ref + t; the column of a variable is its result *)
Definition export_stamps (datetimes : list Z) (ref : Z) : list Z := map (fun t => ref + t) (horizon datetimes ref).
Definition export_column (datetimes : list Z) (ref : Z) (results : list val) : list (Z * val) :=
  combine (export_stamps datetimes ref) results.

(* simulation: the input fed for the step that ends at time t is the series value at t *)
Definition sim_input (datetimes : list Z) (ref : Z) (vals : list val) (t : Z) : val :=
  nth (bisect_left (times_sec datetimes ref) t) vals None.

(* serialisation *)
Definition ser_q (q : Q) : list Z := let r := Qred q in [Qnum r; Zpos (Qden r)].
Definition ser_val (v : val) : list Z := match v with None => [0%Z] | Some q => 1%Z :: ser_q q end.
Definition ser_vals (l : list val) : list Z := Z.of_nat (length l) :: flat_map ser_val l.
Definition ser_zs (l : list Z) : list Z := Z.of_nat (length l) :: l.
Definition ser_xqs (l : list Xq) : list Z := Z.of_nat (length l) :: flat_map ser_xq l.
