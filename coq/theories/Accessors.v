(* Executable model of the trajectory accessors of CollocatedIntegratedOptimizationProblem
   (collocated_integrated_optimization_problem.py): extract_results (2335-2418), state_at
   (2424-2546), der_at (2646-2697), states_in / integral (2561-2631), map_path_expression
   (2699-2713), for canonical (non-alias) names, on top of the transcription model. *)
From Coq Require Import ZArith QArith List Bool Arith.
From RT Require Import Xq Interp Expr Transcribe.
Import ListNotations.
Open Scope Q_scope.

(* extracted results of collocated variable j: nominal * X on the variable's own grid *)
Definition results (P : problem) (X : list Q) (m j : nat) : list Q :=
  map (fun k => qnth (nom P) j * xget X (var_start P m j + k)) (seq 0 (vlen P j)).

Inductive acc := AVal (x : Xq) | ARaise.

Definition jtimes (P : problem) (j : nat) : list Q := nth j (vtimes P) [].
Definition jmode (P : problem) (j : nat) : mode := nth j (vmode P) Linear.

Definition hvals_q (h : hist) : list Q := map (fun x => match x with XFin q => q | _ => 0 end) (h_vals h).

(* state_at(variable j, t, member m, scaled, extrapolate) *)
Definition state_at (P : problem) (X : list Q) (m j : nat) (t : Q) (scaled extrapolate : bool) : acc :=
  let n := qnth (nom P) j in
  let tj := jtimes P j in
  let raw := slice X (var_start P m j) (vlen P j) in
  if Qlt_bool t (t0 P) then
    match hist_of P m j with
    | None =>
        if extrapolate then AVal (XFin (if scaled then n * hd 0 raw / n else n * hd 0 raw))
        else AVal XNaN
    | Some h =>
        let fl := if extrapolate then Some (hd XNaN (h_vals h)) else Some XNaN in
        let fr := if extrapolate then Some (last (h_vals h) XNaN) else Some XNaN in
        match interp_scalar (jmode P j) (h_times h) (hvals_q h) fl fr t with
        | Val (XFin v) => AVal (XFin (if scaled then v / n else v))
        | Val x => AVal x
        | Raise => ARaise
        end
    end
  else
    if negb extrapolate && (Qlt_bool t (hd 0 tj) || Qlt_bool (last tj 0) t) then ARaise
    else let v := interp1d (jmode P j) tj raw t in
         AVal (XFin (if scaled then v else n * v)).

Definition acc_q (a : acc) : Q := match a with AVal (XFin q) => q | _ => 0 end.

(* the knot interval (a, b] containing t *)
Fixpoint find_interval (ks : list Q) (t : Q) : option (Q * Q) :=
  match ks with
  | a :: ((b :: _) as rest) => if Qlt_bool a t && Qle_bool t b then Some (a, b) else find_interval rest t
  | _ => None
  end.

(* der_at(variable j, t): the dedicated initial derivative at t0 for differentiated states, otherwise
   the backward difference over the knot interval (t_i, t_{i+1}] containing t (history knots
   included for t <= t0), 0 at the very first available point *)
Definition der_knots (P : problem) (m j : nat) (t : Q) : list Q :=
  if Qle_bool t (t0 P) then
    match hist_of P m j with
    | Some h => removelast (h_times h) ++ jtimes P j
    | None => jtimes P j
    end
  else jtimes P j.

Definition der_at (P : problem) (X : list Q) (m j : nat) (t : Q) : acc :=
  if Qeq_bool t (t0 P) && (j <? ns P) then AVal (XFin (idr_nominal P j * xget X (idr_index P m j)))
  else
    let knots := der_knots P m j t in
    if Qeq_bool t (hd 0 knots) then AVal (XFin 0)
    else match find_interval knots t with
         | Some (a, b) =>
             AVal (XFin ((acc_q (state_at P X m j b false true) - acc_q (state_at P X m j a false true)) / (b - a)))
         | None => ARaise
         end.

(* knots of variable j in the window [a, b] inside the horizon: own time stamps within the
   window, plus interpolated end points when they are not stamps *)
Definition knots_in (P : problem) (X : list Q) (m j : nat) (a b : Q) : list (Q * Q) :=
  let tj := jtimes P j in
  let res := results P X m j in
  let inside := filter (fun tv => Qle_bool a (fst tv) && Qle_bool (fst tv) b) (combine tj res) in
  let has (t : Q) := existsb (fun tv => Qeq_bool (fst tv) t) inside in
  (if has a then [] else [(a, acc_q (state_at P X m j a false true))]) ++ inside ++
  (if has b then [] else [(b, acc_q (state_at P X m j b false true))]).

Fixpoint trapz (l : list (Q * Q)) : Q :=
  match l with
  | (ta, xa) :: (((tb, xb) :: _) as rest) => (1 # 2) * (xa + xb) * (tb - ta) + trapz rest
  | _ => 0
  end.

Definition integral (P : problem) (X : list Q) (m j : nat) (a b : Q) : Q := trapz (knots_in P X m j a b).
Definition states_in (P : problem) (X : list Q) (m j : nat) (a b : Q) : list Q := map snd (knots_in P X m j a b).

(* map_path_expression: the expression at every collocation time, t0 with the initial
   derivatives, later times with the difference quotients -- exactly the environments of the
   path objective / constraints in the transcription *)
Definition map_path (P : problem) (X : list Q) (m : nat) (e : expr) : list Q :=
  map (path_env_obj (PathObj_of e) P X m) (seq 0 (nt P)).

Definition ser_acc (a : acc) : list Z := match a with ARaise => [9%Z] | AVal x => 8%Z :: ser_xq x end.
