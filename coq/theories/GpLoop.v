(* Executable model of the priority loop of GoalProgrammingMixin.optimize
   (goal_programming_mixin.py 622-759) and SinglePassGoalProgrammingMixin.optimize
   (single_pass_goal_programming_mixin.py 285-437): grouping of goals into priorities, hooks,
   stop at first failure, results cache.  The solver is an oracle: solve number i (0-based)
   succeeds iff oracle i = true. *)
From Coq Require Import ZArith QArith List Bool.
Import ListNotations.
Open Scope Z_scope.

Record goal := { g_prio : Q; g_empty : bool }.

(* Python int(): truncation towards zero *)
Definition prio_int (q : Q) : Z := Z.quot (Qnum q) (Zpos (Qden q)).

(* sorted({...}) : insertion into a strictly increasing list *)
Fixpoint insert (p : Z) (l : list Z) : list Z :=
  match l with
  | [] => [p]
  | x :: t => if p <? x then p :: l else if p =? x then l else x :: insert p t
  end.

Definition prios (goals : list goal) : list Z :=
  fold_right insert [] (map (fun g => prio_int (g_prio g)) (filter (fun g => negb (g_empty g)) goals)).

Inductive ev :=
| Started (p : Z)
| Solve (p : Z) (ok : bool)
| Completed (p : Z)
| Post.

Record outcome := {
  trace : list ev;
  ret : bool;                 (* value returned by optimize() *)
  exposed : option nat        (* index of the solve whose results extract_results() returns
                                 afterwards; None: no solve was made *)
}.

(* succ: the `success` variable; last: index of the last completed solve (cached results) *)
Fixpoint loop (ps : list Z) (oracle : nat -> bool) (i : nat) (succ : bool) (last : option nat)
  : outcome :=
  match ps with
  | [] => {| trace := [Post]; ret := succ;
             exposed := match last with Some j => Some j | None => None end |}
  | p :: t =>
      if oracle i then
        let o := loop t oracle (S i) true (Some i) in
        {| trace := Started p :: Solve p true :: Completed p :: trace o;
           ret := ret o; exposed := exposed o |}
      else
        {| trace := [Started p; Solve p false; Post]; ret := false;
           exposed := match last with Some j => Some j | None => Some i end |}
  end.

Definition run (goals : list goal) (oracle : nat -> bool) : outcome :=
  loop (prios goals) oracle 0%nat false None.

(* ---- serialisation --------------------------------------------------------------------------- *)
Definition ser_ev (e : ev) : list Z :=
  match e with
  | Started p => [1; p]
  | Solve p ok => [2; p; if ok then 1 else 0]
  | Completed p => [3; p]
  | Post => [4]
  end.

Definition ser_outcome (o : outcome) : list Z :=
  (if ret o then 1 else 0) ::
  (match exposed o with None => -1 | Some j => Z.of_nat j end) ::
  flat_map ser_ev (trace o).

Definition oracle_of (l : list bool) (n : nat) : bool := nth n l true.

Definition run_case (goals : list (Q * bool)) (script : list bool) : list Z :=
  ser_outcome (run (map (fun g => {| g_prio := fst g; g_empty := snd g |}) goals) (oracle_of script)).
