(* C18 as a decidable predicate on the observable trace of a homotopy run: what the property says,
   independent of how the loop is written.  `tol` only matters when the checker is run on traces
   produced by binary64 arithmetic; the theorems are for tol = 0. *)
From Coq Require Import ZArith QArith Qabs List Bool.
From RT Require Import Homotopy.
Import ListNotations.
Open Scope Q_scope.

Definition Qclose (tol a b : Q) : bool := Qle_bool (Qabs (a - b)) tol.

Definition seed_ok (tol : Q) (s : option Q) (expected : option Q) : bool :=
  match s, expected with
  | None, None => true
  | Some a, Some b => Qclose tol a b
  | _, _ => false
  end.

(* acc: last accepted theta; prev: previous event (theta, ok), None for the very first solve *)
Fixpoint chk (o : opts) (tol : Q) (ret : bool) (acc : Q) (prev : option (Q * bool))
         (tr : list event) : bool :=
  match tr with
  | [] => false                      (* a run makes at least one solve / never ends here *)
  | e :: rest =>
      let th := ev_theta e in
      let last := match rest with [] => true | _ => false end in
      (* never above one *)
      Qle_bool th 1 &&
      (* where this solve runs, and what seeds it *)
      match prev with
      | None => Qeq_bool th (theta_start o) && seed_ok tol (ev_seed e) None
      | Some (thp, true) =>            (* increases only after a success *)
          Qlt_bool thp th && seed_ok tol (ev_seed e) (Some acc)
      | Some (thp, false) =>           (* steps back, increment halved *)
          Qlt_bool th thp && Qlt_bool acc th &&
          Qclose tol (th - acc) ((thp - acc) * (1 # 2)) && seed_ok tol (ev_seed e) (Some acc)
      end &&
      (* what happens next *)
      (if ev_ok e then
         if Qle_bool 1 th
         then last && Bool.eqb ret true                      (* solved theta = 1: done, success *)
         else negb last && chk o tol ret th (Some (th, true)) rest
       else
         match prev with
         | None => last && Bool.eqb ret false                (* very first solve fails *)
         | Some _ =>
             if Qlt_bool ((th - acc) * (1 # 2)) (delta_min o - tol)
             then last && Bool.eqb ret false                 (* increment would drop below min *)
             else if Qlt_bool (delta_min o + tol) ((th - acc) * (1 # 2))
                  then negb last && chk o tol ret acc (Some (th, false)) rest
                  else (* within tol of the threshold: either is acceptable *)
                    if last then Bool.eqb ret false
                    else chk o tol ret acc (Some (th, false)) rest
         end)
  end.

Definition trace_ok (o : opts) (tol : Q) (ret : bool) (tr : list event) : bool :=
  chk o tol ret (theta_start o) None tr.

(* derived observables used in the corollaries *)
Fixpoint last_accepted (tr : list event) (acc : option Q) : option Q :=
  match tr with
  | [] => acc
  | e :: t => last_accepted t (if ev_ok e then Some (ev_theta e) else acc)
  end.

Definition spec_case (ts d0 dm tol : Q) (ret : bool) (tr : list (Q * bool * option Q)) : list Z :=
  [if trace_ok (mkopts ts d0 dm) tol ret
        (map (fun x => {| ev_theta := fst (fst x); ev_ok := snd (fst x); ev_seed := snd x |}) tr)
   then 1%Z else 0%Z].
