(* C08 — nominal values only rescale the numerics.  Statements only. *)
From Coq Require Import ZArith QArith List Bool Arith.
From RT Require Import Xq Interp Expr Transcribe Transcribe_proofs.
Import ListNotations.
Open Scope Q_scope.

(* The rows and the path objective read nominals and decision vector only through the physical view
   (nominal * X): step_rows_v / path_con_v / path_obj_v do not mention nominals. *)
Theorem C08_rows_factor_through_physical_view :
  forall F F0 PathObj PathCon P X m,
    collocation_rows F P X m = flat_map (step_rows_v F P (view_of P X m) m) (seq 0 (nt P - 1)) /\
    initial_rows F F0 P X m =
      (let w := view_of P X m in
       F (w_vars w 0%nat) (w_idr w) (cin_at P m 0) (par_of P m) 0 ++
       F0 (w_vars w 0%nat) (w_idr w) (cin_at P m 0) (par_of P m) 0) /\
    path_rows PathCon P X m = flat_map (path_con_v PathCon P (view_of P X m) m) (seq 0 (nt P)) /\
    (forall i, path_env_obj PathObj P X m i = path_obj_v PathObj P (view_of P X m) m i).
Proof. intros. apply rows_factor_through_view. Qed.
Print Assumptions C08_rows_factor_through_physical_view.

(* two scalings of one physical trajectory give the same physical value; X' = X*N/N' is one *)
Theorem C08_rescaling :
  (forall P P' X X' m j i,
     vlen P j = nt P -> vlen P' j = nt P' -> var_start P m j = var_start P' m j ->
     qnth (nom P) j * xget X (var_start P m j + i) == qnth (nom P') j * xget X' (var_start P' m j + i) ->
     cval P X m j i == cval P' X' m j i) /\
  (forall n n' x, 0 < n' -> n' * (x * n / n') == n * x).
Proof. split; [exact rescale_cval | exact rescale_entry]. Qed.
Print Assumptions C08_rescaling.

(* bounds are physical: the scaled box times the nominal is the user's box *)
Theorem C08_bounds_physical :
  forall x n, 0 < n -> xsame (xmulq (xdiv x n) n) x.
Proof. exact bounds_physical. Qed.
Print Assumptions C08_bounds_physical.

Example C08_nonvacuous :
  let mk n := {| times := [0; 2]; theta := 1; nE := 1; ns := 1; na := 0; nc := 0; npv := 0; nev := 0;
                 vtimes := [[0; 2]]; vmode := [Linear]; nom := [n]; nom_pv := []; nom_ev := [];
                 cin := [[]]; par := [[]]; prob := [1]; lower := [BScalar (XFin (-3))]; upper := [BNone];
                 lower_pv := []; upper_pv := []; lower_ev := []; upper_ev := []; history := [[None]] |} in
  let F := F_of [ESub (EV 1) (EV 0)] in     (* der(x) - x *)
  (* nominal 1 with X = [4; 8; _] and nominal 1/4 with X' = [16; 32; _]: same row *)
  Forall2 Qeq (collocation_rows F (mk 1) [4; 8; 0] 0) (collocation_rows F (mk (1 # 4)) [16; 32; 0] 0) /\
  collocation_rows F (mk 1) [4; 8; 0] 0 <> [].
Proof. cbn zeta. split; [vm_compute; repeat constructor | vm_compute; discriminate]. Qed.
Print Assumptions C08_nonvacuous.
