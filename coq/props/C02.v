(* C02 — later priorities never degrade earlier ones.  Statements only. *)
From Coq Require Import ZArith QArith Qabs List Bool.
From RT Require Import Xq Interval Goals Interval_proofs Goals_proofs.
Import ListNotations.
Open Scope Q_scope.

(* Merging a newly derived hard constraint (self) with the stored one (other, enforced): the result
   lies within the stored bounds and is a proper interval. *)
Theorem C02_merge_other_never_loosens :
  forall s o, wf s -> wf o -> sub (update_bounds false s o) o /\ wf (update_bounds false s o).
Proof. exact update_other_sub. Qed.
Print Assumptions C02_merge_other_never_loosens.

(* Merging a critical goal (other) into the store (self, enforced): within the stored bounds.
   (False of the unrepaired code: (2,3) merged with (2.5,inf) gave (2.5,inf); see known_findings.) *)
Theorem C02_merge_self_never_loosens :
  forall s o, wf s -> wf o -> sub (update_bounds true s o) s /\ wf (update_bounds true s o).
Proof. exact update_self_sub. Qed.
Print Assumptions C02_merge_self_never_loosens.

(* When the two intervals overlap the merge is within both (it is their intersection). *)
Theorem C02_merge_within_both :
  forall enforce s o, wf s -> wf o ->
    xle (npmax (lo s) (lo o)) (npmin (hi s) (hi o)) = true ->
    sub (update_bounds enforce s o) s /\ sub (update_bounds enforce s o) o.
Proof. exact update_within_both. Qed.
Print Assumptions C02_merge_within_both.

(* The constraint store only shrinks: whatever hard constraints and critical goals later
   priorities add for a function key, every value admitted later was admitted before. *)
Theorem C02_store_only_shrinks :
  forall ops st fk v,
    store_get st fk = Some v -> Forall wf v ->
    (forall o, In o ops -> op_fk o = fk -> length (op_c o) = length v /\ Forall wf (op_c o)) ->
    exists v', store_get (fold_left store_step ops st) fk = Some v' /\
      forall i y, (i < length v')%nat -> inI y (nth i v' {| lo := XNaN; hi := XNaN |}) ->
                  inI y (nth i v {| lo := XNaN; hi := XNaN |}).
Proof. exact store_later_within_earlier. Qed.
Print Assumptions C02_store_only_shrinks.

(* The hard constraint derived from a solved target goal contains the achieved function value
   (so the next priority is feasible) ... *)
Theorem C02_hard_contains_solution :
  forall g o gm gM eps0 eps f value,
    wfg g o -> g_critical g = false -> eps0 <= eps ->
    (g_has_min g = true -> forall t, gm = XFin t -> g_lo g <= t /\ t + eps0 * (g_lo g - t) <= f) ->
    (g_has_max g = true -> forall t, gM = XFin t -> t <= g_hi g /\ f <= t + eps0 * (g_hi g - t)) ->
    (vtol_exceeded o eps = true -> value == f) ->
    let I := hard_target g o gm gM eps value in
    xle (lo I) (XFin (f * / g_nom g + half * o_thr o)) = true /\
    xle (XFin (f * / g_nom g - half * o_thr o)) (hi I) = true.
Proof. exact hard_target_contains. Qed.
Print Assumptions C02_hard_contains_solution.

(* ... and keeps every later value inside the envelope of the recorded violation, up to the
   configured relaxations. *)
Theorem C02_hard_bounds_attainment :
  forall g o gm gM eps value y,
    wfg g o -> g_critical g = false -> vtol_exceeded o eps = false ->
    let I := hard_target g o gm gM eps value in
    xle (lo I) (XFin y) = true -> xle (XFin y) (hi I) = true ->
    (g_has_min g = true -> forall t, gm = XFin t ->
       (t + eps * (g_lo g - t) - g_relax g) * / g_nom g - o_cr o - half * o_thr o <= y) /\
    (g_has_max g = true -> forall t, gM = XFin t ->
       y <= (t + eps * (g_hi g - t) + g_relax g) * / g_nom g + o_cr o + half * o_thr o).
Proof. exact hard_target_attains. Qed.
Print Assumptions C02_hard_bounds_attainment.

(* Minimisation goals: the retained constraint admits the achieved value and nothing worse than
   it beyond the relaxations. *)
Theorem C02_minimize_retained :
  forall g o fval, wfg g o ->
    (let I := hard_minimize g o fval in
     xle (lo I) (XFin (fval * / g_nom g)) = true /\ xle (XFin (fval * / g_nom g)) (hi I) = true) /\
    (forall y, xle (XFin y) (hi (hard_minimize g o fval)) = true ->
       y <= (fval + g_relax g) * / g_nom g + o_cr o).
Proof.
  intros g o fval W. split.
  - now apply hard_minimize_contains.
  - intros y. now apply hard_minimize_attains.
Qed.
Print Assumptions C02_minimize_retained.

(* non-vacuity: the input on which the unrepaired merge dropped the earlier upper bound *)
Example C02_nonvacuous :
  let s := {| lo := XFin 2; hi := XFin 3 |} in
  let o := {| lo := XFin (5 # 2); hi := XPInf |} in
  wf s /\ wf o /\ update_bounds true s o = {| lo := XFin (5 # 2); hi := XFin 3 |} /\
  update_bounds false s o = {| lo := XFin (5 # 2); hi := XFin 3 |}.
Proof. vm_compute. repeat split. Qed.
Print Assumptions C02_nonvacuous.
