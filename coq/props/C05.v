(* C05 — variable bounds and initial conditions are imposed exactly as given.  Statements only. *)
From Coq Require Import ZArith QArith List Bool Arith.
From RT Require Import Xq Interp Expr Transcribe Transcribe_proofs.
Import ListNotations.
Open Scope Q_scope.

(* every entry of the decision vector gets exactly one (lower, upper) pair *)
Theorem C05_every_entry_boxed_once : forall P, wf_bounds P -> length (x_bounds P) = xsize P.
Proof. exact x_bounds_length. Qed.
Print Assumptions C05_every_entry_boxed_once.

(* entry i of variable j is boxed by the declared bound at the variable's own i-th time stamp,
   divided by the nominal *)
Theorem C05_box_spec :
  forall P m j i,
    hist_of P m j = None ->
    wf_bspec (nth j (lower P) BNone) -> wf_bspec (nth j (upper P) BNone) -> (i < vlen P j)%nat ->
    length (var_bounds P m j) = vlen P j /\
    nth i (var_bounds P m j) (XNaN, XNaN) =
      (xdiv (nth i (bound_at (nth j (lower P) BNone) XNInf (nth j (vmode P) Linear) (nth j (vtimes P) [])) XNaN)
            (qnth (nom P) j),
       xdiv (nth i (bound_at (nth j (upper P) BNone) XPInf (nth j (vmode P) Linear) (nth j (vtimes P) [])) XNaN)
            (qnth (nom P) j)).
Proof. exact var_bounds_no_history. Qed.
Print Assumptions C05_box_spec.

(* missing side = unbounded; scalar = the same at every stamp; Timeseries = interpolated (C19) at
   the variable's own stamps, the missing side outside its range *)
Theorem C05_bound_kinds :
  forall o md tg,
    bound_at BNone o md tg = map (fun _ => o) tg /\
    (forall x, bound_at (BScalar x) o md tg = map (fun _ => x) tg) /\
    (forall ts vals l, interp_array md ts vals (Some o) (Some o) tg = Val l ->
                       bound_at (BSeries ts vals) o md tg = l).
Proof. exact bound_kinds. Qed.
Print Assumptions C05_bound_kinds.

(* the box is the user's box in physical units: nominal * (bound / nominal) = bound, and an entry
   inside the scaled box is, times the nominal, inside the user's bounds *)
Theorem C05_feasible_in_box :
  forall lb ub n x, 0 < n ->
    xsame (xmulq (xdiv lb n) n) lb /\
    (xle (xdiv lb n) (XFin x) = true -> xle (XFin x) (xdiv ub n) = true ->
     xle lb (XFin (n * x)) = true /\ xle (XFin (n * x)) ub = true).
Proof.
  intros lb ub n x Hn. split.
  - now apply bounds_physical.
  - now apply feasible_in_box.
Qed.
Print Assumptions C05_feasible_in_box.

(* a history value at t0 pins the initial entry (overriding the box); a missing (NaN) one does not *)
Theorem C05_history_pin :
  forall P m j h,
    hist_of P m j = Some h ->
    (forall v, hist_last h = XFin v -> (0 < vlen P j)%nat ->
       wf_bspec (nth j (lower P) BNone) -> wf_bspec (nth j (upper P) BNone) ->
       nth 0 (var_bounds P m j) (XNaN, XNaN) = (XFin (v / qnth (nom P) j), XFin (v / qnth (nom P) j)) /\
       length (var_bounds P m j) = vlen P j) /\
    (hist_last h = XNaN ->
       var_bounds P m j =
       combine (map (fun x => xdiv x (qnth (nom P) j))
                    (bound_at (nth j (lower P) BNone) XNInf (nth j (vmode P) Linear) (nth j (vtimes P) [])))
               (map (fun x => xdiv x (qnth (nom P) j))
                    (bound_at (nth j (upper P) BNone) XPInf (nth j (vmode P) Linear) (nth j (vtimes P) [])))).
Proof.
  intros P m j h Hh. split.
  - intros v Hv Hl Wl Wu. eapply history_pin; eauto.
  - intros Hn. eapply history_nan_no_pin; eauto.
Qed.
Print Assumptions C05_history_pin.

(* two or more history points pin the initial derivative to their backward difference: as a bound
   pin when the t0 value is known, as an equality row when it is not *)
Theorem C05_initial_derivative :
  forall P m j h ta tb va,
    hist_of P m j = Some h -> last2 (h_times h) = Some (ta, tb) ->
    (forall vb, last2 (h_vals h) = Some (XFin va, XFin vb) ->
       idr_bounds P m j = (XFin (((vb - va) / (t0 P - ta)) / idr_nominal P j),
                           XFin (((vb - va) / (t0 P - ta)) / idr_nominal P j))) /\
    (forall X, last2 (h_vals h) = Some (XFin va, XNaN) ->
       idr_bounds P m j = (XNInf, XPInf) /\
       ((j < ns P)%nat ->
        In (idr_nominal P j * xget X (idr_index P m j) - (cval P X m j 0 - va) / (t0 P - ta))
           (init_der_rows P X m))).
Proof.
  intros P m j h ta tb va Hh Ht. split.
  - intros vb Hv. eapply init_der_pin; eauto.
  - intros X Hv. eapply init_der_row; eauto.
Qed.
Print Assumptions C05_initial_derivative.

Example C05_nonvacuous :
  let P := {| times := [0; 1; 3]; theta := 1; nE := 1; ns := 1; na := 0; nc := 0; npv := 0; nev := 0;
              vtimes := [[0; 1; 3]]; vmode := [Linear]; nom := [4]; nom_pv := []; nom_ev := [];
              cin := [[]]; par := [[]]; prob := [1];
              lower := [BSeries [1; 3] [-8; -4]]; upper := [BScalar XPInf];
              lower_pv := []; upper_pv := []; lower_ev := []; upper_ev := [];
              history := [[Some {| h_times := [-2; 0]; h_vals := [XFin 1; XFin 6] |}]] |} in
  wf_bounds P /\
  (* x(t0) pinned to 6/4; bounds -8/4 at t=1 and -4/4 at t=3 from the Timeseries; the initial
     derivative pinned to ((6-1)/2) / (4/2) = 5/4 *)
  ser_bounds (x_bounds P) =
    [4; 3; 3; 2; 3; 3; 2;  3; -2; 1; 2;  3; -1; 1; 2;  3; 5; 4; 3; 5; 4]%Z.
Proof.
  cbn zeta. split.
  - unfold wf_bounds. split; [|split]; intros k; destruct k as [|[|k]]; cbn; auto.
  - vm_compute. reflexivity.
Qed.
Print Assumptions C05_nonvacuous.
