(* C10 — a failed priority stops the run and leaves the last good results.  Statements only. *)
From Coq Require Import ZArith QArith List Bool Arith Sorting.Sorted.
From RT Require Import GpLoop GpLoopSpec GpLoop_proofs.
Import ListNotations.
Open Scope Z_scope.

(* Priorities: ascending, each once, exactly the int(priority) of the non-empty goals. *)
Theorem C10_priorities_sorted_unique :
  forall goals, StronglySorted Z.lt (prios goals).
Proof. exact prios_sorted. Qed.
Print Assumptions C10_priorities_sorted_unique.

Theorem C10_empty_goals_create_no_priority :
  forall goals p,
    In p (prios goals) <-> exists g, In g goals /\ g_empty g = false /\ prio_int (g_prio g) = p.
Proof. exact prios_in. Qed.
Print Assumptions C10_empty_goals_create_no_priority.

(* The whole observable behaviour in closed form, for every goal list and every oracle: with
   k = index of the first failing solve (or the number of priorities if none fails), the trace is
   Started/Solve ok/Completed for the first k priorities, then Started/Solve fail for priority k if
   there is one, then post() exactly once; optimize() returns True iff there is at least one
   priority and none failed; the results exposed afterwards are those of solve k-1 (the last
   completed priority), or of the raw first attempt if nothing completed. *)
Theorem C10_run_is_spec :
  forall goals oracle, run goals oracle = spec_outcome goals oracle.
Proof. exact run_is_spec. Qed.
Print Assumptions C10_run_is_spec.

(* spelled out: attempted priorities are a prefix of the ascending list; completed ones are the
   prefix before the first failure *)
Theorem C10_stop_at_first_failure :
  forall goals oracle,
    let ps := prios goals in
    let k := first_fail oracle 0 (length ps) in
    started (trace (run goals oracle)) = firstn (Nat.min (S k) (length ps)) ps /\
    completed (trace (run goals oracle)) = firstn k ps /\
    (forall j, (j < k)%nat -> oracle j = true) /\
    ((k < length ps)%nat -> oracle k = false) /\
    (ret (run goals oracle) = true <-> ps <> [] /\ forall j, (j < length ps)%nat -> oracle j = true).
Proof.
  intros goals oracle ps k. rewrite run_is_spec. unfold spec_outcome. cbn [trace ret].
  fold ps. fold k.
  assert (Hk : (k <= length ps)%nat) by apply first_fail_le.
  destruct (started_spec ps k Hk) as (H1 & H2).
  repeat split; auto.
  - intros j Hj. exact (first_fail_prefix oracle (length ps) 0 j Hj).
  - intros Hlt. exact (first_fail_fails oracle (length ps) 0 Hlt).
  - unfold spec_ret in H. destruct ps; [discriminate|discriminate].
  - unfold spec_ret in H. destruct ps as [|p t] eqn:E; [discriminate|].
    apply Nat.eqb_eq in H. apply (first_fail_all oracle (length (p :: t)) 0). exact H.
  - intros (Hne & Hall). unfold spec_ret. destruct ps as [|p t] eqn:E; [congruence|].
    apply Nat.eqb_eq. apply (first_fail_all oracle (length (p :: t)) 0). exact Hall.
Qed.
Print Assumptions C10_stop_at_first_failure.

(* non-vacuity: priorities 3, 1, 2.5 (-> 2), one empty goal at 7; the middle solve fails *)
Example C10_nonvacuous :
  let goals := [ {| g_prio := 3; g_empty := false |}; {| g_prio := 1; g_empty := false |};
                 {| g_prio := 5 # 2; g_empty := false |}; {| g_prio := 7; g_empty := true |} ] in
  prios goals = [1; 2; 3] /\
  run goals (oracle_of [true; false; true]) =
    {| trace := [Started 1; Solve 1 true; Completed 1; Started 2; Solve 2 false; Post];
       ret := false; exposed := Some 0%nat |}.
Proof. vm_compute. split; reflexivity. Qed.
Print Assumptions C10_nonvacuous.
