(* C01 — transcribed dynamics are exactly the theta-method discretisation.  Statements only. *)
From Coq Require Import ZArith QArith List Bool Arith.
From RT Require Import Xq Interp Expr Transcribe Transcribe_proofs.
Import ListNotations.
Open Scope Q_scope.

(* The slots of all controls (shared) and of every member's states, algebraics, path and extra
   variables and initial derivatives, listed in layout order, are exactly 0 .. |X|-1: no two
   quantities share an entry (other than the shared controls), none is missing. *)
Theorem C01_layout_partition : forall P, all_slots P = seq 0 (xsize P).
Proof. exact layout_partition. Qed.
Print Assumptions C01_layout_partition.

(* For every residual F (linear or not), every grid, theta, nominal vector and X: the rows of step
   i are (1-theta) F(z_i, zdot, c_i, p_m, t_i - t0) + theta F(z_{i+1}, zdot, c_{i+1}, p_m, t_{i+1} - t0)
   with z in physical units (cval = nominal * X), zdot = (z_{i+1} - z_i)/(t_{i+1} - t_i) (fd_at) and
   member m's own parameters and constant inputs (res0 / res1); the theta = 0 and theta = 1
   shortcuts taken by the code are instances. *)
Theorem C01_rows_are_theta_method :
  forall F neq, (forall v d c p t, length (F v d c p t) = neq) ->
  forall P X m i,
    Forall2 Qeq (step_rows F P X m i) (blend (theta P) (res0 F P X m i) (res1 F P X m i)).
Proof. intros F neq H P X m i. eapply step_rows_is_theta_blend; eauto. Qed.
Print Assumptions C01_rows_are_theta_method.

Theorem C01_blend_entry :
  forall th r0 r1 e, (e < length r0)%nat -> (e < length r1)%nat ->
    nth e (blend th r0 r1) 0 = (1 - th) * nth e r0 0 + th * nth e r1 0.
Proof. intros. now apply blend_nth. Qed.
Print Assumptions C01_blend_entry.

(* No step and no equation is skipped, nothing else is added: (n-1)*|F| collocation rows per
   member, row e of step i at position i*|F| + e; |F| + |F0| initial rows per member. *)
Theorem C01_nothing_skipped :
  forall F F0 neq neq0,
    (forall v d c p t, length (F v d c p t) = neq) ->
    (forall v d c p t, length (F0 v d c p t) = neq0) ->
    forall P X m,
      length (collocation_rows F P X m) = ((nt P - 1) * neq)%nat /\
      length (initial_rows F F0 P X m) = (neq + neq0)%nat /\
      (forall i e, (i < nt P - 1)%nat -> (e < neq)%nat ->
         nth (i * neq + e) (collocation_rows F P X m) 0 = nth e (step_rows F P X m i) 0).
Proof.
  intros F F0 neq neq0 HF HF0 P X m. repeat split.
  - eapply collocation_rows_length; eauto.
  - eapply initial_rows_length; eauto.
  - intros i e Hi He. eapply collocation_row_position; eauto.
Qed.
Print Assumptions C01_nothing_skipped.

(* F = 0 (and the initial equations) at t0 with the free initial derivatives *)
Theorem C01_initial_rows :
  forall F F0 P X m,
    initial_rows F F0 P X m =
      F (vars_at P X m 0) (init_ders P X m) (cin_at P m 0) (par_of P m) 0 ++
      F0 (vars_at P X m 0) (init_ders P X m) (cin_at P m 0) (par_of P m) 0 /\
    (forall j, (j < ns P)%nat ->
       nth j (init_ders P X m) 0 = idr_nominal P j * xget X (idr_index P m j)).
Proof.
  intros F F0 P X m. split; [reflexivity|]. intros j Hj. now apply init_ders_free.
Qed.
Print Assumptions C01_initial_rows.

(* non-vacuity: 2 members, 3 non-equidistant stamps, theta = 1/4, one state x with der(x) = p*x + u *)
Example C01_nonvacuous :
  let P := {| times := [1; 2; 9 # 2]; theta := 1 # 4; nE := 2; ns := 1; na := 0; nc := 1; npv := 0; nev := 0;
              vtimes := [[1; 2; 9 # 2]; [1; 2; 9 # 2]]; vmode := [Linear; Linear]; nom := [2; 1];
              nom_pv := []; nom_ev := []; cin := [[]; []]; par := [[1]; [5]]; prob := [1 # 2; 1 # 2];
              lower := [BNone; BNone]; upper := [BNone; BNone]; lower_pv := []; upper_pv := [];
              lower_ev := []; upper_ev := []; history := [[None; None]; [None; None]] |} in
  let F := F_of [ESub (EV 2) (EAdd (EMul (EV 4) (EV 0)) (EV 1))] in
  xsize P = 11%nat /\
  (* member 1, step 1 -> 2 (dt = 5/2), X = 0..10: x_1 = 2*X[8], x_2 = 2*X[9], u_1 = X[1], u_2 = X[2], p = 5 *)
  Forall2 Qeq (step_rows F P (map inject_Z [0;1;2;3;4;5;6;7;8;9;10]%Z) 1 1)
    [ (1 - (1 # 4)) * ((2 * 9 - 2 * 8) / ((9 # 2) - 2) - (5 * (2 * 8) + 1)) +
      (1 # 4) * ((2 * 9 - 2 * 8) / ((9 # 2) - 2) - (5 * (2 * 9) + 2)) ].
Proof. cbn zeta. split; [reflexivity|]. vm_compute. repeat constructor. Qed.
Print Assumptions C01_nonvacuous.
