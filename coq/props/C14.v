(* C14 — Modelica declarations are honoured: bounds, nominal, start, fixed, types, roles. *)
From Coq Require Import ZArith QArith Qabs List Bool.
From RT Require Import Xq Expr Modelica Xq_proofs Modelica_proofs.
Import ListNotations.
Open Scope Q_scope.

(* min/max, with parameter values substituted, are intersected with the bounds from other sources:
   a value is admitted exactly when both intervals admit it *)
Theorem C14_bounds_are_intersected :
  forall par v lo hi x, nn lo -> nn hi ->
    (within x (bounds_of par v (Some (lo, hi))) <-> within x (lo, hi) /\ within x (declared par v)).
Proof. exact bounds_intersection. Qed.
Print Assumptions C14_bounds_are_intersected.

Theorem C14_bounds_all_sources_intersected :
  forall par v lo hi flo fhi x, nn lo -> nn hi -> nn flo -> nn fhi ->
    (within x (final_bounds par v (Some (lo, hi)) (Some (flo, fhi))) <->
     within x (lo, hi) /\ within x (declared par v) /\ within x (flo, fhi)).
Proof. exact final_bounds_intersection. Qed.
Print Assumptions C14_bounds_all_sources_intersected.

(* without other sources the declared interval is what remains; Booleans default to [0, 1] *)
Theorem C14_declared_bounds_alone :
  forall par v x, mv_type v <> TBoolean -> (within x (bounds_of par v None) <-> within x (declared par v)).
Proof. exact bounds_only_declared. Qed.
Print Assumptions C14_declared_bounds_alone.

Theorem C14_boolean_default_bounds :
  forall par v, mv_type v = TBoolean -> mv_min v = None -> mv_max v = None ->
    bounds_of par v None = (XFin 0, XFin 1).
Proof. exact bounds_boolean_default. Qed.
Print Assumptions C14_boolean_default_bounds.

(* a fixed start value of a state is its initial condition, and nothing else produces one *)
Theorem C14_fixed_start_is_initial_condition :
  forall par v e, mv_kind v = KState -> mv_fixed v = true -> mv_start v = Some e ->
    history_final par v None = Some (eval par e).
Proof. exact fixed_start_is_initial_condition. Qed.
Print Assumptions C14_fixed_start_is_initial_condition.

Theorem C14_initial_condition_only_when_fixed :
  forall par v, history_of par v <> None <-> mv_kind v = KState /\ mv_fixed v = true.
Proof. exact history_only_when_fixed_state. Qed.
Print Assumptions C14_initial_condition_only_when_fixed.

(* a seed comes from the start attribute exactly for non-fixed, non-zero start values of
   states / algebraic variables, and is that value *)
Theorem C14_seed_rule :
  forall par v s,
    seed_of par v = Some s <->
    mv_kind v <> KInput /\ mv_fixed v = false /\
    exists e, mv_start v = Some e /\ ~ eval par e == 0 /\ s = eval par e.
Proof. exact seed_rule. Qed.
Print Assumptions C14_seed_rule.

Theorem C14_start_is_seed_or_initial_condition_not_both :
  forall par v, seed_of par v = None \/ history_of par v = None.
Proof. exact seed_history_exclusive. Qed.
Print Assumptions C14_start_is_seed_or_initial_condition_not_both.

(* nominal: a positive magnitude, |nominal| whenever that is not 0 *)
Theorem C14_nominal_positive : forall par v, 0 < nominal_of par v.
Proof. exact nominal_positive. Qed.
Print Assumptions C14_nominal_positive.

Theorem C14_nominal_is_magnitude :
  forall par v e, mv_nominal v = Some e -> ~ Qabs (eval par e) == 0 -> nominal_of par v == Qabs (eval par e).
Proof. exact nominal_is_magnitude. Qed.
Print Assumptions C14_nominal_is_magnitude.

(* types and roles *)
Theorem C14_discrete_iff_not_real : forall v, discrete_of v = true <-> mv_type v <> TReal.
Proof. exact discrete_iff_not_real. Qed.
Print Assumptions C14_discrete_iff_not_real.

Theorem C14_control_iff_non_fixed_input :
  forall v, role_of v = RControl <-> mv_kind v = KInput /\ mv_fixed v = false.
Proof. exact control_iff. Qed.
Print Assumptions C14_control_iff_non_fixed_input.

Theorem C14_constant_input_iff_fixed_input :
  forall v, role_of v = RConstantInput <-> mv_kind v = KInput /\ mv_fixed v = true.
Proof. exact constant_input_iff. Qed.
Print Assumptions C14_constant_input_iff_fixed_input.

Theorem C14_exported_iff_output_or_control :
  forall v, exported v = true <-> mv_output v = true \/ role_of v = RControl.
Proof. exact exported_iff. Qed.
Print Assumptions C14_exported_iff_output_or_control.

(* parameter values: code overrides the parameter file, which overrides the model *)
Theorem C14_parameter_override_chain :
  forall model file code,
    param_value model file code =
    match code, file with Some c, _ => c | None, Some f => f | None, None => model end.
Proof. exact param_chain. Qed.
Print Assumptions C14_parameter_override_chain.

(* simulation: which initial value is used and whether it is imposed *)
Theorem C14_sim_fixed_start_imposed :
  forall start i s, sim_start start true i s = (if Qeq_bool start 0 then SrcDefault else SrcModelica, start, true).
Proof. exact sim_fixed. Qed.
Print Assumptions C14_sim_fixed_start_imposed.

Theorem C14_sim_initial_state_imposed :
  forall start i s, sim_start start false (Some i) s =
    if Qeq_bool start 0 then (SrcInitialState, i, true) else (SrcModelica, start, true).
Proof. exact sim_initial_state. Qed.
Print Assumptions C14_sim_initial_state_imposed.

Theorem C14_sim_seed_is_a_guess :
  forall start s, sim_start start false None (Some s) = (SrcSeed, s, false).
Proof. exact sim_seed. Qed.
Print Assumptions C14_sim_seed_is_a_guess.
