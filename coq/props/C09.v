(* C09 — simulation steps satisfy the backward-Euler model equations. *)
From Coq Require Import ZArith QArith List Bool Arith.
From RT Require Import Xq Interp Expr Transcribe Sim Sim_proofs.
Import ListNotations.
Open Scope Q_scope.

(* any root of the residual handed to the rootfinder in update() satisfies all model equations at
   t + dt with the inputs of t + dt, and every derivative is (x(t+dt) - x(t))/dt *)
Theorem C09_root_is_step :
  forall eqs x_new x_old der alg inp par t dt,
    Forall (fun r => r == 0) (step_residual eqs x_new x_old der alg inp par t dt) ->
    Forall (fun r => r == 0) (evals (sim_env x_new der alg inp par t) eqs) /\
    forall k, (k < length x_new)%nat -> qnth der k == (qnth x_new k - qnth x_old k) / dt.
Proof. exact root_is_step. Qed.
Print Assumptions C09_root_is_step.

(* simulation and optimisation define the same trajectories: the simulator's model rows with the
   derivatives replaced by the difference quotients are the theta = 1 rows of the transcription *)
Theorem C09_equals_collocation_theta1 :
  forall (F : list Q -> list Q -> list Q -> list Q -> Q -> list Q) P X m i der,
    theta P == 1 -> ~ theta P == 0 -> der = fd_at P X m i ->
    F (vars_at P X m (S i)) der (cin_at P m (S i)) (par_of P m) (qnth (times P) (S i) - t0 P) =
    step_rows F P X m i.
Proof.
  intros F P X m i der H1 H0 Hd. rewrite (theta1_step_is_res1 F P X m i H1 H0).
  now apply sim_rows_are_theta1_rows.
Qed.
Print Assumptions C09_equals_collocation_theta1.

(* outputs are recorded at every step including t0; a step that cannot be solved raises *)
Theorem C09_outputs_every_step :
  (forall k, outputs_recorded (repeat (SimUpdate true) k ++ [SimInit]) = Some (S k)) /\
  (forall pre post, outputs_recorded (pre ++ SimUpdate false :: post) = None).
Proof. split; [exact outputs_every_step | exact failed_step_raises]. Qed.
Print Assumptions C09_outputs_every_step.

(* C16 in simulation: for (n-1) dt < tau <= n dt the buffer combination is the linear interpolation
   of the delayed expression at t - tau; tau = 0 is the identity *)
Theorem C09_delay_weight :
  (forall n tau dt t e_nm1 e_n, 0 < dt ->
     delayed_value n tau dt e_nm1 e_n ==
     e_n + (e_nm1 - e_n) * (((t - tau) - (t - inject_Z (Z.of_nat n) * dt)) / dt)) /\
  (forall n tau dt, 0 < dt -> (inject_Z (Z.of_nat n) - 1) * dt < tau -> tau <= inject_Z (Z.of_nat n) * dt ->
     0 <= delay_weight n tau dt /\ delay_weight n tau dt < 1) /\
  (forall tau dt e_nm1 e_n, 0 < dt -> tau == 0 -> delayed_value 1 tau dt e_nm1 e_n == e_nm1).
Proof.
  split; [|split].
  - intros. now apply delay_weight_is_linear_interpolation.
  - intros. now apply delay_weight_range.
  - intros. now apply zero_delay_identity.
Qed.
Print Assumptions C09_delay_weight.

Example C09_nonvacuous :
  (* der(x) = -x + u with x_old = 1, u = 3, dt = 1/2: x_new = (1 + 3/2)/(3/2) = 5/3, der = 4/3 *)
  Forall (fun r => r == 0)
         (step_residual [ESub (EV 1) (EAdd (ENeg (EV 0)) (EV 2))] [5 # 3] [1] [4 # 3] [] [3] [] 0 (1 # 2)).
Proof. vm_compute. repeat constructor. Qed.
Print Assumptions C09_nonvacuous.
