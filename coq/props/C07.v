(* C07 — ensemble members are isolated; controls are shared exactly per scenario tree. *)
From Coq Require Import ZArith QArith List Bool Arith Permutation.
From RT Require Import Xq Interp Expr Transcribe Transcribe_proofs ControlTree ControlTree_proofs ControlTree_coincide Delay Delay_iso.
Import ListNotations.
Open Scope Q_scope.

(* member m's dynamics, initial conditions, path constraints and path objective read the decision
   vector only at member m's own slots and at the control slots ... *)
Theorem C07_reads_only_own_slots :
  forall P m X X' F F0 PathObj PathCon,
    agree_on (control_slots P ++ member_slots P m) X X' -> (0 < nt P)%nat ->
    collocation_rows F P X m = collocation_rows F P X' m /\
    initial_rows F F0 P X m = initial_rows F F0 P X' m /\
    init_der_rows P X m = init_der_rows P X' m /\
    path_rows PathCon P X m = path_rows PathCon P X' m /\
    (forall i, (i < nt P)%nat -> path_env_obj PathObj P X m i = path_env_obj PathObj P X' m i).
Proof. intros. now apply member_rows_agree. Qed.
Print Assumptions C07_reads_only_own_slots.

(* ... and different members' own slots are disjoint *)
Theorem C07_member_blocks_disjoint :
  forall P m m' k, m <> m' -> In k (member_slots P m) -> In k (member_slots P m') -> False.
Proof. exact member_blocks_disjoint. Qed.
Print Assumptions C07_member_blocks_disjoint.

(* no other member's parameters, constant inputs or history enter (member 0's history fixes the
   scaling of the initial-derivative variables of all members, nothing else) *)
Theorem C07_data_isolated :
  forall F F0 PathObj PathCon P P' m X,
    same_shape P P' -> same_member_data m P P' ->
    collocation_rows F P X m = collocation_rows F P' X m /\
    initial_rows F F0 P X m = initial_rows F F0 P' X m /\
    init_der_rows P X m = init_der_rows P' X m /\
    path_rows PathCon P X m = path_rows PathCon P' X m /\
    (forall i, path_env_obj PathObj P X m i = path_env_obj PathObj P' X m i).
Proof. intros. now apply member_data_isolated. Qed.
Print Assumptions C07_data_isolated.

(* default discretisation: all members share every control at every time *)
Theorem C07_default_sharing :
  forall P m m' j, (nsa P <= j)%nat -> var_start P m j = var_start P m' j.
Proof. exact controls_shared. Qed.
Print Assumptions C07_default_sharing.

(* ControlTreeMixin: whatever the forecasts (distances) and the branching factor, the children of a
   branch partition its members - every member follows exactly one child, no member is lost or shared *)
Theorem C07_children_partition :
  forall k (d : nat -> nat -> Q) members, NoDup members -> members <> [] -> (0 < k)%nat ->
    Permutation (concat (children k d members)) members.
Proof. exact children_partition. Qed.
Print Assumptions C07_children_partition.

Theorem C07_children_cover :
  forall k d members m, NoDup members -> members <> [] -> (0 < k)%nat ->
    (In m members <-> exists c, In c (children k d members) /\ In m c).
Proof. exact children_cover. Qed.
Print Assumptions C07_children_cover.

(* members whose forecasts coincide on the segment deciding the children of a branch (distance 0 to each
   other, equal distances to every member; the distance is symmetric and non-negative, as sums of norms
   are) end up in one and the same child, whatever k, the other members and the ties *)
Theorem C07_coinciding_same_child :
  forall k (d : nat -> nat -> Q),
    (forall x y, d x y == d y x) -> (forall x y, 0 <= d x y) ->
    forall members a b,
      NoDup members -> (0 < k)%nat -> In a members -> In b members ->
      d a b == 0 -> (forall c, d a c == d b c) ->
      exists c, In c (children k d members) /\ In a c /\ In b c.
Proof. exact coinciding_same_child. Qed.
Print Assumptions C07_coinciding_same_child.

(* ... and over the whole tree: members that coincide on all segments deciding the branches of depth < D
   are not separated by any branch of depth <= D (every such branch holds both or neither) *)
Theorem C07_not_separated_before :
  forall k (dist : nat -> nat -> nat -> Q) nbt, (0 < k)%nat ->
    (forall L x y, dist L x y == dist L y x) -> (forall L x y, 0 <= dist L x y) ->
    forall fuel path members a b D pc,
      NoDup members -> In a members -> In b members ->
      (forall L, (length path <= L)%nat -> (L < D)%nat -> dist L a b == 0 /\ forall c, dist L a c == dist L b c) ->
      In pc (build k dist nbt fuel path members) -> (length (fst pc) <= D)%nat ->
      (In a (snd pc) <-> In b (snd pc)).
Proof. exact tree_never_separates. Qed.
Print Assumptions C07_not_separated_before.

(* non-vacuity: three members, 0 and 2 with the same forecast, k = 3 (a spare child): 0 and 2 share a child *)
Example C07_coinciding_nonvacuous :
  let d := fun a b : nat => if Nat.eqb (Nat.modulo a 2) (Nat.modulo b 2) then 0 else 1 in
  children 3 d [0; 1; 2]%nat = [[0; 2]; [1]; []]%nat.
Proof. vm_compute. reflexivity. Qed.
Print Assumptions C07_coinciding_nonvacuous.

(* ... and so are the delayed-feedback rows: member m's rows are built from member m's own parameters (delay
   durations included), constant inputs and history *)
Theorem C07_delay_rows_isolated :
  forall P P' m X d, same_shape P P' -> same_member_data m P P' -> delay_rows P X m d = delay_rows P' X m d.
Proof. exact delay_rows_isolated. Qed.
Print Assumptions C07_delay_rows_isolated.
