(* C19 — interpolation and bound merging for every input shape.  Statements only. *)
From Coq Require Import ZArith QArith List Bool.
From RT Require Import Xq Interp MergeBounds Interp_proofs MergeBounds_proofs.
Import ListNotations.
Open Scope Q_scope.

(* wfk ts fs: strictly increasing non-empty knot vector, one value per knot *)

(* exact at the knots, in every mode, whatever the fill values *)
Theorem C19_exact_at_knots :
  forall m ts fs fl fr i t, wfk ts fs -> (i < length ts)%nat -> t == nth i ts 0 ->
    exists x, interp_scalar m ts fs fl fr t = Val x /\ xsame x (XFin (nth i fs 0)).
Proof. exact interp_scalar_knot. Qed.
Print Assumptions C19_exact_at_knots.

(* strictly between two knots: linear / previous value / next value *)
Theorem C19_between_knots :
  forall m ts fs fl fr i t,
    wfk ts fs -> (S i < length ts)%nat -> nth i ts 0 < t -> t < nth (S i) ts 0 ->
    interp_scalar m ts fs fl fr t =
    Val (XFin match m with
              | Linear => nth i fs 0 + (nth (S i) fs 0 - nth i fs 0) *
                                       ((t - nth i ts 0) / (nth (S i) ts 0 - nth i ts 0))
              | Forward => nth i fs 0
              | Backward => nth (S i) fs 0
              end).
Proof. exact interp_scalar_between. Qed.
Print Assumptions C19_between_knots.

(* outside the range: the given fill value, or an exception when it is None *)
Theorem C19_fills_outside :
  forall m ts fs fl fr t, hdq ts <= lastq ts ->
    (t < hdq ts -> interp_scalar m ts fs fl fr t = match fl with None => Raise | Some x => Val x end) /\
    (lastq ts < t -> interp_scalar m ts fs fl fr t = match fr with None => Raise | Some x => Val x end).
Proof.
  intros m ts fs fl fr t H. split; intros Ht.
  - now apply interp_scalar_left.
  - now apply interp_scalar_right.
Qed.
Print Assumptions C19_fills_outside.

(* the early exits return what the general path computes *)
Theorem C19_early_exit_sound :
  forall m ts fs fl fr, wfk ts fs ->
    (forall t, hdq ts == t ->
       exists x, core1 m ts fs fl fr t = Val x /\ xsame x (XFin (hdq fs))) /\
    (forall tq, list_eqb tq ts = true ->
       exists l, core_array m ts fs fl fr tq = Val l /\ Forall2 xsame l (map XFin fs)).
Proof.
  intros m ts fs fl fr W. split.
  - intros t. now apply early_exit_scalar_sound.
  - intros tq. now apply early_exit_array_sound.
Qed.
Print Assumptions C19_early_exit_sound.

(* arrays are interpolated entry by entry, 2-D values column by column *)
Theorem C19_arraywise_columnwise :
  forall m ts fl fr tq,
    (forall fs l, list_eqb tq ts = false -> interp_array m ts fs fl fr tq = Val l ->
       l = map (core_val m ts fs fl fr) tq /\ forall t, In t tq -> out_of_range ts fl fr t = false) /\
    (forall cols r, interp_2d m ts cols fl fr tq = Val r ->
       Forall2 (fun col rc => interp_array m ts col fl fr tq = Val rc) cols r).
Proof.
  intros m ts fl fr tq. split.
  - intros fs l. apply interp_array_pointwise.
  - intros cols r. apply interp_2d_columnwise.
Qed.
Print Assumptions C19_arraywise_columnwise.

(* numeric and symbolic (interp1d: clamped) interpolators agree inside the knot range, and
   outside it when the fills are the end values *)
Theorem C19_numeric_eq_symbolic :
  forall m ts fs, wfk ts fs ->
    (forall fl fr t, hdq ts <= t -> t <= lastq ts ->
       xsame (core_val m ts fs fl fr t) (XFin (interp1d m ts fs t))) /\
    (forall t, hdq ts <= lastq ts -> t < hdq ts \/ lastq ts < t ->
       xsame (core_val m ts fs (Some (XFin (hdq fs))) (Some (XFin (lastq fs))) t)
             (XFin (interp1d m ts fs t))).
Proof.
  intros m ts fs W. split.
  - intros fl fr t. now apply numeric_eq_symbolic_inside.
  - intros t. apply numeric_eq_symbolic_outside.
Qed.
Print Assumptions C19_numeric_eq_symbolic.

(* merge_bounds: at every position of the result, the lower bound is the maximum and the upper
   bound the minimum of the two (broadcast) operands; numpy's NaN-propagating operators except
   for two plain scalars, where Python's max/min are used *)
Theorem C19_merge_pointwise :
  forall a A b B lo hi, merge_bounds a A b B = MOk lo hi ->
    (forall i j, in_shape lo i j ->
       bget lo i j = (if both_num (norm1 a) (norm1 b) then pymax else npmax)
                       (bget (norm1 a) i j) (bget (norm1 b) i j)) /\
    (forall i j, in_shape hi i j ->
       bget hi i j = (if both_num (norm1 A) (norm1 B) then pymin else npmin)
                       (bget (norm1 A) i j) (bget (norm1 B) i j)).
Proof. exact merge_pointwise. Qed.
Print Assumptions C19_merge_pointwise.

(* those operators are max / min (absent NaN) and symmetric *)
Theorem C19_merge_operators :
  forall a b, is_nan a = false -> is_nan b = false ->
    xmax_spec a b (npmax a b) /\ xmin_spec a b (npmin a b) /\
    pymax a b = npmax a b /\ pymin a b = npmin a b /\
    xsame (npmax a b) (npmax b a) /\ xsame (npmin a b) (npmin b a).
Proof.
  intros a b Ha Hb. repeat split;
    try apply npmax_is_max; try apply npmin_is_min; auto using pymax_npmax, pymin_npmin, npmax_comm, npmin_comm.
  all: try (destruct (npmax_is_max a b Ha Hb) as (?&?&?); assumption).
  all: try (destruct (npmin_is_min a b Ha Hb) as (?&?&?); assumption).
Qed.
Print Assumptions C19_merge_operators.

(* rejection does not depend on the argument order *)
Theorem C19_merge_rejects_symmetric :
  forall f g a b, side f g a b = None <-> side f g b a = None.
Proof. exact side_reject_sym. Qed.
Print Assumptions C19_merge_rejects_symmetric.

Example C19_nonvacuous :
  let ts := [0; 1; 5 # 2] in let fs := [1; 3; -2] in
  wfk ts fs /\
  interp_scalar Forward ts fs None None (3 # 2) = Val (XFin 3) /\
  interp_scalar Backward ts fs None None (3 # 2) = Val (XFin (-2)) /\
  interp_scalar Linear ts fs None (Some XNaN) 3 = Val XNaN /\
  interp_scalar Linear ts fs None None 3 = Raise.
Proof.
  cbn zeta. split; [|vm_compute; auto].
  unfold wfk. cbn. repeat split; try reflexivity; discriminate.
Qed.
Print Assumptions C19_nonvacuous.

Example C19_nonvacuous_merge :
  merge_bounds (BNum (XFin 1)) (BVec [XFin 5; XPInf]) (BTs [0; 1] [XFin 0; XFin 2]) (BNum (XFin 4))
  = MOk (BTs [0; 1] [XFin 1; XFin 2]) (BVec [XFin 4; XFin 4]).
Proof. vm_compute. reflexivity. Qed.
Print Assumptions C19_nonvacuous_merge.
