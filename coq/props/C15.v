(* C15 — trajectory accessors agree with each other and with the extracted results. *)
From Coq Require Import ZArith QArith List Bool Arith.
From RT Require Import Xq Interp Expr Transcribe Accessors Interp_proofs Accessors_proofs.
Import ListNotations.
Open Scope Q_scope.

(* at its own i-th time stamp the value of a variable is its i-th extracted result (for every
   interpolation mode, nominal, member, and whether or not extrapolation is allowed) *)
Theorem C15_state_at_knot_is_result :
  forall P X m j, incr (jtimes P j) -> jtimes P j <> [] -> hd 0 (jtimes P j) == t0 P ->
  forall i t extrapolate, (i < vlen P j)%nat -> t == nth i (jtimes P j) 0 ->
    exists v, state_at P X m j t false extrapolate = AVal (XFin v) /\ v == nth i (results P X m j) 0.
Proof. intros P X m j H1 H2 H3 i t e. now apply state_at_knot_is_result. Qed.
Print Assumptions C15_state_at_knot_is_result.

(* between two stamps: linear / previous / next value according to the variable's method *)
Theorem C15_state_at_between :
  forall P X m j, incr (jtimes P j) -> jtimes P j <> [] -> hd 0 (jtimes P j) == t0 P ->
  forall i t, (S i < vlen P j)%nat -> nth i (jtimes P j) 0 < t -> t < nth (S i) (jtimes P j) 0 ->
    state_at P X m j t false true =
    AVal (XFin (qnth (nom P) j *
                match jmode P j with
                | Linear => xget X (var_start P m j + i) +
                            (xget X (var_start P m j + S i) - xget X (var_start P m j + i)) *
                            ((t - nth i (jtimes P j) 0) / (nth (S i) (jtimes P j) 0 - nth i (jtimes P j) 0))
                | Forward => xget X (var_start P m j + i)
                | Backward => xget X (var_start P m j + S i)
                end)).
Proof. intros P X m j H1 H2 H3 i t. now apply state_at_between. Qed.
Print Assumptions C15_state_at_between.

(* after the end of the horizon with extrapolate=False: an exception, not a value *)
Theorem C15_state_at_outside_raises :
  forall P X m j, incr (jtimes P j) -> jtimes P j <> [] -> hd 0 (jtimes P j) == t0 P ->
  forall t, last (jtimes P j) 0 < t -> state_at P X m j t false false = ARaise.
Proof. intros P X m j H1 H2 H3 t. now apply state_at_outside_raises. Qed.
Print Assumptions C15_state_at_outside_raises.

(* derivative: the dedicated initial derivative at t0 (the one the transcription uses), the
   backward difference quotient of the values afterwards *)
Theorem C15_der_at :
  forall P X m j,
    ((j < ns P)%nat -> der_at P X m j (t0 P) = AVal (XFin (nth j (init_ders P X m) 0))) /\
    (forall i t, incr (jtimes P j) -> (S i < vlen P j)%nat -> t0 P < t ->
       nth i (jtimes P j) 0 < t -> t <= nth (S i) (jtimes P j) 0 -> ~ t == hd 0 (jtimes P j) ->
       der_at P X m j t =
       AVal (XFin ((acc_q (state_at P X m j (nth (S i) (jtimes P j) 0) false true) -
                    acc_q (state_at P X m j (nth i (jtimes P j) 0) false true)) /
                   (nth (S i) (jtimes P j) 0 - nth i (jtimes P j) 0)))).
Proof.
  intros P X m j. split.
  - apply der_at_t0_state.
  - intros i t. apply der_at_backward_difference.
Qed.
Print Assumptions C15_der_at.

(* integral over the variable's whole horizon: the trapezoid rule over its stamps and results *)
Theorem C15_integral_trapezoid :
  forall P X m j, incr (jtimes P j) -> (2 <= vlen P j)%nat ->
    integral P X m j (hd 0 (jtimes P j)) (last (jtimes P j) 0) =
    trapz (combine (jtimes P j) (results P X m j)).
Proof. exact integral_full_horizon. Qed.
Print Assumptions C15_integral_trapezoid.

(* an expression mapped over the horizon is the expression evaluated stamp by stamp on the same
   environments the transcription uses (C06) *)
Theorem C15_map_path_expression :
  forall P X m e i, (i < nt P)%nat ->
    nth i (map_path P X m e) 0 = path_env_obj (PathObj_of e) P X m i.
Proof. exact map_path_rows. Qed.
Print Assumptions C15_map_path_expression.

Example C15_nonvacuous :
  let P := {| times := [0; 1; 3]; theta := 1; nE := 1; ns := 1; na := 0; nc := 0; npv := 0; nev := 0;
              vtimes := [[0; 1; 3]]; vmode := [Linear]; nom := [2]; nom_pv := []; nom_ev := [];
              cin := [[]]; par := [[]]; prob := [1]; lower := [BNone]; upper := [BNone];
              lower_pv := []; upper_pv := []; lower_ev := []; upper_ev := []; history := [[None]] |} in
  let X := [1; 2; 5; 7] in
  results P X 0 0 = [2 * 1; 2 * 2; 2 * 5] /\
  integral P X 0 0 0 3 == 1 * (1 # 2) * (2 + 4) + 2 * (1 # 2) * (4 + 10) /\
  (exists v, state_at P X 0 0 2 false true = AVal (XFin v) /\ v == 7) /\
  (exists v, der_at P X 0 0 3 = AVal (XFin v) /\ v == 3).
Proof.
  cbn zeta. repeat split; try reflexivity.
  - eexists. split; [vm_compute; reflexivity|reflexivity].
  - eexists. split; [vm_compute; reflexivity|reflexivity].
Qed.
Print Assumptions C15_nonvacuous.
