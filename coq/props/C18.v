(* C18 — a successful homotopy run has solved theta = 1.  Statements only. *)
From Coq Require Import ZArith QArith List Bool.
From RT Require Import Homotopy HomotopySpec Homotopy_proofs HomotopyGp HomotopyGp_proofs.
Import ListNotations.
Open Scope Q_scope.

(* Every finished run, for every oracle (success/failure sequence of the inner solves) and all
   options with theta_start in [0,1], delta_theta_0 > 0, delta_theta_min > 0, satisfies the whole
   protocol of C18 (HomotopySpec.trace_ok): first solve at theta_start; theta <= 1 always; theta
   increases only after a success; after a failure it steps back above the last accepted value
   with exactly half the previous increment; a success at 1 ends the run with True; a failure of
   the very first solve, or one whose halved increment is below delta_theta_min, ends it with
   False and nothing else does; every solve after the first is seeded with the last accepted one. *)
Theorem C18_protocol :
  forall o oracle fuel ret tr,
    wf o -> run fuel o oracle = (Some ret, tr) -> trace_ok o 0 ret tr = true.
Proof. exact protocol. Qed.
Print Assumptions C18_protocol.

Theorem C18_success_at_one :
  forall o oracle fuel tr,
    wf o -> run fuel o oracle = (Some true, tr) ->
    exists pre e, tr = pre ++ [e] /\ ev_ok e = true /\ ev_theta e == 1.
Proof.
  intros o oracle fuel tr W H.
  destruct (chk_last _ _ _ _ _ _ (protocol _ _ _ _ _ W H)) as (pre & e & -> & H1 & H2).
  exists pre, e. auto.
Qed.
Print Assumptions C18_success_at_one.

Theorem C18_failure_last_solve_failed :
  forall o oracle fuel tr,
    wf o -> run fuel o oracle = (Some false, tr) ->
    exists pre e, tr = pre ++ [e] /\ ev_ok e = false.
Proof.
  intros o oracle fuel tr W H.
  destruct (chk_last _ _ _ _ _ _ (protocol _ _ _ _ _ W H)) as (pre & e & -> & H1 & _).
  exists pre, e. auto.
Qed.
Print Assumptions C18_failure_last_solve_failed.

Theorem C18_never_above_one :
  forall o oracle fuel ret tr,
    wf o -> run fuel o oracle = (Some ret, tr) -> Forall (fun e => ev_theta e <= 1) tr.
Proof.
  intros o oracle fuel ret tr W H. eapply chk_le_one. exact (protocol _ _ _ _ _ W H).
Qed.
Print Assumptions C18_never_above_one.

(* finitely many solves, with an explicit bound: if  delta_theta_0 < delta_theta_min * 2^H  and
   1 - theta_start <= mu * S  for some 0 < mu <= min(delta_theta_0, delta_theta_min), the loop
   returns after at most H*(S+2)+S+1 inner solves whatever the oracle answers *)
Theorem C18_terminates :
  forall o oracle mu (H S : nat),
    wf o -> 0 < mu -> mu <= delta0 o -> mu <= delta_min o ->
    delta0 o < delta_min o * pow2 H -> 1 - theta_start o <= mu * qn S ->
    forall fuel, (bound H S <= fuel)%nat ->
      exists ret tr, run fuel o oracle = (Some ret, tr) /\ (length tr <= bound H S)%nat.
Proof. intros. eapply run_terminates; eauto. Qed.
Print Assumptions C18_terminates.

(* non-vacuity: theta_start = 3/10 (the input on which the unrepaired loop returned True after a
   single solve at 0.3), oracle: fail the 2nd solve *)
Example C18_nonvacuous :
  let o := mkopts (3 # 10) 1 (1 # 100) in
  wf o /\
  run 400 o (oracle_of [true; false]) =
    (Some true, [ {| ev_theta := 3 # 10; ev_ok := true; ev_seed := None |};
                  {| ev_theta := 1; ev_ok := false; ev_seed := Some (3 # 10) |};
                  {| ev_theta := (3 # 10) + (1 - (3 # 10)) * (1 # 2); ev_ok := true; ev_seed := Some (3 # 10) |};
                  {| ev_theta := 1; ev_ok := true;
                     ev_seed := Some ((3 # 10) + (1 - (3 # 10)) * (1 # 2)) |} ]) /\
  (0 < (1 # 100) /\ (1 # 100) <= delta0 o /\ (1 # 100) <= delta_min o /\
   delta0 o < delta_min o * pow2 7 /\ 1 - theta_start o <= (1 # 100) * qn 70).
Proof.
  split; [|split].
  - unfold wf; cbn; repeat split; auto with qarith; discriminate.
  - vm_compute. reflexivity.
  - cbn; repeat split; auto with qarith; discriminate.
Qed.
Print Assumptions C18_nonvacuous.

(* ---- homotopy wrapped around goal programming (HomotopyGp.v) -------------------------------------------
   Seen from outside, the nested loop is the homotopy loop of Homotopy.v whose n-th inner solve succeeds
   iff every priority of the n-th step did: all statements above carry over. *)
Theorem C18_gp_refines :
  forall fuel o np oracle ret steps,
    grun fuel o np oracle = (Some ret, steps) ->
    run fuel o (oracle_of (map s_ok steps)) = (Some ret, map s_event steps).
Proof. exact grun_refines. Qed.
Print Assumptions C18_gp_refines.

Theorem C18_gp_protocol :
  forall fuel o np oracle ret steps,
    wf o -> grun fuel o np oracle = (Some ret, steps) -> trace_ok o 0 ret (map s_event steps) = true.
Proof. exact grun_protocol. Qed.
Print Assumptions C18_gp_protocol.

(* what every single solve starts from (HomotopyGp.seeds_ok): the first priority of a step beyond
   theta_start starts from the final solution of the last step in which every priority succeeded - never
   from a solution of a rejected step -, the first priority at theta_start from the plain seed, every later
   priority from the priority before it; a step succeeds iff all its np priorities were solved *)
Theorem C18_gp_seeds :
  forall fuel o np oracle ret steps,
    grun fuel o np oracle = (Some ret, steps) -> seeds_ok o np steps = true.
Proof. exact grun_seeds. Qed.
Print Assumptions C18_gp_seeds.

Example C18_gp_nonvacuous :
  (* two priorities; the second priority fails at theta = 1: the step back to 1/2 starts from solve 1's
     solution (tag 2), not from the priority-1 solution of the rejected step (tag 3) *)
  grun_case 0 1 (1 # 100) 2 [true; true; true; false] =
    [1; 8;  0; 1; 0; 1; 0;   0; 1; 1; 1; 1;   1; 1; 0; 1; 2;   1; 1; 1; 0; 3;
            1; 2; 0; 1; 2;   1; 2; 1; 1; 5;   1; 1; 0; 1; 6;   1; 1; 1; 1; 7]%Z.
Proof. vm_compute. reflexivity. Qed.
Print Assumptions C18_gp_nonvacuous.
