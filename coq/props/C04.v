(* C04 — target goals stay inside their epsilon envelope; critical goals are hard. *)
From Coq Require Import ZArith QArith List Bool.
From RT Require Import Xq Interval Goals GoalValidate Goals_proofs GoalValidate_proofs.
Import ListNotations.
Open Scope Q_scope.

(* the two soft constraint rows with their bounds [0, inf) and (-inf, 0] say exactly
   m_t + eps (m - m_t) <= f <= M_t + eps (M - M_t), for every positive nominal *)
Theorem C04_soft_iff_envelope :
  forall g t T f eps, 0 < g_nom g ->
    (0 <= soft_row g (g_lo g) (XFin t) f eps <-> t + eps * (g_lo g - t) <= f) /\
    (soft_row g (g_hi g) (XFin T) f eps <= 0 <-> f <= T + eps * (g_hi g - T)).
Proof. intros. split; [now apply soft_min_iff | now apply soft_max_iff]. Qed.
Print Assumptions C04_soft_iff_envelope.

(* eps = 0 means the target is met; for 0 <= eps <= 1 the function never leaves its range *)
Theorem C04_envelope_within_range :
  forall lo t eps hi T, 0 <= eps -> eps <= 1 -> lo <= t -> T <= hi ->
    lo <= t + eps * (lo - t) /\ t + eps * (lo - t) <= t /\
    T <= T + eps * (hi - T) /\ T + eps * (hi - T) <= hi.
Proof. exact envelope_within_range. Qed.
Print Assumptions C04_envelope_within_range.

(* steps whose target is NaN or infinite impose nothing: the row is the constant 0 *)
Theorem C04_inactive_steps_free :
  forall g bound t f eps, is_finite t = false -> soft_row g bound t f eps = 0.
Proof. exact soft_inactive. Qed.
Print Assumptions C04_inactive_steps_free.

(* a critical goal enters the constraint store as [target_min, target_max]/nominal, whatever the
   function range and epsilon *)
Theorem C04_critical_hard :
  forall g o gm gM eps value,
    g_critical g = true -> vtol_exceeded o eps = false ->
    (forall a b, gm = XFin a -> gM = XFin b -> g_has_min g = true -> g_has_max g = true ->
       o_thr o <= Qabs.Qabs ((a - g_relax g) * / g_nom g - (b + g_relax g) * / g_nom g)) ->
    let I := hard_target g o gm gM eps value in
    (g_has_min g = true -> forall t, gm = XFin t -> xsame (lo I) (XFin ((t - g_relax g) * / g_nom g - o_cr o))) /\
    (g_has_max g = true -> forall t, gM = XFin t -> xsame (hi I) (XFin ((t + g_relax g) * / g_nom g + o_cr o))) /\
    (is_finite gm = false \/ g_has_min g = false -> lo I = XNInf) /\
    (is_finite gM = false \/ g_has_max g = false -> hi I = XPInf).
Proof. exact hard_critical. Qed.
Print Assumptions C04_critical_hard.

(* ill-formed goals are rejected before any solve: validation accepts exactly the well-formed lists
   (positive nominal; no critical minimisation goal; target goals with a finite, proper function
   range strictly containing the finite targets and a positive weight; minimisation goals without
   range; no Timeseries target on point goals; non-negative relaxation; monotone targets per
   function key) *)
Theorem C04_validate_iff_wellformed :
  forall o is_path goals, validate o is_path goals = true <-> wellformed o is_path goals.
Proof. exact validate_iff_wellformed. Qed.
Print Assumptions C04_validate_iff_wellformed.

Theorem C04_rejections :
  forall o is_path g goals, In g goals ->
    (Qlt_bool 0 (v_nominal (vg g)) = false -> validate o is_path goals = false) /\
    (v_critical (vg g) = true -> vg_has_bounds g = false -> validate o is_path goals = false) /\
    (forall m, vg_has_min g = true -> v_critical (vg g) = false -> In m (v_tmin (vg g)) ->
       tmin_in_range (v_lo (vg g)) (v_hi (vg g)) m = false -> validate o is_path goals = false).
Proof.
  intros o is_path g goals Hin. apply sort_by_prio_in in Hin. repeat split.
  - intros H. eapply rejects_nonpositive_nominal; eauto.
  - intros H1 H2. eapply rejects_critical_minimisation; eauto.
  - intros m H1 H2 H3 H4. eapply rejects_target_outside_range; eauto.
Qed.
Print Assumptions C04_rejections.

Example C04_nonvacuous :
  let g := mkgoal true true false (-10) 10 2 0 in
  0 < g_nom g /\
  soft_row g (g_lo g) (XFin 1) 0 (1 # 11) == 0 /\       (* f = 0 is on the lower envelope for eps = 1/11 *)
  validate {| vo_keep_soft := false; vo_monotone := true |} true
    [mk_vgoal 1 1 [XFin 1; XNaN] [XFin 3; XFin 3] true false (XFin (-10)) (XFin 10) 2 1 false 0;
     mk_vgoal 1 2 [XFin 2; XFin 2] [XNaN; XNaN] false false (XFin (-10)) (XFin 10) 2 1 false 0] = true /\
  validate {| vo_keep_soft := false; vo_monotone := true |} true
    [mk_vgoal 1 1 [XFin 1; XNaN] [XFin 3; XFin 3] true false (XFin (-10)) (XFin 10) 2 1 false 0;
     mk_vgoal 1 2 [XFin 0; XFin 2] [XNaN; XNaN] false false (XFin (-10)) (XFin 10) 2 1 false 0] = false.
Proof. cbn zeta. repeat split; vm_compute; reflexivity. Qed.
Print Assumptions C04_nonvacuous.
