(* C03 — each priority solves exactly the documented subproblem, to optimality. *)
From Coq Require Import ZArith QArith List Bool.
From RT Require Import Xq KktCert KktCert_proofs.
Import ListNotations.
Open Scope Q_scope.

(* Verified optimality certificate.  For every convex problem
     minimise sum_k w_k (a_k.x + b_k)^(1|2) + const  s.t.  lbg <= A x + b <= ubg, lbx <= x <= ubx
   (this covers the goal-programming objective of order-1 and order-2 goals on affine goal
   functions, for any number of variables, rows and terms), any candidate x and any multipliers:
   if the checker returns `gap`, no feasible point has an objective below objective(x) - gap. *)
Theorem C03_kkt_sound :
  forall P x lam mu gap, check_cert P x lam mu = Some gap ->
    forall y, feasible P y -> obj P x - gap <= obj P y.
Proof. exact check_cert_sound. Qed.
Print Assumptions C03_kkt_sound.

(* hence a feasible x with certificate `gap` is within `gap` of the optimum *)
Theorem C03_certified_optimal :
  forall P x lam mu gap, check_cert P x lam mu = Some gap -> feasible P x ->
    forall ystar, feasible P ystar -> (forall y, feasible P y -> obj P ystar <= obj P y) ->
      obj P ystar <= obj P x /\ obj P x <= obj P ystar + gap.
Proof. intros. eapply certified_optimal; eauto. Qed.
Print Assumptions C03_certified_optimal.

(* non-vacuity: minimise 2 eps^2 + eps-term ... a two-variable goal problem *)
Example C03_nonvacuous :
  (* variables (y, eps): minimise eps^2 s.t. 0 <= y - eps*(-12-1) - 1 (soft row of y >= 1 with
     range lower bound -12), y = 0 pinned by the box, 0 <= eps <= 1: optimum eps = 1/13 *)
  let P := {| q_n := 2; q_terms := [{| t_w := 1; t_a := [0; 1]; t_b := 0; t_sq := true |}];
              q_const := 0; q_rows := [([1; 13], -1)];
              q_lbg := [XFin 0]; q_ubg := [XPInf]; q_lbx := [XFin 0; XFin 0]; q_ubx := [XFin 0; XFin 1] |} in
  (exists g, check_cert P [0; 1 # 13] [- (2 # 169)] [2 # 169; 0] = Some g /\ g == 0) /\
  obj P [0; 1 # 13] == 1 # 169.
Proof. cbn zeta. split; [eexists; split; [vm_compute; reflexivity|reflexivity]|vm_compute; reflexivity]. Qed.
Print Assumptions C03_nonvacuous.
