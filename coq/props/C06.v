(* C06 — objective and user constraints are transcribed as given, at every time stamp. *)
From Coq Require Import ZArith QArith List Bool Arith.
From RT Require Import Xq Interp Expr Transcribe Transcribe_proofs.
Import ListNotations.
Open Scope Q_scope.

(* the minimised function: sum over members of probability * [objective + path objective at every
   collocation time, t0 included (with the initial derivatives)] *)
Theorem C06_objective_spec :
  forall PathObj P Obj X,
    objective PathObj true P Obj X =
      qsum (map (fun m => qnth (prob P) m *
                          (Obj m X + qsum (map (path_env_obj PathObj P X m) (seq 0 (nt P)))))
                (seq 0 (nE P))) /\
    (forall m, path_env_obj PathObj P X m 0 =
       PathObj (vars_at P X m 0) (init_ders P X m) (cin_at P m 0) (par_of P m) 0 (pv_at P X m 0) (ev_of P X m)) /\
    (forall m i, path_env_obj PathObj P X m (S i) =
       PathObj (vars_at P X m (S i)) (fd_at P X m i) (cin_at P m (S i)) (par_of P m)
               (qnth (times P) (S i) - t0 P) (pv_at P X m (S i)) (ev_of P X m)).
Proof. intros. repeat split. Qed.
Print Assumptions C06_objective_spec.

(* every path constraint is imposed at every collocation time including t0: ncon rows per time,
   constraint c of time i at position i*ncon + c ... *)
Theorem C06_path_rows_every_time :
  forall PathCon ncon,
    (forall v d c p t pv ev, length (PathCon v d c p t pv ev) = ncon) ->
    forall P X m,
      length (path_rows PathCon P X m) = (nt P * ncon)%nat /\
      (forall i c, (i < nt P)%nat -> (c < ncon)%nat ->
         nth (i * ncon + c) (path_rows PathCon P X m) 0 = nth c (path_con_at PathCon P X m i) 0).
Proof.
  intros PathCon ncon H P X m. split.
  - eapply path_rows_length; eauto.
  - intros i c Hi Hc. eapply path_row_position; eauto.
Qed.
Print Assumptions C06_path_rows_every_time.

(* ... and its lower / upper bound (scalar, +-inf, Timeseries interpolated at the collocation times
   with -inf / +inf outside, that member's own bounds) sits at the same position *)
Theorem C06_path_bounds_aligned :
  forall P bs i c,
    Forall (fun b => wf_bspec (fst b) /\ wf_bspec (snd b)) bs ->
    (i < nt P)%nat -> (c < length bs)%nat ->
    length (path_bounds P bs) = (nt P * length bs)%nat /\
    nth (i * length bs + c) (path_bounds P bs) (XNaN, XNaN) =
      (nth i (bound_at (fst (nth c bs (BNone, BNone))) XNInf Linear (times P)) XNaN,
       nth i (bound_at (snd (nth c bs (BNone, BNone))) XPInf Linear (times P)) XNaN).
Proof. exact path_bounds_position. Qed.
Print Assumptions C06_path_bounds_aligned.

(* point constraints appear once per member, between that member's collocation rows and its path
   constraint rows, nothing else is added *)
Theorem C06_rows_layout :
  forall F F0 PathCon P PointCon n_path X,
    g_rows F F0 PathCon P PointCon n_path X =
      flat_map (initial_rows F F0 P X) (seq 0 (nE P)) ++
      flat_map (fun m => init_der_rows P X m ++ collocation_rows F P X m ++ PointCon m X ++
                         (if Nat.eqb n_path 0 then [] else path_rows PathCon P X m))
               (seq 0 (nE P)).
Proof. reflexivity. Qed.
Print Assumptions C06_rows_layout.

(* known finding: what the code passes as derivative of algebraics / controls at t0 is 0, not the
   history slope the property (and der_at) use *)
Definition C06_t0_derivative_statement : Prop :=
  forall P X m, init_ders P X m = init_ders_spec P X m.

Theorem C06_t0_derivative_refuted : ~ C06_t0_derivative_statement.
Proof.
  intros H.
  specialize (H {| times := [0; 1]; theta := 1; nE := 1; ns := 0; na := 0; nc := 1; npv := 0; nev := 0;
                   vtimes := [[0; 1]]; vmode := [Linear]; nom := [1]; nom_pv := []; nom_ev := [];
                   cin := [[]]; par := [[]]; prob := [1]; lower := [BNone]; upper := [BNone];
                   lower_pv := []; upper_pv := []; lower_ev := []; upper_ev := [];
                   history := [[Some {| h_times := [-1; 0]; h_vals := [XFin 1; XFin 4] |}]] |} [0; 0] 0%nat).
  vm_compute in H. discriminate H.
Qed.
Print Assumptions C06_t0_derivative_refuted.

Example C06_nonvacuous :
  let P := {| times := [0; 1; 3]; theta := 1; nE := 2; ns := 0; na := 1; nc := 0; npv := 0; nev := 0;
              vtimes := [[0; 1; 3]]; vmode := [Linear]; nom := [2]; nom_pv := []; nom_ev := [];
              cin := [[]; []]; par := [[]; []]; prob := [1 # 3; 2 # 3]; lower := [BNone]; upper := [BNone];
              lower_pv := []; upper_pv := []; lower_ev := []; upper_ev := [];
              history := [[None]; [None]] |} in
  (* path objective = y; X = [1;2;3; 4;5;6]: 1/3*(2+4+6) + 2/3*(8+10+12) *)
  objective (PathObj_of (EV 0)) true P (fun _ _ => 0) [1; 2; 3; 4; 5; 6] == 24.
Proof. vm_compute. reflexivity. Qed.
Print Assumptions C06_nonvacuous.
