(* C16 — delayed feedback equals the delayed expression, history included. *)
From Coq Require Import ZArith QArith List Bool Arith.
From RT Require Import Xq Interp Expr Transcribe Transcribe_proofs Delay Interp_proofs Delay_proofs Delay_iso.
Import ListNotations.
Open Scope Q_scope.

(* every collocation time gets a row *)
Theorem C16_every_time_has_a_row : forall P X m d, length (delay_rows P X m d) = nt P.
Proof. exact delay_rows_length. Qed.
Print Assumptions C16_every_time_has_a_row.

(* the row of time t_i is zero exactly when y(t_i) is the delayed expression interpolated (by the
   receiving variable's method) at t_i - tau_i over history ++ horizon, or over the horizon only when
   the history is incomplete; whatever the (non-vanishing) row nominal *)
Theorem C16_row_spec :
  forall P X m d i, (i < nt P)%nat ->
    (nth i (delay_rows P X m d) 0 == 0 <->
     cval P X m (d_in d) i ==
     interp1d (nth (d_in d) (vmode P) Linear) (out_times P m d) (out_values P X m d)
              (qnth (times P) i - qnth (d_tau d) i)).
Proof. exact delay_row_zero_iff. Qed.
Print Assumptions C16_row_spec.

(* incomplete history: before t0 the value of the expression at t0 is extrapolated backwards *)
Theorem C16_incomplete_history_extrapolates :
  forall P X m d t,
    history_complete P m d = false -> incr (times P) -> times P <> [] -> t <= t0 P ->
    interp1d (nth (d_in d) (vmode P) Linear) (out_times P m d) (out_values P X m d) t ==
    delay_at P X m (d_expr d) 0.
Proof. exact incomplete_history_extrapolates. Qed.
Print Assumptions C16_incomplete_history_extrapolates.

(* a zero delay degenerates to y(t_i) = expr(t_i) *)
Theorem C16_zero_delay :
  forall P X m d i,
    history_complete P m d = false -> incr (times P) -> (i < nt P)%nat -> qnth (d_tau d) i == 0 ->
    (nth i (delay_rows P X m d) 0 == 0 <-> cval P X m (d_in d) i == delay_at P X m (d_expr d) i).
Proof. exact zero_delay_is_identity. Qed.
Print Assumptions C16_zero_delay.

Example C16_nonvacuous :
  (* x with history 1 (t=-3), 3 (t=-1), pinned 5 at t0; y = delay(x, 3/2); nominal of x = 4 *)
  let P := {| times := [0; 1; 2; 4]; theta := 1; nE := 1; ns := 1; na := 1; nc := 0; npv := 0; nev := 0;
              vtimes := [[0; 1; 2; 4]; [0; 1; 2; 4]]; vmode := [Linear; Linear]; nom := [4; 2];
              nom_pv := []; nom_ev := []; cin := [[]]; par := [[]]; prob := [1];
              lower := [BNone; BNone]; upper := [BNone; BNone]; lower_pv := []; upper_pv := [];
              lower_ev := []; upper_ev := [];
              history := [[Some {| h_times := [-3; -1; 0]; h_vals := [XFin 1; XFin 3; XFin 5] |}; None]] |} in
  let d := {| d_expr := EV 0; d_in := 1%nat; d_tau := [3 # 2; 3 # 2; 3 # 2; 3 # 2] |} in
  history_complete P 0 d = true /\
  Forall2 Qeq (delay_rows P [5; 6; 7; 8; 9; 10; 11; 12; 0] 0 d) [31 # 8; 17 # 8; 0; - (5 # 4)].
Proof. cbn zeta. split; [vm_compute; reflexivity|]. vm_compute. repeat constructor. Qed.
Print Assumptions C16_nonvacuous.

(* the delayed-feedback rows of member m are built from member m's own parameters, constant inputs and history
   (and member 0's history, which fixes the scaling of the initial derivatives): no other member's data enter *)
Theorem C16_rows_use_own_member_data :
  forall P P' m X d, same_shape P P' -> same_member_data m P P' -> delay_rows P X m d = delay_rows P' X m d.
Proof. exact delay_rows_isolated. Qed.
Print Assumptions C16_rows_use_own_member_data.
