(* C17 — equivalent formulations give equal optima.  Statements only. *)
From Coq Require Import ZArith QArith Qabs List Bool.
From RT Require Import Xq LinOrder LinOrder_proofs.
Import ListNotations.
Open Scope Q_scope.

(* Linearised higher-order penalty: for every order S r >= 1 (so in particular >= 2) and every
   strictly increasing breakpoint list x0 < x1 < ... starting at x0 >= 0, the maximum of the
   chords ... *)

(* ... never underestimates eps^order between the first and the last breakpoint *)
Theorem C17_chords_majorise :
  forall r x0 xs e, 0 <= x0 -> incr0 x0 xs -> xs <> [] -> x0 <= e -> e <= last xs x0 ->
    pw e (S r) <= penalty (lines (S r) (x0 :: xs)) e.
Proof. intros. now apply penalty_majorises. Qed.
Print Assumptions C17_chords_majorise.

(* ... is exact at every breakpoint, in particular at 0 and at 1 *)
Theorem C17_chords_exact_at_breaks :
  forall r x0 xs x, 0 <= x0 -> incr0 x0 xs -> xs <> [] -> In x (x0 :: xs) ->
    penalty (lines (S r) (x0 :: xs)) x == pw x (S r).
Proof. intros. now apply penalty_exact_at_breakpoints. Qed.
Print Assumptions C17_chords_exact_at_breaks.

(* ... is non-decreasing and convex *)
Theorem C17_chords_monotone_convex :
  forall r x0 xs, 0 <= x0 -> incr0 x0 xs -> xs <> [] ->
    (forall e e', e <= e' -> penalty (lines (S r) (x0 :: xs)) e <= penalty (lines (S r) (x0 :: xs)) e') /\
    (forall e e' lam, 0 <= lam -> lam <= 1 ->
       penalty (lines (S r) (x0 :: xs)) (lam * e + (1 - lam) * e') <=
       lam * penalty (lines (S r) (x0 :: xs)) e + (1 - lam) * penalty (lines (S r) (x0 :: xs)) e').
Proof.
  intros r x0 xs H0 Hi Hn. split.
  - intros e e' H. now apply penalty_monotone.
  - intros e e' lam Hl0 Hl1. now apply penalty_convex.
Qed.
Print Assumptions C17_chords_monotone_convex.

(* ... and overestimates by at most tol whenever the decidable check accepts the breakpoints
   (the check is run in Coq on the breakpoints the implementation produced) *)
Theorem C17_chords_tolerance :
  forall r tol x0 xs e, 0 <= x0 -> xs <> [] -> check_breaks (S r) tol (x0 :: xs) = true -> 0 <= e ->
    penalty (lines (S r) (x0 :: xs)) e <= pw e (S r) + tol.
Proof. intros. now apply penalty_within_tolerance. Qed.
Print Assumptions C17_chords_tolerance.

(* absolute-value minimisation: the two added linear constraints mean aux >= |f|, so minimising aux
   minimises |f| *)
Theorem C17_min_abs :
  forall f, (forall aux, (0 <= aux + f /\ 0 <= aux - f) <-> Qabs f <= aux) /\
            (0 <= Qabs f + f /\ 0 <= Qabs f - f).
Proof.
  intros f. split.
  - intros aux. apply min_abs_constraints.
  - apply (min_abs_optimum f).
Qed.
Print Assumptions C17_min_abs.

(* QP front-end, one-dimensional core: Hessian h, gradient at the origin c and constant d
   reproduce f, and -c/h minimises it; halving the Hessian (the unrepaired CachingQPSol) moves the
   minimiser *)
Theorem C17_qp_form :
  (forall h c d x, quad h c d x == ((1 # 2) * h * x * x + c * x) + d) /\
  (forall h c d x, 0 < h -> quad h c d (- c / h) <= quad h c d x) /\
  (- (-9 # 2) / 2 == 9 # 4 /\ - (-9 # 2) / 1 == 9 # 2 /\ ~ (9 # 4) == (9 # 2) /\
   quad 2 (-9 # 2) 9 (9 # 4) < quad 2 (-9 # 2) 9 (9 # 2)).
Proof.
  split; [exact qp_form_1d|]. split; [exact qp_minimiser|exact halved_hessian_moves_minimiser].
Qed.
Print Assumptions C17_qp_form.

Example C17_nonvacuous :
  let xs := [1 # 4; 1 # 2; 3 # 4; 1] in
  incr0 0 xs /\ check_breaks 2 (1 # 16) (0 :: xs) = true /\
  penalty (lines 2 (0 :: xs)) (3 # 8) == 5 # 32 /\ pw (3 # 8) 2 == 9 # 64.
Proof. cbn zeta. repeat split; vm_compute; auto. Qed.
Print Assumptions C17_nonvacuous.
