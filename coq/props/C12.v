(* C12 — one time axis relative to t0; exports contain the results at the right times. *)
From Coq Require Import ZArith QArith List Bool.
From RT Require Import Xq TimeAxis TimeAxis_proofs.
Import ListNotations.
Open Scope Z_scope.

(* a value stored for a datetime is the value retrieved at the corresponding offset, whatever the
   reference datetime *)
Theorem C12_store_retrieve :
  forall dts ref vals d, value_at_sec dts ref vals (d - ref) = value_at dts vals d.
Proof. exact store_retrieve. Qed.
Print Assumptions C12_store_retrieve.

(* the horizon consists of exactly the non-negative times and starts at t0 = 0 *)
Theorem C12_horizon_is_nonnegative_part :
  forall dts ref, increasing dts ->
    horizon dts ref = filter (fun t => negb (t <? 0)) (times_sec dts ref).
Proof. exact horizon_spec. Qed.
Print Assumptions C12_horizon_is_nonnegative_part.

Theorem C12_horizon_starts_at_t0 :
  forall dts ref, increasing dts -> In ref dts ->
    hd 1 (horizon dts ref) = 0 /\ Forall (fun t => 0 <= t) (horizon dts ref).
Proof. exact horizon_starts_at_t0. Qed.
Print Assumptions C12_horizon_starts_at_t0.

(* history is what lies at or before t0: the negative times followed by t0 itself *)
Theorem C12_history_upto_t0 :
  forall dts ref, increasing dts -> In ref dts ->
    history dts ref (times_sec dts ref) = filter (fun t => t <? 0) (times_sec dts ref) ++ [0].
Proof. exact history_upto_t0. Qed.
Print Assumptions C12_history_upto_t0.

(* <var>_Min / <var>_Max: the bound at horizon index i is the series value at that time, a gap is no bound *)
Theorem C12_bounds_from_minmax :
  forall dts ref lower vals i, (t_pos dts ref + i < length vals)%nat ->
    nth i (bound_series dts ref lower vals) XNaN =
    match nth (t_pos dts ref + i) vals None with
    | Some q => XFin q
    | None => if lower then XNInf else XPInf
    end.
Proof. exact bounds_from_minmax. Qed.
Print Assumptions C12_bounds_from_minmax.

(* series set without time stamps start at t0 *)
Theorem C12_set_without_times_starts_t0 :
  forall dts ref vals i, (t_pos dts ref + length vals <= length dts)%nat ->
    nth (t_pos dts ref + i) (set_plain dts ref vals) None = nth i vals None /\
    forall j, (j < t_pos dts ref)%nat -> nth j (set_plain dts ref vals) None = None.
Proof. exact set_without_times_starts_t0. Qed.
Print Assumptions C12_set_without_times_starts_t0.

(* series set with time stamps: every value is stored at its own stamp *)
Theorem C12_set_with_times_aligned :
  forall axis ts vals k, NoDup ts -> (k < length ts)%nat -> In (nth k ts 0) axis ->
    match index_of (nth k ts 0) axis 0 with
    | Some j => nth j (place axis ts vals) None = nth k vals None
    | None => False
    end.
Proof. exact place_aligned. Qed.
Print Assumptions C12_set_with_times_aligned.

(* export: row i carries the time stamp reference + times()[i] and the result at that time *)
Theorem C12_export_aligned :
  forall dts ref results i, (i < length (horizon dts ref))%nat -> (i < length results)%nat ->
    nth i (export_column dts ref results) (0, None) = (ref + nth i (horizon dts ref) 0, nth i results None).
Proof. exact export_aligned. Qed.
Print Assumptions C12_export_aligned.

(* simulation: the input fed for the step ending at t is the series value stored for t *)
Theorem C12_sim_input_at_step_end :
  forall dts ref (vals : list val) t, increasing dts -> In t (times_sec dts ref) ->
    sim_input dts ref vals t = value_at_sec dts ref vals t.
Proof. exact sim_input_is_value_at. Qed.
Print Assumptions C12_sim_input_at_step_end.
