(* C11 — time-series files round-trip: what is written is what is read. *)
From Coq Require Import ZArith QArith Qabs List Bool.
From RT Require Import PiSeries PiSeries_proofs.
Import ListNotations.

(* PI: reading back the file written from a well-formed store (any step size or a non-equidistant
   axis, any ensemble size, any missing-value pattern, the forecast date anywhere on the axis) gives the
   same step, time stamps, forecast time and index, ensemble structure, and the same series with units *)
Theorem C11_pi_roundtrip :
  forall st, wf st ->
    let st' := pi_read (pi_write st) in
    st_dt st' = st_dt st /\ st_times st' = st_times st /\ st_fc st' = st_fc st /\ st_fci st' = st_fci st /\
    st_ens st' = st_ens st /\ st_size st' = st_size st /\ st_entries st' = st_entries st.
Proof. exact roundtrip. Qed.
Print Assumptions C11_pi_roundtrip.

(* a series shorter than the global range is padded with missing values, by exactly the missing
   number of steps at the correct end, and then covers the global axis *)
Theorem C11_padding_side :
  forall f s dt a b, f_dt f = Some dt -> (0 < dt)%Z ->
    s_start s = (gstart f + Z.of_nat a * dt)%Z ->
    gend f = (s_end s + Z.of_nat b * dt)%Z ->
    (gstart f <= s_start s)%Z -> (s_start s <= s_end s)%Z ->
    forall n, s_end s = (s_start s + Z.of_nat n * dt)%Z ->
    series_values f s = repeat None a ++ take_pad (S n) (s_events s) ++ repeat None b /\
    length (series_values f s) = length (times_eq (gstart f) (gend f) dt).
Proof. exact padded_length. Qed.
Print Assumptions C11_padding_side.

(* resize: the value at position i of the new series is the value at position i + (steps the start
   moved) of the old one as long as that position survives, and missing otherwise *)
Theorem C11_resize_keeps :
  forall ns ne l i, (0 <= i)%Z ->
    vnth (resize_back ne (resize_front ns l)) i =
    if (i <? Z.of_nat (length (resize_front ns l)) + ne)%Z then vnth l (i + ns) else None.
Proof. exact resize_values. Qed.
Print Assumptions C11_resize_keeps.

Theorem C11_outside_is_missing :
  forall l i, (i < 0 \/ Z.of_nat (length l) <= i)%Z -> vnth l i = None.
Proof. exact vnth_outside. Qed.
Print Assumptions C11_outside_is_missing.

(* CSV: six decimals, exact on six-decimal values *)
Theorem C11_csv_precision : forall q, (Qabs (fmt6 q - q) <= 1 # 2000000)%Q.
Proof. exact fmt6_precision. Qed.
Print Assumptions C11_csv_precision.

Theorem C11_csv_exact_on_six_decimals : forall k, (fmt6 (inject_Z k / 1000000) == inject_Z k / 1000000)%Q.
Proof. exact fmt6_exact. Qed.
Print Assumptions C11_csv_exact_on_six_decimals.

(* parameter files: a value of the parameter's own type is stored as it is, and a parameter never
   changes its type *)
Theorem C11_param_roundtrip : forall old new, same_type old new = true -> param_set old new = POk new.
Proof. exact param_set_same_type. Qed.
Print Assumptions C11_param_roundtrip.

Theorem C11_param_keeps_type :
  forall old new v, param_set old new = POk v ->
    match old, v with PBool _, PBool _ | PInt _, PInt _ | PDbl _, PDbl _ => True | _, _ => False end.
Proof. exact param_set_keeps_type. Qed.
Print Assumptions C11_param_keeps_type.
