(* C20 — lookup tables evaluate, fit and invert their splines faithfully. *)
From Coq Require Import ZArith QArith List Bool.
From RT Require Import BSpline BSpline_proofs.
Import ListNotations.
Open Scope Q_scope.

(* Cox-de Boor basis functions vanish outside [t_i, t_{i+k+1}) for every non-decreasing knot vector *)
Theorem C20_local_support :
  forall ts x k i, mono ts -> x < knot ts i \/ knot ts (i + k + 1) <= x -> basis ts x k i == 0.
Proof. exact local_support. Qed.
Print Assumptions C20_local_support.

(* hence the guarded sums of BSpline1D / BSpline2D.__call__ are the reference splines at every point,
   knots and end points included *)
Theorem C20_guard_harmless :
  forall ts ws k x, mono ts -> spline1d ts ws k x == spline_ref ts ws k x.
Proof. exact guard_harmless_1d. Qed.
Print Assumptions C20_guard_harmless.

Theorem C20_guard_harmless_2d :
  forall tx ty ws kx ky x y, mono tx -> mono ty -> spline2d tx ty ws kx ky x y == spline2d_ref tx ty ws kx ky x y.
Proof. exact guard_harmless_2d. Qed.
Print Assumptions C20_guard_harmless_2d.

Theorem C20_nonneg : forall ts x k, mono ts -> forall i, 0 <= basis ts x k i.
Proof. exact basis_nonneg. Qed.
Print Assumptions C20_nonneg.

(* a sorted knot list is a non-decreasing knot vector (the hypothesis above is satisfiable by a check) *)
Theorem C20_sorted_is_mono : forall ts, sortedb ts = true -> mono ts.
Proof. exact sorted_mono. Qed.
Print Assumptions C20_sorted_is_mono.

(* inverse lookup: rejected exactly when y lies outside the (ordered) range; NaN gives NaN *)
Theorem C20_range_ordered : forall flo fhi, fst (table_range flo fhi) <= snd (table_range flo fhi).
Proof. exact range_ordered. Qed.
Print Assumptions C20_range_ordered.

Theorem C20_reverse_rejects_iff_out_of_range :
  forall rng v, reverse_decision rng (Some v) = RevReject <-> v < fst rng \/ snd rng < v.
Proof. exact reverse_rejects_iff_out_of_range. Qed.
Print Assumptions C20_reverse_rejects_iff_out_of_range.

Theorem C20_nan_in_nan_out : forall rng, reverse_decision rng None = RevNaN.
Proof. exact nan_in_nan_out. Qed.
Print Assumptions C20_nan_in_nan_out.

(* a cached fit is reused only while it is newer than the table and the options *)
Theorem C20_cache_valid_iff_newer :
  forall csv ini cache,
    cache_valid csv ini cache = true <->
    exists c, cache = Some c /\ (csv < c)%Z /\ (forall i, ini = Some i -> (i < c)%Z).
Proof. exact cache_valid_iff_newer. Qed.
Print Assumptions C20_cache_valid_iff_newer.
