(* C13 — aliases are transparent.  Nothing but theorem statements closed by `exact`. *)
From Coq Require Import ZArith List Bool.
From RT Require Import AliasDict AliasDictSpec AliasDict_proofs.
Import ListNotations.
Open Scope Z_scope.

(* Reading through any alias k' of the name k that was written: the same quantity, with the
   product of the two signs applied (negated scalar / swapped negated pair / negated list). *)
Theorem C13_get_after_set :
  forall (canon : Z -> Z * bool) d k k' v,
    same_quantity canon k k' ->
    ad_get canon true (ad_set canon true d k v) k'
    = Some (flip (xorb (sgn canon k) (sgn canon k')) v).
Proof. exact get_after_set_signed. Qed.
Print Assumptions C13_get_after_set.

(* magnitudes (nominals): signed_values=False never negates *)
Theorem C13_get_after_set_unsigned :
  forall (canon : Z -> Z * bool) d k k' v,
    same_quantity canon k k' ->
    ad_get canon false (ad_set canon false d k v) k' = Some v.
Proof. exact get_after_set_unsigned. Qed.
Print Assumptions C13_get_after_set_unsigned.

(* other quantities are untouched *)
Theorem C13_frame :
  forall (canon : Z -> Z * bool) signed d k k' v,
    ~ same_quantity canon k k' ->
    ad_get canon signed (ad_set canon signed d k v) k' = ad_get canon signed d k'.
Proof. exact frame. Qed.
Print Assumptions C13_frame.

(* every operation sequence behaves like the abstract map "equivalence class -> base-signed value" *)
Theorem C13_refines_class_map :
  forall (canon : Z -> Z * bool) signed ops,
    R (fst (run canon signed [] ops)) (fst (spec_run canon signed (fun _ => None) ops)) /\
    Forall2 out_matches (snd (run canon signed [] ops))
                        (snd (spec_run canon signed (fun _ => None) ops)).
Proof. intros canon signed ops. apply run_refines. apply R_empty. Qed.
Print Assumptions C13_refines_class_map.

(* len(), keys(): in every reachable dictionary the keys are duplicate free and list exactly the
   classes that hold a value *)
Theorem C13_len_classes :
  forall (canon : Z -> Z * bool) signed ops,
    let d := fst (run canon signed [] ops) in
    NoDup (keys d) /\ length d = length (keys d) /\ (forall c, In c (keys d) <-> abs d c <> None).
Proof.
  intros canon signed ops d. apply len_counts_classes. apply run_inv. constructor.
Qed.
Print Assumptions C13_len_classes.

(* non-vacuity: a negated alias (key 2 = -key 1) sees swapped, negated bounds *)
Example C13_nonvacuous :
  let canon := table_canon [(2, (1, true))] in
  same_quantity canon 1 2 /\
  ad_get canon true (ad_set canon true [] 2 (VPair 3 5)) 1 = Some (VPair (-5) (-3)) /\
  ad_get canon false (ad_set canon false [] 2 (VInt 7)) 1 = Some (VInt 7).
Proof. vm_compute. repeat split. Qed.
Print Assumptions C13_nonvacuous.
