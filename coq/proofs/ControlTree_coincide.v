(* C07, scenario tree: members whose forecasts coincide on the segment that decides the children of a
   branch are never put into different children. *)
From Coq Require Import ZArith QArith List Bool Arith Lia Permutation.
From RT Require Import Xq ControlTree ControlTree_proofs.
Import ListNotations.
Open Scope Q_scope.

Lemma Qlt_bool_true a b : Qlt_bool a b = true <-> a < b.
Proof.
  unfold Qlt_bool. rewrite negb_true_iff. split.
  - intros H. apply Qnot_le_lt. intros L. apply Qle_bool_iff in L. congruence.
  - intros H. destruct (Qle_bool b a) eqn:E; auto. apply Qle_bool_iff in E. exfalso. exact (Qlt_not_le _ _ H E).
Qed.

Lemma Qlt_bool_false a b : Qlt_bool a b = false <-> b <= a.
Proof.
  unfold Qlt_bool. rewrite negb_false_iff. apply Qle_bool_iff.
Qed.

Lemma Qlt_bool_compat a a' b b' : a == a' -> b == b' -> Qlt_bool a b = Qlt_bool a' b'.
Proof.
  intros Ha Hb. destruct (Qlt_bool a' b') eqn:E.
  - apply Qlt_bool_true. apply Qlt_bool_true in E. rewrite Ha, Hb. exact E.
  - apply Qlt_bool_false. apply Qlt_bool_false in E. rewrite Ha, Hb. exact E.
Qed.

Section Coincide.
  Variable k : nat.
  Variable d : nat -> nat -> Q.
  Hypothesis Hsym : forall x y, d x y == d y x.
  Hypothesis Hnn : forall x y, 0 <= d x y.

  (* ---- the seeds are pairwise apart --------------------------------------------------------------- *)
  Definition Sep (l : list nat) : Prop :=
    forall i j, (i < j)%nat -> (j < length l)%nat -> 0 < d (nth i l 0%nat) (nth j l 0%nat).

  Lemma Sep_snoc l x : Sep l -> (forall s, In s l -> 0 < d s x) -> Sep (l ++ [x]).
  Proof.
    intros Hs Hx i j Hij Hj. rewrite app_length in Hj. cbn in Hj.
    destruct (Nat.eq_dec j (length l)) as [->|Hne].
    - rewrite nth_middle. rewrite app_nth1 by lia. apply Hx. apply nth_In. lia.
    - rewrite !app_nth1 by lia. apply Hs; lia.
  Qed.

  Lemma fold_min_le (mp s : nat) (rest : list nat) :
    let v := fold_right (fun s' acc => if Qlt_bool (d s' mp) acc then d s' mp else acc) (d s mp) rest in
    v <= d s mp /\ forall s', In s' rest -> v <= d s' mp.
  Proof.
    induction rest as [|x rest IH]; cbn.
    - split; [apply Qle_refl|intros ? []].
    - destruct IH as [I1 I2].
      destruct (Qlt_bool (d x mp) _) eqn:E.
      + apply Qlt_bool_true in E. split.
        * apply Qlt_le_weak. eapply Qlt_le_trans; [exact E|exact I1].
        * intros s' [<-|Hin]; [apply Qle_refl|]. apply Qlt_le_weak. eapply Qlt_le_trans; [exact E|apply I2; exact Hin].
      + apply Qlt_bool_false in E. split; [exact I1|].
        intros s' [<-|Hin]; [exact E|apply I2; exact Hin].
  Qed.

  Definition far_idx (members seeds : list nat) (idx : option nat) : Prop :=
    match idx with
    | None => True
    | Some p => forall s, In s seeds -> 0 < d s (nth p members 0%nat)
    end.

  Lemma next_idx_far members seeds' :
    let f := min_to_seeds d members seeds' in
    let p' := argmax f (length members) in
    far_idx members seeds'
      (match f p' with
       | XFin v => if Qle_bool v 0 then None else Some p'
       | XPInf => Some p'
       | _ => None
       end).
  Proof.
    intros f p'. unfold f at 1. unfold min_to_seeds.
    destruct (mem (nth p' members 0%nat) seeds'); cbn; auto.
    destruct seeds' as [|s rest]; cbn; auto.
    destruct (Qle_bool _ 0) eqn:E; cbn; auto.
    intros s0 Hs0.
    pose proof (fold_min_le (nth p' members 0%nat) s rest) as [F1 F2]. cbv zeta in F1, F2.
    assert (Hpos : 0 < fold_right (fun s' acc => if Qlt_bool (d s' (nth p' members 0%nat)) acc then d s' (nth p' members 0%nat) else acc)
                           (d s (nth p' members 0%nat)) rest).
    { apply Qnot_le_lt. intros L. apply Qle_bool_iff in L. congruence. }
    destruct Hs0 as [<-|Hin].
    - eapply Qlt_le_trans; [exact Hpos|exact F1].
    - eapply Qlt_le_trans; [exact Hpos|apply F2; exact Hin].
  Qed.

  Lemma pick_seeds_sep fuel members : forall seeds idx,
    Sep seeds -> far_idx members seeds idx -> Sep (pick_seeds d fuel members seeds idx).
  Proof.
    induction fuel as [|fuel IH]; intros seeds idx Hs Hf; cbn; [exact Hs|].
    destruct idx as [p|]; [|exact Hs].
    apply IH.
    - apply Sep_snoc; [exact Hs|exact Hf].
    - apply next_idx_far.
  Qed.

  Lemma seeds_of_sep members : Sep (seeds_of k d members).
  Proof.
    unfold seeds_of. apply pick_seeds_sep.
    - intros i j _ Hj. cbn in Hj. lia.
    - intros s [].
  Qed.

  (* ---- the nearest seed: first index with the least distance --------------------------------------- *)
  Definition firstmin (m : nat) (l : list nat) (r : nat) : Prop :=
    (r < length l)%nat /\
    (forall j, (j < length l)%nat -> d m (nth r l 0%nat) <= d m (nth j l 0%nat)) /\
    (forall j, (j < r)%nat -> d m (nth r l 0%nat) < d m (nth j l 0%nat)).

  Lemma nearest_gen m : forall suf pre best,
    firstmin m pre best ->
    firstmin m (pre ++ suf) (nearest d suf m (length pre) best (Some (d m (nth best pre 0%nat)))).
  Proof.
    induction suf as [|s suf IH]; intros pre best Hfm; cbn [nearest].
    - rewrite app_nil_r. exact Hfm.
    - destruct Hfm as (Hb & Hle & Hlt).
      replace (pre ++ s :: suf) with ((pre ++ [s]) ++ suf) by (rewrite <- app_assoc; reflexivity).
      assert (Hlen : length (pre ++ [s]) = S (length pre)) by (rewrite app_length; cbn; lia).
      destruct (Qlt_bool (d m s) (d m (nth best pre 0%nat))) eqn:E.
      + apply Qlt_bool_true in E.
        assert (Hn : nth (length pre) (pre ++ [s]) 0%nat = s) by apply nth_middle.
        rewrite <- Hn at 2. rewrite <- Hlen. apply IH.
        repeat split.
        * lia.
        * intros j Hj. rewrite Hn. rewrite Hlen in Hj.
          destruct (Nat.eq_dec j (length pre)) as [->|Hne]; [rewrite Hn; apply Qle_refl|].
          rewrite app_nth1 by lia. apply Qlt_le_weak. eapply Qlt_le_trans; [exact E|apply Hle; lia].
        * intros j Hj. rewrite Hn. rewrite app_nth1 by lia. eapply Qlt_le_trans; [exact E|apply Hle; lia].
      + apply Qlt_bool_false in E.
        assert (Hn : nth best (pre ++ [s]) 0%nat = nth best pre 0%nat) by (apply app_nth1; lia).
        rewrite <- Hn. rewrite <- Hlen. apply IH.
        repeat split.
        * lia.
        * intros j Hj. rewrite Hn. rewrite Hlen in Hj.
          destruct (Nat.eq_dec j (length pre)) as [->|Hne]; [rewrite nth_middle; exact E|].
          rewrite app_nth1 by lia. apply Hle. lia.
        * intros j Hj. rewrite Hn. rewrite app_nth1 by lia. apply Hlt. exact Hj.
  Qed.

  Lemma nearest_firstmin m seeds : seeds <> [] -> firstmin m seeds (nearest d seeds m 0 0 None).
  Proof.
    destruct seeds as [|s rest]; [congruence|]. intros _. cbn [nearest].
    change (s :: rest) with ([s] ++ rest).
    change 1%nat with (length [s]).
    change (d m s) with (d m (nth 0 [s] 0%nat)).
    apply nearest_gen. repeat split; cbn.
    - lia.
    - intros j Hj. assert (j = 0)%nat by lia. subst. apply Qle_refl.
    - intros j Hj. lia.
  Qed.

  Lemma nearest_ext m m' : (forall s, d m s == d m' s) ->
    forall seeds i best bv bv',
      match bv, bv' with Some x, Some y => x == y | None, None => True | _, _ => False end ->
      nearest d seeds m i best bv = nearest d seeds m' i best bv'.
  Proof.
    intros He. induction seeds as [|s seeds IH]; intros i best bv bv' Hb; cbn; [reflexivity|].
    destruct bv as [x|], bv' as [y|]; try contradiction.
    - rewrite (Qlt_bool_compat (d m s) (d m' s) x y (He s) Hb).
      destruct (Qlt_bool (d m' s) y); apply IH; [apply He|exact Hb].
    - apply IH. apply He.
  Qed.

  (* ---- the theorem ------------------------------------------------------------------------------------ *)
  Lemma in_rest members seeds x :
    In x (fold_right insert_sorted [] (filter (fun m => negb (mem m seeds)) members)) <-> In x members /\ ~ In x seeds.
  Proof.
    split.
    - intros H. apply (Permutation_in _ (sort_perm _)) in H. apply filter_In in H. destruct H as [H1 H2].
      split; [exact H1|]. apply mem_false. apply negb_true_iff. exact H2.
    - intros [H1 H2]. apply (Permutation_in _ (Permutation_sym (sort_perm _))). apply filter_In. split; [exact H1|].
      apply negb_true_iff. apply mem_false. exact H2.
  Qed.

  Lemma child_in members i s :
    (i < k)%nat -> nth_error (seeds_of k d members) i = Some s ->
    In (s :: filter (fun m => Nat.eqb (nearest d (seeds_of k d members) m 0 0 None) i)
                    (fold_right insert_sorted [] (filter (fun m => negb (mem m (seeds_of k d members))) members)))
       (children k d members).
  Proof.
    intros Hi Hs. unfold children.
    apply in_map_iff. exists i. rewrite Hs. split; [reflexivity|]. apply in_seq. lia.
  Qed.

  Theorem coinciding_same_child members a b :
    NoDup members -> (0 < k)%nat -> In a members -> In b members ->
    d a b == 0 -> (forall c, d a c == d b c) ->
    exists c, In c (children k d members) /\ In a c /\ In b c.
  Proof.
    intros Hnd Hk Ha Hb Hab Hco.
    assert (Hne : members <> []) by (intros ->; destruct Ha).
    set (seeds := seeds_of k d members).
    assert (Hp0 : (argmax (col_max d members) (length members) < length members)%nat).
    { apply argmax_lt. destruct members; [congruence|cbn; lia]. }
    destruct (pick_seeds_spec d k members [] (Some (argmax (col_max d members) (length members))) Hne
                (NoDup_nil _) (fun x (H : In x []) => match H with end)
                (conj Hp0 (fun H : In _ [] => match H with end))) as (S1 & S2 & S3 & _ & S5).
    fold (seeds_of k d members) in S1, S2, S3, S5. fold seeds in S1, S2, S3, S5.
    cbn in S3.
    assert (Hlen : (0 < length seeds)%nat) by (specialize (S5 ltac:(discriminate) Hk); cbn in S5; lia).
    assert (Hsne : seeds <> []) by (intros E; rewrite E in Hlen; cbn in Hlen; lia).
    pose proof (seeds_of_sep members) as HSep. fold seeds in HSep.
    (* a seed at position i and another member x at distance 0 from it with the same distances: x is either that seed or clustered to it *)
    assert (Hseed : forall x y i, nth_error seeds i = Some x -> In y members -> ~ In y seeds ->
                        d y x == 0 -> (forall c, d x c == d y c) ->
                        nearest d seeds y 0 0 None = i).
    { intros x y i Hi Hy Hys Hyx Hxy.
      destruct (nearest_firstmin y seeds Hsne) as (R1 & R2 & R3).
      set (r := nearest d seeds y 0 0 None) in *.
      assert (Hil : (i < length seeds)%nat) by (apply nth_error_Some; congruence).
      assert (Hix : nth i seeds 0%nat = x) by (apply nth_error_nth; exact Hi).
      assert (Hr0 : d y (nth r seeds 0%nat) == 0).
      { apply Qle_antisym; [|apply Hnn]. rewrite <- Hyx. rewrite <- Hix. apply R2. exact Hil. }
      destruct (Nat.lt_trichotomy r i) as [Hlt|[->|Hgt]]; [exfalso| reflexivity |exfalso].
      - pose proof (HSep r i Hlt Hil) as P. rewrite Hix in P.
        rewrite (Hsym _ x), (Hxy _) in P. rewrite Hr0 in P. exact (Qlt_irrefl _ P).
      - pose proof (HSep i r Hgt R1) as P. rewrite Hix in P.
        rewrite (Hxy _) in P. rewrite Hr0 in P. exact (Qlt_irrefl _ P). }
    assert (Hba : d b a == 0) by (rewrite Hsym; exact Hab).
    assert (Hco' : forall c, d b c == d a c) by (intros c; symmetry; apply Hco).
    destruct (mem a seeds) eqn:Ma, (mem b seeds) eqn:Mb.
    - (* both seeds: they are the same member *)
      apply mem_In in Ma. apply mem_In in Mb.
      destruct (In_nth_error _ _ Ma) as [i Hi]. destruct (In_nth_error _ _ Mb) as [j Hj].
      assert (Hil : (i < length seeds)%nat) by (apply nth_error_Some; congruence).
      assert (Hjl : (j < length seeds)%nat) by (apply nth_error_Some; congruence).
      assert (Hia : nth i seeds 0%nat = a) by (apply nth_error_nth; exact Hi).
      assert (Hjb : nth j seeds 0%nat = b) by (apply nth_error_nth; exact Hj).
      destruct (Nat.lt_trichotomy i j) as [Hlt|[->|Hgt]].
      + exfalso. pose proof (HSep i j Hlt Hjl) as P. rewrite Hia, Hjb, Hab in P. exact (Qlt_irrefl _ P).
      + assert (E : a = b) by congruence.
        eexists. split; [apply (child_in members j a); [lia|exact Hi]|]. split; left; [reflexivity|exact E].
      + exfalso. pose proof (HSep j i Hgt Hil) as P. rewrite Hia, Hjb, Hba in P. exact (Qlt_irrefl _ P).
    - (* a is a seed, b is clustered to it *)
      apply mem_In in Ma. apply mem_false in Mb.
      destruct (In_nth_error _ _ Ma) as [i Hi].
      assert (Hil : (i < length seeds)%nat) by (apply nth_error_Some; congruence).
      eexists. split; [apply (child_in members i a); [lia|exact Hi]|]. split; [left; reflexivity|right].
      apply filter_In. split; [apply in_rest; split; assumption|].
      apply Nat.eqb_eq. apply (Hseed a b i Hi Hb Mb Hba Hco).
    - apply mem_false in Ma. apply mem_In in Mb.
      destruct (In_nth_error _ _ Mb) as [i Hi].
      assert (Hil : (i < length seeds)%nat) by (apply nth_error_Some; congruence).
      eexists. split; [apply (child_in members i b); [lia|exact Hi]|]. split; [right|left; reflexivity].
      apply filter_In. split; [apply in_rest; split; assumption|].
      apply Nat.eqb_eq. apply (Hseed b a i Hi Ha Ma Hab Hco').
    - (* neither is a seed: same nearest seed *)
      apply mem_false in Ma. apply mem_false in Mb.
      destruct (nearest_firstmin a seeds Hsne) as (R1 & _ & _).
      set (r := nearest d seeds a 0 0 None) in *.
      destruct (nth_error seeds r) as [s|] eqn:Hs; [|apply nth_error_None in Hs; lia].
      eexists. split; [apply (child_in members r s); [lia|exact Hs]|].
      split; right; apply filter_In; (split; [apply in_rest; split; assumption|]); apply Nat.eqb_eq.
      + reflexivity.
      + symmetry. unfold r. apply nearest_ext; [exact Hco|exact I].
  Qed.
End Coincide.

(* ---- the whole tree --------------------------------------------------------------------------------- *)
Lemma concat_pos {A} (ls : list (list A)) : NoDup (concat ls) ->
  forall i j c1 c2 x, nth_error ls i = Some c1 -> nth_error ls j = Some c2 -> In x c1 -> In x c2 -> i = j.
Proof.
  induction ls as [|l ls IH]; intros Hnd i j c1 c2 x H1 H2 I1 I2; [destruct i; discriminate|].
  cbn in Hnd.
  assert (Hl : forall y, In y l -> ~ In y (concat ls)).
  { intros y Hy Hc. revert Hnd Hy Hc. clear. induction l as [|z l IHl]; cbn; intros Hnd Hy Hc; [destruct Hy|].
    inversion Hnd as [|? ? Hz Hnd']; subst. destruct Hy as [->|Hy].
    - apply Hz. apply in_or_app. right. exact Hc.
    - apply (IHl Hnd' Hy Hc). }
  assert (Hnd' : NoDup (concat ls)).
  { revert Hnd. clear. induction l as [|z l IHl]; cbn; intros Hnd; [exact Hnd|]. inversion Hnd; subst. apply IHl. assumption. }
  assert (Hin : forall n c, nth_error ls n = Some c -> forall y, In y c -> In y (concat ls)).
  { intros n c Hn y Hy. apply in_concat. exists c. split; [eapply nth_error_In; exact Hn|exact Hy]. }
  destruct i as [|i], j as [|j]; cbn in H1, H2.
  - reflexivity.
  - inversion H1; subst c1. exfalso. apply (Hl x I1). eapply Hin; eauto.
  - inversion H2; subst c2. exfalso. apply (Hl x I2). eapply Hin; eauto.
  - f_equal. eapply IH; eauto.
Qed.

Lemma NoDup_app_both {A} (a b : list A) : NoDup (a ++ b) -> NoDup a /\ NoDup b.
Proof.
  induction a as [|x a IH]; cbn; intros H; [split; [constructor|exact H]|].
  inversion H as [|? ? Hx Hnd]; subst. destruct (IH Hnd) as [Ia Ib]. split; [|exact Ib].
  constructor; [|exact Ia]. intros Hin. apply Hx. apply in_or_app. left. exact Hin.
Qed.

Lemma nodup_concat_elem {A} (l : list (list A)) c : NoDup (concat l) -> In c l -> NoDup c.
Proof.
  induction l as [|c0 l IH]; intros Hnd Hi; [destruct Hi|]. cbn in Hnd.
  destruct (NoDup_app_both _ _ Hnd) as [H1 H2]. destruct Hi as [->|Hi]; [exact H1|apply IH; assumption].
Qed.

Section TreeCoincide.
  Variable k : nat.
  Variable dist : nat -> nat -> nat -> Q.
  Variable nbt : nat.
  Hypothesis Hk : (0 < k)%nat.
  Hypothesis Hsym : forall L x y, dist L x y == dist L y x.
  Hypothesis Hnn : forall L x y, 0 <= dist L x y.

  Lemma in_combine_children path members pc :
    In pc (combine (map (fun i => path ++ [i]) (seq 0 k)) (children k (dist (length path)) members)) ->
    exists i, fst pc = path ++ [i] /\ nth_error (children k (dist (length path)) members) i = Some (snd pc).
  Proof.
    intros H. destruct pc as [p c]. apply In_nth_error in H. destruct H as [n Hn].
    assert (Hn1 : nth_error (map (fun i => path ++ [i]) (seq 0 k)) n = Some p /\
                  nth_error (children k (dist (length path)) members) n = Some c).
    { revert Hn. generalize (map (fun i => path ++ [i]) (seq 0 k)) (children k (dist (length path)) members). clear.
      intros l1. revert n. induction l1 as [|x l1 IH]; intros n l2 H; [destruct n; discriminate|].
      destruct l2 as [|y l2]; [destruct n; discriminate|]. destruct n as [|n]; cbn in *.
      - inversion H; subst. auto.
      - apply IH. exact H. }
    destruct Hn1 as [Hp Hc]. exists n. cbn. split; [|exact Hc].
    rewrite nth_error_map in Hp. destruct (nth_error (seq 0 k) n) as [i|] eqn:Hs; [|discriminate].
    cbn in Hp. inversion Hp; subst p.
    assert (Hnk : (n < k)%nat). { rewrite <- (seq_length k 0). apply nth_error_Some. congruence. }
    pose proof (nth_error_nth _ _ 0%nat Hs) as Hs'. rewrite seq_nth in Hs' by exact Hnk. cbn in Hs'.
    subst. reflexivity.
  Qed.

  Lemma build_subset fuel : forall path members pc,
    NoDup members -> In pc (build k dist nbt fuel path members) -> incl (snd pc) members /\ NoDup (snd pc).
  Proof.
    induction fuel as [|fuel IH]; intros path members pc Hnd H; cbn in H; [destruct H|].
    destruct (Nat.leb nbt (length path)); [destruct H|].
    destruct members as [|m0 ms] eqn:Em; [destruct H|]. rewrite <- Em in *.
    assert (Hne : members <> []) by (rewrite Em; discriminate).
    pose proof (children_partition k (dist (length path)) members Hnd Hne Hk) as Hperm.
    assert (Hchild : forall pc', In pc' (combine (map (fun i => path ++ [i]) (seq 0 k)) (children k (dist (length path)) members)) ->
                       incl (snd pc') members /\ NoDup (snd pc')).
    { intros pc' Hpc. destruct (in_combine_children _ _ _ Hpc) as (i & _ & Hi).
      split.
      - intros x Hx. apply (Permutation_in _ Hperm). apply in_concat. exists (snd pc'). split; [eapply nth_error_In; exact Hi|exact Hx].
      - assert (Hndc : NoDup (concat (children k (dist (length path)) members))) by (apply (Permutation_NoDup (Permutation_sym Hperm)); exact Hnd).
        apply nth_error_In in Hi. eapply nodup_concat_elem; eauto. }
    apply in_app_or in H. destruct H as [H|H].
    - apply Hchild. exact H.
    - apply in_flat_map in H. destruct H as (pc' & Hpc' & Hin).
      destruct (Hchild pc' Hpc') as [Hi Hn].
      destruct (IH _ _ _ Hn Hin) as [I1 I2]. split; [|exact I2].
      intros x Hx. apply Hi. apply I1. exact Hx.
  Qed.

  (* a and b coincide on the segments that decide the children of the branches of depth < D: then every
     branch of depth <= D below `path` holds both or neither *)
  Theorem tree_never_separates fuel : forall path members a b D pc,
    NoDup members -> In a members -> In b members ->
    (forall L, (length path <= L)%nat -> (L < D)%nat -> dist L a b == 0 /\ forall c, dist L a c == dist L b c) ->
    In pc (build k dist nbt fuel path members) -> (length (fst pc) <= D)%nat ->
    (In a (snd pc) <-> In b (snd pc)).
  Proof.
    induction fuel as [|fuel IH]; intros path members a b D pc Hnd Ha Hb Hco H HD; cbn in H; [destruct H|].
    destruct (Nat.leb nbt (length path)); [destruct H|].
    destruct members as [|m0 ms] eqn:Em; [destruct H|]. rewrite <- Em in *.
    assert (Hne : members <> []) by (rewrite Em; discriminate).
    pose proof (children_partition k (dist (length path)) members Hnd Hne Hk) as Hperm.
    assert (Hndc : NoDup (concat (children k (dist (length path)) members))) by (apply (Permutation_NoDup (Permutation_sym Hperm)); exact Hnd).
    (* every child one level down holds both or neither, provided that level is within D *)
    assert (Hchild : forall pc', In pc' (combine (map (fun i => path ++ [i]) (seq 0 k)) (children k (dist (length path)) members)) ->
                       (length (fst pc') <= D)%nat -> (In a (snd pc') <-> In b (snd pc'))).
    { intros pc' Hpc HD'. destruct (in_combine_children _ _ _ Hpc) as (i & Hf & Hi).
      rewrite Hf, app_length in HD'. cbn in HD'.
      destruct (Hco (length path) (le_n _) ltac:(lia)) as [H0 Hc].
      destruct (coinciding_same_child k (dist (length path)) (Hsym _) (Hnn _) members a b Hnd Hk Ha Hb H0 Hc) as (c & Hcin & Hac & Hbc).
      apply In_nth_error in Hcin. destruct Hcin as [j Hj].
      split; intros Hx.
      - assert (i = j) by (eapply (concat_pos _ Hndc i j _ _ a); eauto). subst j. congruence.
      - assert (i = j) by (eapply (concat_pos _ Hndc i j _ _ b); eauto). subst j. congruence. }
    apply in_app_or in H. destruct H as [H|H].
    - apply Hchild; assumption.
    - apply in_flat_map in H. destruct H as (pc' & Hpc' & Hin).
      destruct (in_combine_children _ _ _ Hpc') as (i & Hf & Hi).
      assert (Hsub : incl (snd pc') members /\ NoDup (snd pc')).
      { split.
        - intros x Hx. apply (Permutation_in _ Hperm). apply in_concat. exists (snd pc'). split; [eapply nth_error_In; exact Hi|exact Hx].
        - apply nth_error_In in Hi. eapply nodup_concat_elem; eauto. }
      destruct Hsub as [Hincl Hndc'].
      destruct (build_subset _ _ _ _ Hndc' Hin) as [Hsub2 _].
      (* the depth of pc is at least that of pc' *)
      assert (Hdepth : (length (fst pc') <= length (fst pc))%nat).
      { clear - Hin. revert Hin. generalize (fst pc') (snd pc'). revert pc. induction fuel as [|f IHf]; intros pc p ms H; cbn in H; [destruct H|].
        destruct (Nat.leb nbt (length p)); [destruct H|]. destruct ms as [|m ms']; [destruct H|].
        apply in_app_or in H. destruct H as [H|H].
        - apply In_nth_error in H. destruct H as [n Hn]. destruct pc as [q c].
          assert (exists i, q = p ++ [i]).
          { revert Hn. generalize (children k (dist (length p)) (m :: ms')). generalize (seq 0 k). clear.
            intros l1. revert n. induction l1 as [|x l1 IH]; intros n l2 H; [destruct n; discriminate|].
            destruct l2 as [|y l2]; [destruct n; discriminate|]. destruct n as [|n]; cbn in *.
            - inversion H; subst. eexists; reflexivity.
            - eapply IH. exact H. }
          destruct H as [i ->]. cbn. rewrite app_length. lia.
        - apply in_flat_map in H. destruct H as (pc2 & Hpc2 & Hin2).
          specialize (IHf _ _ _ Hin2).
          apply In_nth_error in Hpc2. destruct Hpc2 as [n Hn]. destruct pc2 as [q c].
          assert (exists i, q = p ++ [i]).
          { revert Hn. generalize (children k (dist (length p)) (m :: ms')). generalize (seq 0 k). clear.
            intros l1. revert n. induction l1 as [|x l1 IH]; intros n l2 H; [destruct n; discriminate|].
            destruct l2 as [|y l2]; [destruct n; discriminate|]. destruct n as [|n]; cbn in *.
            - inversion H; subst. eexists; reflexivity.
            - eapply IH. exact H. }
          destruct H as [i ->]. cbn in IHf. rewrite app_length in IHf. cbn in IHf. lia. }
      assert (Hch : In a (snd pc') <-> In b (snd pc')) by (apply Hchild; [exact Hpc'|lia]).
      destruct (in_dec Nat.eq_dec a (snd pc')) as [Hia|Hna].
      + apply (IH (fst pc') (snd pc') a b D pc Hndc' Hia (proj1 Hch Hia)); [|exact Hin|exact HD].
        intros L HL HLD. apply Hco; [|exact HLD]. rewrite Hf, app_length in HL. cbn in HL. lia.
      + assert (Hnb : ~ In b (snd pc')) by (intros Hx; apply Hna; apply Hch; exact Hx).
        split; intros Hx; exfalso; [apply Hna|apply Hnb]; apply Hsub2; exact Hx.
  Qed.
End TreeCoincide.
