From Coq Require Import ZArith QArith List Bool Arith Lia Lqa.
From RT Require Import BSpline.
Import ListNotations.
Open Scope Q_scope.

(* non-decreasing knot vector *)
Definition mono (ts : list Q) : Prop := forall i, knot ts i <= knot ts (S i).

Lemma mono_le ts i j : mono ts -> (i <= j)%nat -> knot ts i <= knot ts j.
Proof.
  intros Hm Hij. induction Hij as [|j Hij IH]; [lra|]. specialize (Hm j). lra.
Qed.

Lemma Qle_bool_false a b : Qle_bool a b = false <-> b < a.
Proof.
  split.
  - intros H. destruct (Qlt_le_dec b a) as [Hlt|Hle]; [exact Hlt|]. apply Qle_bool_iff in Hle. congruence.
  - intros H. destruct (Qle_bool a b) eqn:E; [|reflexivity]. apply Qle_bool_iff in E. lra.
Qed.

Lemma Qlt_bool_true a b : Qlt_bool a b = true <-> a < b.
Proof. unfold Qlt_bool. rewrite negb_true_iff. apply Qle_bool_false. Qed.

Lemma Qlt_bool_false a b : Qlt_bool a b = false <-> b <= a.
Proof. unfold Qlt_bool. rewrite negb_false_iff. apply Qle_bool_iff. Qed.

(* ---- local support ------------------------------------------------------------------------------------ *)
Lemma support_left ts x k : mono ts -> forall i, x < knot ts i -> basis ts x k i == 0.
Proof.
  intros Hm. induction k as [|k IH]; intros i Hx.
  - cbn. assert (E : Qle_bool (knot ts i) x = false) by (apply Qle_bool_false; exact Hx). rewrite E. reflexivity.
  - cbn [basis].
    assert (H1 : basis ts x k i == 0) by (apply IH; exact Hx).
    assert (H2 : basis ts x k (S i) == 0) by (apply IH; specialize (Hm i); lra).
    destruct (Qlt_bool (knot ts i) (knot ts (i + S k))), (Qlt_bool (knot ts (S i)) (knot ts (i + S k + 1)));
      rewrite ?H1, ?H2; ring.
Qed.

Lemma support_right ts x k : mono ts -> forall i, knot ts (i + k + 1) <= x -> basis ts x k i == 0.
Proof.
  intros Hm. induction k as [|k IH]; intros i Hx.
  - cbn. replace (i + 0 + 1)%nat with (S i) in Hx by lia.
    assert (E : Qlt_bool x (knot ts (S i)) = false) by (apply Qlt_bool_false; exact Hx).
    rewrite E, andb_false_r. reflexivity.
  - cbn [basis].
    assert (H1 : basis ts x k i == 0).
    { apply IH. pose proof (mono_le ts (i + k + 1) (i + S k + 1) Hm ltac:(lia)). lra. }
    assert (H2 : basis ts x k (S i) == 0).
    { apply IH. replace (S i + k + 1)%nat with (i + S k + 1)%nat by lia. exact Hx. }
    destruct (Qlt_bool (knot ts i) (knot ts (i + S k))), (Qlt_bool (knot ts (S i)) (knot ts (i + S k + 1)));
      rewrite ?H1, ?H2; ring.
Qed.

Theorem local_support ts x k i :
  mono ts -> x < knot ts i \/ knot ts (i + k + 1) <= x -> basis ts x k i == 0.
Proof. intros Hm [H|H]; [apply support_left | apply support_right]; assumption. Qed.

(* ---- the guards change nothing --------------------------------------------------------------------------- *)
Lemma guarded_term ts k i x w : mono ts ->
  (if guard ts k i x then w * basis ts x k i else 0) == w * basis ts x k i.
Proof.
  intros Hm. unfold guard.
  destruct (Qle_bool (knot ts i) x) eqn:E1; cbn [andb].
  - destruct (Qle_bool x (knot ts (i + k + 1))) eqn:E2; [reflexivity|].
    apply Qle_bool_false in E2. rewrite (support_right ts x k Hm i) by lra. ring.
  - apply Qle_bool_false in E1. rewrite (support_left ts x k Hm i E1). ring.
Qed.

Lemma sum_ext (f g : nat -> Q) l : (forall i, f i == g i) ->
  fold_right Qplus 0 (map f l) == fold_right Qplus 0 (map g l).
Proof. intros H. induction l as [|i l IH]; cbn; [reflexivity|]. rewrite IH, (H i). reflexivity. Qed.

Theorem guard_harmless_1d ts ws k x : mono ts -> spline1d ts ws k x == spline_ref ts ws k x.
Proof.
  intros Hm. unfold spline1d, spline_ref. apply sum_ext. intros i. apply guarded_term. exact Hm.
Qed.

Lemma gbasis_eq ts k i x : mono ts -> gbasis ts k i x == basis ts x k i.
Proof.
  intros Hm. unfold gbasis. pose proof (guarded_term ts k i x 1 Hm) as H.
  destruct (guard ts k i x); [reflexivity|]. rewrite H. ring.
Qed.

Lemma sum_app l1 l2 : fold_right Qplus 0 (l1 ++ l2) == fold_right Qplus 0 l1 + fold_right Qplus 0 l2.
Proof. induction l1 as [|a l1 IH]; cbn; [ring|]. rewrite IH. ring. Qed.

Lemma sum_flat_ext (f g : nat -> nat -> Q) (L l : list nat) : (forall i j, f i j == g i j) ->
  fold_right Qplus 0 (flat_map (fun i => map (f i) L) l) == fold_right Qplus 0 (flat_map (fun i => map (g i) L) l).
Proof.
  intros H. induction l as [|i l IH]; cbn; [reflexivity|].
  rewrite !sum_app, IH. rewrite (sum_ext (f i) (g i) L (H i)). reflexivity.
Qed.

Theorem guard_harmless_2d tx ty ws kx ky x y :
  mono tx -> mono ty -> spline2d tx ty ws kx ky x y == spline2d_ref tx ty ws kx ky x y.
Proof.
  intros Hx Hy. unfold spline2d, spline2d_ref.
  apply (sum_flat_ext (fun i j => nth (i * nbasis ty ky + j) ws 0 * gbasis tx kx i x * gbasis ty ky j y)
                      (fun i j => nth (i * nbasis ty ky + j) ws 0 * basis tx x kx i * basis ty y ky j)).
  intros i j. rewrite (gbasis_eq tx kx i x Hx), (gbasis_eq ty ky j y Hy). reflexivity.
Qed.

(* ---- non-negativity ---------------------------------------------------------------------------------------- *)
Lemma div_nonneg a b : 0 <= a -> 0 < b -> 0 <= a / b.
Proof. intros Ha Hb. apply Qle_shift_div_l; [exact Hb|]. lra. Qed.

Theorem basis_nonneg ts x k : mono ts -> forall i, 0 <= basis ts x k i.
Proof.
  intros Hm. induction k as [|k IH]; intros i.
  - cbn. destruct (Qle_bool (knot ts i) x && Qlt_bool x (knot ts (S i))); lra.
  - cbn [basis].
    assert (T1 : 0 <= (if Qlt_bool (knot ts i) (knot ts (i + S k))
                       then (x - knot ts i) / (knot ts (i + S k) - knot ts i) * basis ts x k i else 0)).
    { destruct (Qlt_bool (knot ts i) (knot ts (i + S k))) eqn:E; [|lra].
      apply Qlt_bool_true in E.
      destruct (Qlt_le_dec x (knot ts i)) as [Hlt|Hge].
      - rewrite (support_left ts x k Hm i Hlt). lra.
      - apply Qmult_le_0_compat; [apply div_nonneg; lra | apply IH]. }
    assert (T2 : 0 <= (if Qlt_bool (knot ts (S i)) (knot ts (i + S k + 1))
                       then (knot ts (i + S k + 1) - x) / (knot ts (i + S k + 1) - knot ts (S i)) * basis ts x k (S i) else 0)).
    { destruct (Qlt_bool (knot ts (S i)) (knot ts (i + S k + 1))) eqn:E; [|lra].
      apply Qlt_bool_true in E.
      destruct (Qlt_le_dec x (knot ts (i + S k + 1))) as [Hlt|Hge].
      - apply Qmult_le_0_compat; [apply div_nonneg; lra | apply IH].
      - assert (H0 : basis ts x k (S i) == 0).
        { apply support_right; [exact Hm|]. replace (S i + k + 1)%nat with (i + S k + 1)%nat by lia. exact Hge. }
        rewrite H0. lra. }
    lra.
Qed.

(* a sorted list gives a non-decreasing knot function *)
Definition sortedb (ts : list Q) : bool :=
  forallb (fun i => Qle_bool (nth i ts 0) (nth (S i) ts 0)) (seq 0 (length ts - 1)).

Lemma nth_last (l : list Q) d : l <> [] -> nth (length l - 1) l d = last l d.
Proof.
  induction l as [|a l IH]; [congruence|]. intros _. destruct l as [|b l]; [reflexivity|].
  simpl length. replace (S (S (length l)) - 1)%nat with (S (length l)) by lia.
  change (nth (S (length l)) (a :: b :: l) d) with (nth (length l) (b :: l) d).
  change (last (a :: b :: l) d) with (last (b :: l) d).
  rewrite <- IH by discriminate. f_equal. simpl. lia.
Qed.

Lemma sorted_mono ts : sortedb ts = true -> mono ts.
Proof.
  intros Hs i. unfold knot, sortedb in *. rewrite forallb_forall in Hs.
  destruct (Nat.lt_ge_cases (S i) (length ts)) as [Hlt|Hge].
  - specialize (Hs i). rewrite in_seq in Hs. specialize (Hs ltac:(lia)). apply Qle_bool_iff in Hs.
    rewrite (nth_indep ts (last ts 0) 0) by lia. rewrite (nth_indep ts (last ts 0) 0 Hlt). exact Hs.
  - rewrite (nth_overflow ts (last ts 0) Hge).
    destruct (Nat.eq_dec (S i) (length ts)) as [E|E].
    + destruct ts as [|a ts]; [cbn in E; lia|].
      replace i with (length (a :: ts) - 1)%nat by lia.
      rewrite (nth_indep (a :: ts) (last (a :: ts) 0) 0) by (cbn [length]; lia).
      rewrite nth_last by discriminate. apply Qle_refl.
    + rewrite nth_overflow by lia. lra.
Qed.

(* ---- lookup table decisions ----------------------------------------------------------------------------------- *)
Theorem range_ordered flo fhi : fst (table_range flo fhi) <= snd (table_range flo fhi).
Proof.
  unfold table_range. destruct (Qle_bool flo fhi) eqn:E; cbn.
  - apply Qle_bool_iff. exact E.
  - apply Qle_bool_false in E. lra.
Qed.

Theorem reverse_rejects_iff_out_of_range rng v :
  reverse_decision rng (Some v) = RevReject <-> v < fst rng \/ snd rng < v.
Proof.
  unfold reverse_decision.
  destruct (Qlt_bool v (fst rng)) eqn:E1; cbn [orb].
  - apply Qlt_bool_true in E1. split; [left; exact E1|reflexivity].
  - destruct (Qlt_bool (snd rng) v) eqn:E2.
    + apply Qlt_bool_true in E2. split; [right; exact E2|reflexivity].
    + apply Qlt_bool_false in E1, E2. split; [discriminate|]. intros [H|H]; lra.
Qed.

Theorem nan_in_nan_out rng : reverse_decision rng None = RevNaN.
Proof. reflexivity. Qed.

Theorem cache_valid_iff_newer csv ini cache :
  cache_valid csv ini cache = true <->
  exists c, cache = Some c /\ (csv < c)%Z /\ (forall i, ini = Some i -> (i < c)%Z).
Proof.
  unfold cache_valid. destruct cache as [c|].
  - rewrite andb_true_iff, Z.ltb_lt. split.
    + intros (H1 & H2). exists c. split; [reflexivity|]. split; [exact H1|].
      intros i ->. apply Z.ltb_lt. exact H2.
    + intros (c' & E & H1 & H2). inversion E; subst c'. split; [exact H1|].
      destruct ini as [i|]; [apply Z.ltb_lt; apply H2; reflexivity|reflexivity].
  - split; [discriminate|]. intros (c & E & _). discriminate.
Qed.

(* non-vacuity: a clamped cubic knot vector *)
Example ex_knots : mono [0; 0; 0; 0; 1; 2; 3; 3; 3; 3].
Proof. apply sorted_mono. reflexivity. Qed.
Example ex_value : spline1d [0; 0; 0; 0; 1; 2; 3; 3; 3; 3] [1; 2; 0; 3; 1; 2] 3 (3 # 2) == 3 # 2.
Proof. vm_compute. reflexivity. Qed.
