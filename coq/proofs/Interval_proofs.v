From Coq Require Import ZArith QArith List Bool Lqa Lia.
From RT Require Import Xq Interval Xq_proofs.
Import ListNotations.
Open Scope Q_scope.

Definition wf (i : itv) : Prop := xle (lo i) (hi i) = true.
Definition sub (a b : itv) : Prop := xle (lo b) (lo a) = true /\ xle (hi a) (hi b) = true.

Lemma sub_refl a : wf a -> sub a a.
Proof. intros H. destruct (xle_nn _ _ H). split; now apply xle_refl. Qed.

Lemma sub_trans a b c : sub a b -> sub b c -> sub a c.
Proof. intros (H1 & H2) (H3 & H4). split; eapply xle_trans; eauto. Qed.

Ltac nns :=
  repeat match goal with
  | H : wf _ |- _ => unfold wf in H
  | H : xle ?a ?b = true |- _ =>
      lazymatch goal with
      | _ : nn a, _ : nn b |- _ => fail
      | _ => let Ha := fresh "Hn" in let Hb := fresh "Hn" in
             destruct (xle_nn _ _ H) as (Ha & Hb)
      end
  end.

(* enforce="other": the result lies within `other` and is a proper interval *)
Theorem update_other_sub s o : wf s -> wf o ->
  sub (update_bounds false s o) o /\ wf (update_bounds false s o).
Proof.
  intros Hs Ho. unfold wf in *. destruct (xle_nn _ _ Hs) as (Ns1 & Ns2).
  destruct (xle_nn _ _ Ho) as (No1 & No2).
  unfold update_bounds, sub, wf. cbn [lo hi].
  set (mn := npmax (lo s) (lo o)). set (mx := npmin (hi s) (hi o)).
  assert (Nmn : nn mn) by (apply npmax_nn; auto).
  assert (Nmx : nn mx) by (apply npmin_nn; auto).
  assert (Nmx2 : nn (npmax mx (lo o))) by (apply npmax_nn; auto).
  assert (Nmn2 : nn (npmin mn (hi o))) by (apply npmin_nn; auto).
  repeat split.
  - apply npmin_glb.
    + apply npmin_glb; auto. apply npmax_ub_r; auto.
    + apply npmax_ub_r; auto.
  - apply npmax_lub; auto. apply npmin_lb_r; auto.
  - apply npmin_lb_r; auto.
Qed.

(* enforce="self": the result lies within `self` *)
Theorem update_self_sub s o : wf s -> wf o ->
  sub (update_bounds true s o) s /\ wf (update_bounds true s o).
Proof.
  intros Hs Ho. unfold wf in *. destruct (xle_nn _ _ Hs) as (Ns1 & Ns2).
  destruct (xle_nn _ _ Ho) as (No1 & No2).
  unfold update_bounds, sub, wf. cbn [lo hi].
  set (mn := npmax (lo s) (lo o)). set (mx := npmin (hi s) (hi o)).
  assert (Nmn : nn mn) by (apply npmax_nn; auto).
  assert (Nmx : nn mx) by (apply npmin_nn; auto).
  assert (Nmx2 : nn (npmax mx (lo s))) by (apply npmax_nn; auto).
  assert (Nmn2 : nn (npmin mn (hi s))) by (apply npmin_nn; auto).
  repeat split.
  - apply npmin_glb.
    + apply npmin_glb; auto. apply npmax_ub_l; auto.
    + apply npmax_ub_r; auto.
  - apply npmax_lub; auto. apply npmin_lb_l; auto.
  - apply npmin_lb_r; auto.
Qed.

(* when the two intervals overlap, both variants return the intersection (within the other, too) *)
Theorem update_within_both enforce s o : wf s -> wf o ->
  xle (npmax (lo s) (lo o)) (npmin (hi s) (hi o)) = true ->
  sub (update_bounds enforce s o) s /\ sub (update_bounds enforce s o) o.
Proof.
  intros Hs Ho Hov. unfold wf in *. destruct (xle_nn _ _ Hs) as (Ns1 & Ns2).
  destruct (xle_nn _ _ Ho) as (No1 & No2). destruct (xle_nn _ _ Hov) as (Nmn & Nmx).
  assert (L1 : xle (lo s) (npmax (lo s) (lo o)) = true) by (apply npmax_ub_l; auto).
  assert (L2 : xle (lo o) (npmax (lo s) (lo o)) = true) by (apply npmax_ub_r; auto).
  assert (U1 : xle (npmin (hi s) (hi o)) (hi s) = true) by (apply npmin_lb_l; auto).
  assert (U2 : xle (npmin (hi s) (hi o)) (hi o) = true) by (apply npmin_lb_r; auto).
  unfold update_bounds, sub. cbn [lo hi].
  set (mn := npmax (lo s) (lo o)) in *. set (mx := npmin (hi s) (hi o)) in *.
  destruct enforce.
  - assert (nn (npmax mx (lo s))) by (apply npmax_nn; auto).
    assert (nn (npmin mn (hi s))) by (apply npmin_nn; auto).
    repeat split.
    + apply npmin_glb; [apply npmin_glb; auto|apply npmax_ub_r; auto].
    + apply npmax_lub; auto.
    + apply npmin_glb; [apply npmin_glb; auto|].
      * eapply xle_trans; [exact L2|]. eapply xle_trans; [exact Hov|exact U1].
      * eapply xle_trans; [exact L2|]. eapply xle_trans; [exact Hov|]. apply npmax_ub_l; auto.
    + apply npmax_lub; auto. eapply xle_trans; [exact L1|]. eapply xle_trans; [exact Hov|exact U2].
  - assert (nn (npmax mx (lo o))) by (apply npmax_nn; auto).
    assert (nn (npmin mn (hi o))) by (apply npmin_nn; auto).
    repeat split.
    + apply npmin_glb; [apply npmin_glb; auto|].
      * eapply xle_trans; [exact L1|]. eapply xle_trans; [exact Hov|exact U2].
      * eapply xle_trans; [exact L1|]. eapply xle_trans; [exact Hov|]. apply npmax_ub_l; auto.
    + apply npmax_lub; auto. eapply xle_trans; [exact L2|]. eapply xle_trans; [exact Hov|exact U1].
    + apply npmin_glb; [apply npmin_glb; auto|apply npmax_ub_r; auto].
    + apply npmax_lub; auto.
Qed.

(* ---- lists ------------------------------------------------------------------------------------ *)
Lemma update_l_other s : forall o, length s = length o -> Forall wf s -> Forall wf o ->
  Forall2 sub (update_bounds_l false s o) o /\ Forall wf (update_bounds_l false s o) /\
  length (update_bounds_l false s o) = length o.
Proof.
  induction s as [|a s IH]; intros [|b o] Hl Hs Ho; cbn in *; try discriminate.
  - repeat split; constructor.
  - inversion Hs; inversion Ho; subst. destruct (IH o ltac:(lia) H2 H6) as (I1 & I2 & I3).
    destruct (update_other_sub a b H1 H5). repeat split; auto; cbn; lia.
Qed.

Lemma update_l_self s : forall o, length s = length o -> Forall wf s -> Forall wf o ->
  Forall2 sub (update_bounds_l true s o) s /\ Forall wf (update_bounds_l true s o) /\
  length (update_bounds_l true s o) = length s.
Proof.
  induction s as [|a s IH]; intros [|b o] Hl Hs Ho; cbn in *; try discriminate.
  - repeat split; constructor.
  - inversion Hs; inversion Ho; subst. destruct (IH o ltac:(lia) H2 H6) as (I1 & I2 & I3).
    destruct (update_self_sub a b H1 H5). repeat split; auto; cbn; lia.
Qed.

Lemma Forall2_sub_refl l : Forall wf l -> Forall2 sub l l.
Proof. induction 1; constructor; auto using sub_refl. Qed.

Lemma Forall2_sub_trans a : forall b c, Forall2 sub a b -> Forall2 sub b c -> Forall2 sub a c.
Proof.
  induction a as [|x a IH]; intros b c H1 H2; inversion H1; subst; inversion H2; subst; constructor.
  - eapply sub_trans; eauto.
  - eapply IH; eauto.
Qed.

(* ---- the constraint store only ever shrinks ---------------------------------------------------- *)
Lemma store_get_set_same st fk v : store_get (store_set st fk v) fk = Some v.
Proof.
  induction st as [|[k w] t IH]; cbn.
  - now rewrite Z.eqb_refl.
  - destruct (k =? fk)%Z eqn:E; cbn; rewrite E; auto.
Qed.

Lemma store_get_set_other st fk fk' v : fk <> fk' ->
  store_get (store_set st fk v) fk' = store_get st fk'.
Proof.
  intros Hn. induction st as [|[k w] t IH]; cbn.
  - destruct (fk =? fk')%Z eqn:E; auto. apply Z.eqb_eq in E. congruence.
  - destruct (k =? fk)%Z eqn:E; cbn.
    + apply Z.eqb_eq in E. subst. destruct (fk =? fk')%Z eqn:E2; auto.
      apply Z.eqb_eq in E2. congruence.
    + destruct (k =? fk')%Z; auto.
Qed.

Definition op_fk (o : store_op) : Z := match o with OpCritical fk _ | OpHard fk _ => fk end.
Definition op_c (o : store_op) : list itv := match o with OpCritical _ c | OpHard _ c => c end.

Lemma store_step_shrinks st o fk v :
  store_get st fk = Some v -> Forall wf v ->
  (op_fk o = fk -> length (op_c o) = length v /\ Forall wf (op_c o)) ->
  exists v', store_get (store_step st o) fk = Some v' /\ Forall2 sub v' v /\ Forall wf v' /\
             length v' = length v.
Proof.
  intros Hg Hw Hop.
  destruct (Z.eq_dec (op_fk o) fk) as [He|Hne].
  - destruct (Hop He) as (Hl & Hc).
    destruct o as [k c|k c]; cbn in He, Hl, Hc; subst k; cbn [store_step];
      unfold store_add_critical, store_add_hard; rewrite Hg, store_get_set_same.
    + destruct (update_l_self v c ltac:(lia) Hw Hc) as (H1 & H2 & H3). eauto.
    + destruct (update_l_other c v Hl Hc Hw) as (H1 & H2 & H3). eauto.
  - exists v. split; [|split; [now apply Forall2_sub_refl|auto]].
    destruct o as [k c|k c]; cbn in Hne; cbn [store_step];
      unfold store_add_critical, store_add_hard;
      destruct (store_get st k); rewrite store_get_set_other; auto.
Qed.

Theorem store_monotone ops : forall st fk v,
  store_get st fk = Some v -> Forall wf v ->
  (forall o, In o ops -> op_fk o = fk -> length (op_c o) = length v /\ Forall wf (op_c o)) ->
  exists v', store_get (fold_left store_step ops st) fk = Some v' /\ Forall2 sub v' v /\ Forall wf v'.
Proof.
  induction ops as [|o ops IH]; intros st fk v Hg Hw Hops; cbn [fold_left].
  - exists v. auto using Forall2_sub_refl.
  - destruct (store_step_shrinks st o fk v Hg Hw (Hops o (or_introl eq_refl)))
      as (v1 & G1 & S1 & W1 & L1).
    destruct (IH (store_step st o) fk v1 G1 W1) as (v2 & G2 & S2 & W2).
    { intros o' Hin He. rewrite L1. apply Hops; auto. now right. }
    exists v2. repeat split; auto. eapply Forall2_sub_trans; eauto.
Qed.

(* membership of a (scaled) function value in an interval *)
Definition inI (y : Q) (I : itv) : Prop := xle (lo I) (XFin y) = true /\ xle (XFin y) (hi I) = true.

Lemma sub_inI y a b : sub a b -> inI y a -> inI y b.
Proof. intros (H1 & H2) (H3 & H4). split; eapply xle_trans; eauto. Qed.

Theorem store_later_within_earlier ops st fk v :
  store_get st fk = Some v -> Forall wf v ->
  (forall o, In o ops -> op_fk o = fk -> length (op_c o) = length v /\ Forall wf (op_c o)) ->
  exists v', store_get (fold_left store_step ops st) fk = Some v' /\
    forall i y, (i < length v')%nat -> inI y (nth i v' {| lo := XNaN; hi := XNaN |}) ->
                inI y (nth i v {| lo := XNaN; hi := XNaN |}).
Proof.
  intros Hg Hw Hops. destruct (store_monotone ops st fk v Hg Hw Hops) as (v' & G & S & W).
  exists v'. split; auto. intros i y Hi Hin.
  assert (Hs : sub (nth i v' {| lo := XNaN; hi := XNaN |}) (nth i v {| lo := XNaN; hi := XNaN |})).
  { clear -S Hi. revert i Hi. induction S; intros i Hi; cbn in Hi; [lia|].
    destruct i; cbn; auto. apply IHS. lia. }
  eapply sub_inI; eauto.
Qed.
