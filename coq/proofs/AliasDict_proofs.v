From Coq Require Import ZArith List Bool Lia.
From RT Require Import AliasDict AliasDictSpec.
Import ListNotations.
Open Scope Z_scope.

Lemma neg_value_invol v : neg_value (neg_value v) = v.
Proof.
  destruct v as [z|a b|l]; cbn; f_equal; try lia.
  rewrite map_map. rewrite <- (map_id l) at 2. apply map_ext. intros; lia.
Qed.

Lemma flip_flip s s' v : flip s' (flip s v) = flip (xorb s s') v.
Proof. destruct s, s'; cbn; auto using neg_value_invol. Qed.

(* ---- association list facts --------------------------------------------------------------- *)
Lemma lookup_set_same d c v : lookup (assoc_set d c v) c = Some v.
Proof.
  induction d as [|[c' v'] t IH]; cbn.
  - now rewrite Z.eqb_refl.
  - destruct (c =? c') eqn:E; cbn; rewrite ?E; auto.
Qed.

Lemma lookup_set_other d c c' v : c <> c' -> lookup (assoc_set d c v) c' = lookup d c'.
Proof.
  intros Hn. induction d as [|[c2 v2] t IH]; cbn.
  - destruct (c' =? c) eqn:E; auto. apply Z.eqb_eq in E. congruence.
  - destruct (c =? c2) eqn:E; cbn.
    + apply Z.eqb_eq in E. subst c2.
      destruct (c' =? c) eqn:E2; auto. apply Z.eqb_eq in E2. congruence.
    + destruct (c' =? c2); auto.
Qed.

Lemma lookup_in_keys d c : lookup d c <> None <-> In c (keys d).
Proof.
  induction d as [|[c' v'] t IH]; cbn.
  - split; [congruence | tauto].
  - destruct (c =? c') eqn:E.
    + apply Z.eqb_eq in E. subst. split; [auto | congruence].
    + apply Z.eqb_neq in E. rewrite IH. split; [auto | intros [H|H]; [congruence | auto]].
Qed.

Lemma keys_set d c v :
  keys (assoc_set d c v) = if existsb (Z.eqb c) (keys d) then keys d else keys d ++ [c].
Proof.
  unfold keys. induction d as [|[c' v'] t IH]; cbn; auto.
  destruct (c =? c') eqn:E; cbn; auto.
  rewrite IH. destruct (existsb _ _); auto.
Qed.

Lemma existsb_eqb_In c l : existsb (Z.eqb c) l = true <-> In c l.
Proof.
  rewrite existsb_exists. split.
  - intros [x [Hx E]]. apply Z.eqb_eq in E. now subst.
  - intros H. exists c. split; auto. apply Z.eqb_refl.
Qed.

Lemma NoDup_snoc (l : list Z) c : NoDup l -> ~ In c l -> NoDup (l ++ [c]).
Proof.
  induction l as [|x t IH]; cbn; intros Hn Hc.
  - constructor; auto.
  - inversion Hn; subst. constructor.
    + rewrite in_app_iff. cbn. intros [H|[H|[]]]; auto.
    + apply IH; auto.
Qed.

Lemma nodup_set d c v : NoDup (keys d) -> NoDup (keys (assoc_set d c v)).
Proof.
  intros H. rewrite keys_set. destruct (existsb _ _) eqn:E; auto.
  apply NoDup_snoc; auto. intros Hin. apply existsb_eqb_In in Hin. congruence.
Qed.

Lemma keys_del_incl d c x : In x (keys (assoc_del d c)) -> In x (keys d).
Proof.
  induction d as [|[c' v'] t IH]; cbn; auto.
  destruct (c =? c'); cbn; intuition.
Qed.

Lemma nodup_del d c : NoDup (keys d) -> NoDup (keys (assoc_del d c)).
Proof.
  induction d as [|[c' v'] t IH]; cbn; intros H; auto.
  inversion H; subst. destruct (c =? c'); cbn; auto.
  constructor; auto. intros Hin. apply keys_del_incl in Hin. auto.
Qed.

Lemma lookup_del_same d c : NoDup (keys d) -> lookup (assoc_del d c) c = None.
Proof.
  induction d as [|[c' v'] t IH]; cbn; intros H; auto.
  inversion H; subst.
  destruct (c =? c') eqn:E; cbn; rewrite ?E; auto.
  apply Z.eqb_eq in E. subst.
  destruct (lookup t c') eqn:L; auto.
  exfalso. apply H2. apply lookup_in_keys. congruence.
Qed.

Lemma lookup_del_other d c c' : c <> c' -> lookup (assoc_del d c) c' = lookup d c'.
Proof.
  intros Hn. induction d as [|[c2 v2] t IH]; cbn; auto.
  destruct (c =? c2) eqn:E; cbn.
  - apply Z.eqb_eq in E. subst. destruct (c' =? c2) eqn:E2; auto.
    apply Z.eqb_eq in E2. congruence.
  - destruct (c' =? c2); auto.
Qed.

Lemma length_set d c v :
  length (assoc_set d c v) = if existsb (Z.eqb c) (keys d) then length d else S (length d).
Proof.
  induction d as [|[c' v'] t IH]; cbn; auto.
  destruct (c =? c') eqn:E; cbn; auto.
  rewrite IH. destruct (existsb _ _); auto.
Qed.

(* ---- AliasDict ---------------------------------------------------------------------------- *)
Section Dict.
  Variable canon : Z -> Z * bool.
  Local Notation cls := (AliasDictSpec.cls canon).
  Local Notation sgn := (AliasDictSpec.sgn canon).
  Local Notation same_quantity := (AliasDictSpec.same_quantity canon).

  Lemma csigned_true k : csigned canon true k = (cls k, sgn k).
  Proof. unfold csigned, AliasDictSpec.cls, AliasDictSpec.sgn. destruct (canon k); auto. Qed.

  Lemma csigned_false k : csigned canon false k = (cls k, false).
  Proof. unfold csigned, AliasDictSpec.cls, AliasDictSpec.sgn. destruct (canon k); auto. Qed.

  Lemma get_after_set_signed d k k' v :
    same_quantity k k' ->
    ad_get canon true (ad_set canon true d k v) k' = Some (flip (xorb (sgn k) (sgn k')) v).
  Proof.
    unfold AliasDictSpec.same_quantity, ad_get, ad_set. intros H.
    rewrite !csigned_true. rewrite <- H. rewrite lookup_set_same. cbn.
    now rewrite flip_flip.
  Qed.

  Lemma get_after_set_unsigned d k k' v :
    same_quantity k k' ->
    ad_get canon false (ad_set canon false d k v) k' = Some v.
  Proof.
    unfold AliasDictSpec.same_quantity, ad_get, ad_set. intros H.
    rewrite !csigned_false. rewrite <- H. rewrite lookup_set_same. reflexivity.
  Qed.

  Lemma frame signed d k k' v :
    ~ same_quantity k k' ->
    ad_get canon signed (ad_set canon signed d k v) k' = ad_get canon signed d k'.
  Proof.
    unfold AliasDictSpec.same_quantity, ad_get, ad_set. intros H.
    destruct signed; rewrite ?csigned_true, ?csigned_false;
      rewrite lookup_set_other; auto.
  Qed.

  (* abstraction: the class map *)
  Definition abs (d : dict) : Z -> option value := lookup d.

  Lemma csigned_gen signed k : csigned canon signed k = (cls k, signed && sgn k).
  Proof. destruct signed; [apply csigned_true | apply csigned_false]. Qed.

  Lemma set_refines signed d k v c :
    abs (ad_set canon signed d k v) c = spec_set canon signed (abs d) k v c.
  Proof.
    unfold abs, ad_set, spec_set. rewrite csigned_gen.
    destruct (c =? cls k) eqn:E.
    - apply Z.eqb_eq in E. subst. apply lookup_set_same.
    - apply Z.eqb_neq in E. apply lookup_set_other. congruence.
  Qed.

  Lemma get_refines signed d k : ad_get canon signed d k = spec_get canon signed (abs d) k.
  Proof. unfold ad_get, spec_get, abs. now rewrite csigned_gen. Qed.

  Lemma contains_refines signed d k :
    ad_contains canon signed d k = match abs d (cls k) with Some _ => true | None => false end.
  Proof. unfold ad_contains, abs. now rewrite csigned_gen. Qed.

  Lemma del_refines signed d k d' c :
    NoDup (keys d) -> ad_del canon signed d k = Some d' -> abs d' c = spec_del canon (abs d) k c.
  Proof.
    unfold ad_del, abs, spec_del. intros Hn. rewrite csigned_gen. cbn [fst].
    destruct (ad_contains _ _ _ _); [|discriminate]. intros [= <-].
    destruct (c =? cls k) eqn:E.
    - apply Z.eqb_eq in E. subst. now apply lookup_del_same.
    - apply Z.eqb_neq in E. apply lookup_del_other. congruence.
  Qed.

  Lemma del_fails_iff signed d k :
    ad_del canon signed d k = None <-> abs d (cls k) = None.
  Proof.
    unfold ad_del. rewrite contains_refines. destruct (abs d (cls k)); split; congruence.
  Qed.

  (* invariant of every reachable dictionary: one entry per class *)
  Definition Inv (d : dict) : Prop := NoDup (keys d).

  Lemma set_inv signed d k v : Inv d -> Inv (ad_set canon signed d k v).
  Proof. unfold Inv, ad_set. destruct (csigned _ _ _). apply nodup_set. Qed.

  Lemma update_inv signed kvs : forall d, Inv d -> Inv (ad_update canon signed d kvs).
  Proof.
    unfold ad_update. induction kvs as [|kv t IH]; cbn; auto.
    intros d H. apply IH. now apply set_inv.
  Qed.

  Lemma step_inv signed d o : Inv d -> Inv (fst (step canon signed d o)).
  Proof.
    intros H. destruct o as [k v|k|k|k| | |k v|k v|kvs|]; cbn [step fst]; auto using set_inv, update_inv.
    - destruct (ad_del canon signed d k) as [d'|] eqn:E; cbn [fst]; auto.
      unfold ad_del in E. destruct (ad_contains canon signed d k); [|discriminate].
      injection E as <-. now apply nodup_del.
    - destruct (ad_get canon signed d k); cbn [fst]; auto using set_inv.
  Qed.

  Lemma run_inv signed ops : forall d, Inv d -> Inv (fst (run canon signed d ops)).
  Proof.
    induction ops as [|o t IH]; cbn; auto. intros d H.
    pose proof (step_inv signed d o H) as Hs. destruct (step canon signed d o) as [d' r].
    specialize (IH d' Hs). destruct (run canon signed d' t). exact IH.
  Qed.

  (* len() counts classes: the key list has no duplicates and lists exactly the present classes *)
  Lemma len_counts_classes d :
    Inv d -> NoDup (keys d) /\ length d = length (keys d) /\
             (forall c, In c (keys d) <-> abs d c <> None).
  Proof.
    intros H. split; auto. split.
    - unfold keys. now rewrite map_length.
    - intros c. symmetry. apply lookup_in_keys.
  Qed.

  (* a set through any alias never changes the number of classes except by adding a new one *)
  Lemma set_len signed d k v :
    length (ad_set canon signed d k v) =
    match abs d (cls k) with Some _ => length d | None => S (length d) end.
  Proof.
    unfold ad_set, abs. rewrite csigned_gen. rewrite length_set.
    destruct (existsb _ _) eqn:E.
    - apply existsb_eqb_In in E. apply lookup_in_keys in E. destruct (lookup d (cls k)); congruence.
    - destruct (lookup d (cls k)) eqn:L; auto.
      assert (In (cls k) (keys d)) as Hin by (apply lookup_in_keys; congruence).
      apply existsb_eqb_In in Hin. congruence.
  Qed.

  (* keys are canonical names only *)
  Definition canonical_keys (d : dict) : Prop := forall c, In c (keys d) -> exists k, c = cls k.

  Lemma set_canonical signed d k v : canonical_keys d -> canonical_keys (ad_set canon signed d k v).
  Proof.
    unfold canonical_keys, ad_set. rewrite csigned_gen. intros H c. rewrite keys_set.
    destruct (existsb _ _); auto. rewrite in_app_iff. cbn. intros [Hc|[Hc|[]]]; eauto.
  Qed.
End Dict.

(* ---- refinement of whole operation sequences to the class-map specification ---------------- *)
Section Refinement.
  Variable canon : Z -> Z * bool.
  Variable signed : bool.
  Notation cmap := (Z -> option value).

  Definition out_matches (r : out) (s : sout) : Prop :=
    match s, r with
    | SNone, RNone => True
    | SKeyError, RKeyError => True
    | SVal v, RVal w => v = w
    | SBool b, RBool b' => b = b'
    | SUnspecified, (RLen _ | RKeys _ | RItems _) => True
    | _, _ => False
    end.

  Definition R (d : dict) (m : cmap) : Prop := Inv d /\ forall c, abs d c = m c.

  Lemma spec_get_ext m m' k : (forall c, m c = m' c) -> spec_get canon signed m k = spec_get canon signed m' k.
  Proof. unfold spec_get. intros H. now rewrite H. Qed.

  Lemma update_refines kvs : forall d m, R d m -> R (ad_update canon signed d kvs) (spec_update canon signed m kvs).
  Proof.
    unfold ad_update, spec_update. induction kvs as [|[k v] t IH]; cbn [fold_left fst snd]; auto.
    intros d m [Hi He]. apply IH. split.
    - now apply set_inv.
    - intros c. rewrite set_refines. unfold spec_set. destruct (c =? cls canon k); auto.
  Qed.

  Lemma step_refines d m o :
    R d m ->
    R (fst (step canon signed d o)) (fst (spec_step canon signed m o)) /\
    out_matches (snd (step canon signed d o)) (snd (spec_step canon signed m o)).
  Proof.
    intros [Hi He]. destruct o as [k v|k|k|k| | |k v|k v|kvs|]; cbn [step spec_step fst snd].
    - split; [split|exact I]. now apply set_inv.
      intros c. rewrite set_refines. unfold spec_set. destruct (c =? cls canon k); auto.
    - rewrite get_refines, (spec_get_ext _ m k He).
      split; [split; auto|]. destruct (spec_get canon signed m k); cbn; auto.
    - destruct (ad_del canon signed d k) as [d'|] eqn:E.
      + assert (abs d (cls canon k) <> None) as Hc.
        { intros Hc. apply (del_fails_iff canon signed) in Hc. congruence. }
        rewrite He in Hc. destruct (m (cls canon k)) eqn:Em; [|congruence].
        cbn [fst snd]. split; [split|exact I].
        * unfold ad_del in E. destruct (ad_contains canon signed d k); [|discriminate].
          injection E as <-. now apply nodup_del.
        * intros c. rewrite (del_refines canon signed d k d' c Hi E).
          unfold spec_del. destruct (c =? cls canon k); auto.
      + apply del_fails_iff in E. rewrite He in E. rewrite E. cbn. split; [split; auto|exact I].
    - rewrite contains_refines, He. split; [split; auto|]. cbn. reflexivity.
    - split; [split; auto|exact I].
    - split; [split; auto|exact I].
    - rewrite get_refines, (spec_get_ext _ m k He).
      split; [split; auto|]. destruct (spec_get canon signed m k); cbn; auto.
    - rewrite get_refines, (spec_get_ext _ m k He).
      destruct (spec_get canon signed m k); cbn [fst snd]; (split; [split|cbn; auto]); auto.
      + now apply set_inv.
      + intros c. rewrite set_refines. unfold spec_set. destruct (c =? cls canon k); auto.
    - split; [|exact I]. now apply update_refines.
    - split; [split; auto|exact I].
  Qed.

  Lemma run_refines ops : forall d m,
    R d m ->
    R (fst (run canon signed d ops)) (fst (spec_run canon signed m ops)) /\
    Forall2 out_matches (snd (run canon signed d ops)) (snd (spec_run canon signed m ops)).
  Proof.
    induction ops as [|o t IH]; cbn [run spec_run]; intros d m HR.
    - cbn. split; auto.
    - destruct (step_refines d m o HR) as [HR' Ho].
      destruct (step canon signed d o) as [d' r]. destruct (spec_step canon signed m o) as [m' s].
      cbn [fst snd] in *. destruct (IH d' m' HR') as [HR'' Hos].
      destruct (run canon signed d' t) as [d'' rs]. destruct (spec_run canon signed m' t) as [m'' ss].
      cbn [fst snd] in *. split; auto.
  Qed.

  Lemma R_empty : R [] (fun _ => None).
  Proof. split; [constructor | reflexivity]. Qed.
End Refinement.
