From Coq Require Import ZArith QArith List Bool Arith Lia Sorted.
From RT Require Import Xq TimeAxis.
Import ListNotations.
Open Scope Z_scope.

Definition increasing (l : list Z) : Prop := StronglySorted Z.lt l.

(* ---- datetimes <-> seconds ------------------------------------------------------------------------ *)
Lemma index_of_shift ref d l i : index_of (d - ref) (map (fun x => x - ref) l) i = index_of d l i.
Proof.
  revert i. induction l as [|y l IH]; intros i; [reflexivity|]. cbn.
  replace (y - ref =? d - ref) with (y =? d) by (destruct (Z.eqb_spec y d), (Z.eqb_spec (y - ref) (d - ref)); lia || reflexivity).
  destruct (y =? d); [reflexivity|]. apply IH.
Qed.

(* a value stored for a datetime is the value retrieved at the corresponding offset *)
Theorem store_retrieve dts ref vals d :
  value_at_sec dts ref vals (d - ref) = value_at dts vals d.
Proof. unfold value_at_sec, value_at, times_sec. rewrite index_of_shift. reflexivity. Qed.

Lemma times_sec_increasing dts ref : increasing dts -> increasing (times_sec dts ref).
Proof.
  unfold increasing, times_sec. induction 1 as [|x l Hs IH Hall]; cbn; constructor; [exact IH|].
  rewrite Forall_forall in *. intros y Hy. apply in_map_iff in Hy. destruct Hy as (z & <- & Hz).
  specialize (Hall z Hz). lia.
Qed.

(* ---- bisect on sorted lists ------------------------------------------------------------------------- *)
Lemma filter_none_lt x l : Forall (fun y => x <= y) l -> filter (fun y => y <? x) l = [].
Proof.
  induction 1 as [|y l Hy Hl IH]; [reflexivity|]. cbn. destruct (Z.ltb_spec y x); [lia|]. exact IH.
Qed.

Lemma skipn_bisect l x : increasing l -> skipn (bisect_left l x) l = filter (fun y => negb (y <? x)) l.
Proof.
  unfold bisect_left. induction 1 as [|y l Hs IH Hall]; [reflexivity|]. cbn [filter].
  destruct (Z.ltb_spec y x); cbn [negb length skipn].
  - exact IH.
  - assert (Hall' : Forall (fun z => x <= z) l).
    { rewrite Forall_forall in *. intros z Hz. specialize (Hall z Hz). lia. }
    rewrite (filter_none_lt x l Hall'). cbn [length skipn]. f_equal.
    clear IH Hs Hall. induction Hall' as [|z l Hz Hl IH]; [reflexivity|]. cbn.
    destruct (Z.ltb_spec z x); [lia|]. cbn. f_equal. exact IH.
Qed.

Lemma firstn_bisect l x : increasing l -> firstn (bisect_left l x) l = filter (fun y => y <? x) l.
Proof.
  unfold bisect_left. induction 1 as [|y l Hs IH Hall]; [reflexivity|]. cbn [filter].
  destruct (Z.ltb_spec y x); cbn [length firstn].
  - f_equal. exact IH.
  - assert (Hall' : Forall (fun z => x <= z) l).
    { rewrite Forall_forall in *. intros z Hz. specialize (Hall z Hz). lia. }
    rewrite (filter_none_lt x l Hall'). reflexivity.
Qed.

Lemma increasing_filter (g : Z -> bool) l : increasing l -> increasing (filter g l).
Proof.
  induction 1 as [|y l Hs IH Hall]; cbn; [constructor|]. destruct (g y); [|exact IH].
  constructor; [exact IH|]. rewrite Forall_forall in *. intros z Hz. apply filter_In in Hz. apply Hall. tauto.
Qed.

Lemma increasing_hd_min l x : increasing l -> In x l -> hd x l <= x.
Proof.
  intros Hs Hin. destruct l as [|y l]; [contradiction|]. cbn. inversion Hs as [|? ? _ Hall]; subst.
  destruct Hin as [->|Hin]; [lia|]. rewrite Forall_forall in Hall. specialize (Hall x Hin). lia.
Qed.

(* ---- the horizon starts at t0 --------------------------------------------------------------------------- *)
Lemma zero_on_axis dts ref : In ref dts -> In 0 (times_sec dts ref).
Proof. intros H. unfold times_sec. apply in_map_iff. exists ref. split; [lia|exact H]. Qed.

Theorem horizon_spec dts ref :
  increasing dts ->
  horizon dts ref = filter (fun t => negb (t <? 0)) (times_sec dts ref).
Proof. intros H. unfold horizon, t_pos. apply skipn_bisect. apply times_sec_increasing. exact H. Qed.

Theorem horizon_starts_at_t0 dts ref :
  increasing dts -> In ref dts ->
  hd 1 (horizon dts ref) = 0 /\ Forall (fun t => 0 <= t) (horizon dts ref).
Proof.
  intros Hs Hin. rewrite horizon_spec by exact Hs.
  set (h := filter (fun t => negb (t <? 0)) (times_sec dts ref)).
  assert (Hall : Forall (fun t => 0 <= t) h).
  { apply Forall_forall. intros t Ht. apply filter_In in Ht. destruct Ht as (_ & Ht).
    destruct (Z.ltb_spec t 0); [discriminate|lia]. }
  assert (H0 : In 0 h).
  { apply filter_In. split; [apply zero_on_axis; exact Hin|reflexivity]. }
  split; [|exact Hall].
  assert (Hinc : increasing h) by (apply increasing_filter, times_sec_increasing; exact Hs).
  pose proof (increasing_hd_min h 0 Hinc H0) as Hle.
  destruct h as [|y l]; [contradiction|]. cbn in *. inversion Hall; subst. lia.
Qed.

(* history: everything up to and including t0, nothing later *)
Lemma nth_hd_skipn {A} n (l : list A) d : nth n l d = hd d (skipn n l).
Proof. revert l. induction n as [|n IH]; intros l; destruct l as [|y l]; simpl; try reflexivity; apply IH. Qed.

Lemma bisect_mem_nth l x : increasing l -> In x l -> nth (bisect_left l x) l (x + 1) = x.
Proof.
  intros Hs Hin.
  pose proof (skipn_bisect l x Hs) as Hsk.
  assert (Hhd : hd (x + 1) (skipn (bisect_left l x) l) = x).
  { rewrite Hsk.
    set (h := filter (fun y => negb (y <? x)) l).
    assert (Hx : In x h) by (apply filter_In; split; [exact Hin|rewrite Z.ltb_irrefl; reflexivity]).
    assert (Hall : Forall (fun y => x <= y) h).
    { apply Forall_forall. intros y Hy. apply filter_In in Hy. destruct Hy as (_ & Hy). destruct (Z.ltb_spec y x); [discriminate|lia]. }
    assert (Hinc : increasing h) by (apply increasing_filter; exact Hs).
    pose proof (increasing_hd_min h x Hinc Hx) as Hle.
    destruct h as [|y t]; [contradiction|]. cbn in *. inversion Hall; subst. lia. }
  rewrite nth_hd_skipn. exact Hhd.
Qed.

Lemma firstn_succ_nth n (l : list Z) : nth n l (0 + 1) = 0 -> (n < length l)%nat -> firstn (n + 1) l = firstn n l ++ [0].
Proof.
  revert l. induction n as [|n IH]; intros l0; destruct l0 as [|y l0]; cbn; intros Hn Hlt; try lia.
  - subst. reflexivity.
  - f_equal. apply IH; [exact Hn|lia].
Qed.

Theorem history_upto_t0 dts ref :
  increasing dts -> In ref dts ->
  history dts ref (times_sec dts ref) = filter (fun t => t <? 0) (times_sec dts ref) ++ [0].
Proof.
  intros Hs Hin. unfold history, t_pos.
  pose proof (times_sec_increasing dts ref Hs) as Hinc.
  set (l := times_sec dts ref) in *.
  pose proof (zero_on_axis dts ref Hin) as H0. fold l in H0.
  rewrite <- (firstn_bisect l 0 Hinc).
  pose proof (bisect_mem_nth l 0 Hinc H0) as Hn.
  assert (Hlt : (bisect_left l 0 < length l)%nat).
  { destruct (Nat.lt_ge_cases (bisect_left l 0) (length l)) as [H|H]; [exact H|].
    rewrite nth_overflow in Hn by exact H. lia. }
  apply firstn_succ_nth; [exact Hn|exact Hlt].
Qed.

(* ---- bounds from <var>_Min / <var>_Max ---------------------------------------------------------------------- *)
Lemma nth_skipn' {A} n (l : list A) i d : nth i (skipn n l) d = nth (n + i) l d.
Proof. revert l; induction n as [|n IH]; intros l; [reflexivity|]. destruct l; [destruct i; reflexivity|]. cbn. apply IH. Qed.

Theorem bounds_from_minmax dts ref lower vals i :
  (t_pos dts ref + i < length vals)%nat ->
  nth i (bound_series dts ref lower vals) XNaN =
  match nth (t_pos dts ref + i) vals None with
  | Some q => XFin q
  | None => if lower then XNInf else XPInf
  end.
Proof.
  intros Hi. unfold bound_series.
  set (g := fun v : val => match v with Some q => XFin q | None => if lower then XNInf else XPInf end).
  rewrite nth_indep with (d' := g None) by (rewrite map_length, skipn_length; lia).
  rewrite map_nth, nth_skipn'. reflexivity.
Qed.

(* ---- set_timeseries ------------------------------------------------------------------------------------------ *)
Lemma nth_repeat_none n i : nth i (repeat (@None Q) n) None = None.
Proof. revert i; induction n as [|n IH]; intros [|i]; cbn; auto. Qed.

Lemma my_nth_firstn {A} n (l : list A) i d : (i < n)%nat -> nth i (firstn n l) d = nth i l d.
Proof.
  revert l i; induction n as [|n IH]; intros l i Hi; [lia|].
  destruct l as [|x l]; [destruct i; reflexivity|]. destruct i; [reflexivity|]. cbn. apply IH. lia.
Qed.

(* values given without time stamps start at t0; before t0 the series is missing *)
Theorem set_without_times_starts_t0 dts ref vals i :
  (t_pos dts ref + length vals <= length dts)%nat ->
  nth (t_pos dts ref + i) (set_plain dts ref vals) None = nth i vals None /\
  forall j, (j < t_pos dts ref)%nat -> nth j (set_plain dts ref vals) None = None.
Proof.
  intros Hlen. unfold set_plain, stretch. split.
  - rewrite app_nth2 by (rewrite repeat_length; lia). rewrite repeat_length.
    replace (t_pos dts ref + i - t_pos dts ref)%nat with i by lia.
    destruct (Nat.lt_ge_cases i (length vals)) as [Hi|Hi].
    + rewrite app_nth1 by (rewrite firstn_length; lia). apply my_nth_firstn. lia.
    + rewrite (nth_overflow vals) by exact Hi.
      rewrite app_nth2 by (rewrite firstn_length; lia). apply nth_repeat_none.
  - intros j Hj. rewrite app_nth1 by (rewrite repeat_length; exact Hj). apply nth_repeat_none.
Qed.

Lemma set_plain_length dts ref vals :
  (t_pos dts ref <= length dts)%nat -> length (set_plain dts ref vals) = length dts.
Proof.
  intros H. unfold set_plain, stretch. rewrite !app_length, !repeat_length, firstn_length. lia.
Qed.

(* values given with time stamps are stored at those time stamps *)
Lemma index_of_bound x l i k : index_of x l i = Some k -> (i <= k < i + length l)%nat.
Proof.
  revert i. induction l as [|y l IH]; intros i; cbn; [discriminate|].
  destruct (y =? x); [intros H; inversion H; lia|]. intros H. apply IH in H. lia.
Qed.

Lemma index_of_nth x l i k : index_of x l i = Some k -> nth (k - i) l (x + 1) = x.
Proof.
  revert i. induction l as [|y l IH]; intros i; cbn; [discriminate|].
  destruct (Z.eqb_spec y x).
  - intros H. inversion H. subst. rewrite Nat.sub_diag. reflexivity.
  - intros H. pose proof (index_of_bound _ _ _ _ H) as Hb. specialize (IH _ H).
    replace (k - i)%nat with (S (k - S i)) by lia. exact IH.
Qed.

Lemma index_of_nodup l : NoDup l -> forall i k, (k < length l)%nat -> index_of (nth k l 0) l i = Some (i + k)%nat.
Proof.
  induction 1 as [|y l Hy Hnd IH]; intros i k Hk; cbn in *; [lia|].
  destruct k as [|k].
  - rewrite Z.eqb_refl. f_equal. lia.
  - destruct (Z.eqb_spec y (nth k l 0)) as [E|E].
    + exfalso. apply Hy. rewrite E. apply nth_In. lia.
    + rewrite IH by lia. f_equal. lia.
Qed.

Lemma index_of_some_in x l i : In x l -> exists k, index_of x l i = Some k.
Proof.
  revert i. induction l as [|y l IH]; intros i Hin; [contradiction|]. cbn.
  destruct (Z.eqb_spec y x); [eexists; reflexivity|]. destruct Hin as [->|Hin]; [congruence|]. apply IH. exact Hin.
Qed.

Theorem place_aligned axis ts vals k :
  NoDup ts -> (k < length ts)%nat -> In (nth k ts 0) axis ->
  match index_of (nth k ts 0) axis 0 with
  | Some j => nth j (place axis ts vals) None = nth k vals None
  | None => False
  end.
Proof.
  intros Hnd Hk Hin. destruct (index_of_some_in _ _ 0%nat Hin) as (j & Hj). rewrite Hj.
  pose proof (index_of_bound _ _ _ _ Hj) as Hb. pose proof (index_of_nth _ _ _ _ Hj) as Hn.
  rewrite Nat.sub_0_r in Hn. unfold place.
  set (g := fun t => match index_of t ts 0 with Some i => nth i vals None | None => None end).
  rewrite nth_indep with (d' := g (nth k ts 0 + 1)) by (rewrite map_length; lia).
  rewrite map_nth, Hn. unfold g. rewrite (index_of_nodup ts Hnd 0%nat k Hk). reflexivity.
Qed.

(* ---- export ----------------------------------------------------------------------------------------------- *)
Lemma combine_nth_lt {A B} (l1 : list A) (l2 : list B) i d1 d2 :
  (i < length l1)%nat -> (i < length l2)%nat -> nth i (combine l1 l2) (d1, d2) = (nth i l1 d1, nth i l2 d2).
Proof.
  revert l2 i. induction l1 as [|x l1 IH]; intros l2 i H1 H2; cbn in *; [lia|].
  destruct l2 as [|y l2]; cbn in *; [lia|]. destruct i; [reflexivity|]. apply IH; lia.
Qed.

Theorem export_aligned dts ref results i :
  (i < length (horizon dts ref))%nat -> (i < length results)%nat ->
  nth i (export_column dts ref results) (0, None) = (ref + nth i (horizon dts ref) 0, nth i results None).
Proof.
  intros H1 H2. unfold export_column, export_stamps.
  rewrite combine_nth_lt by (rewrite ?map_length; assumption).
  rewrite nth_indep with (d' := (fun t => ref + t) 0) by (rewrite map_length; exact H1).
  rewrite map_nth. reflexivity.
Qed.

(* ---- simulation input feed -------------------------------------------------------------------------------------- *)
Lemma bisect_is_index l t : increasing l -> forall i k, index_of t l i = Some k -> (bisect_left l t + i)%nat = k.
Proof.
  induction 1 as [|y l Hs IH Hall]; intros i k; cbn; [discriminate|].
  destruct (Z.eqb_spec y t) as [->|Hne].
  - intros H. inversion H. subst. unfold bisect_left. cbn. rewrite Z.ltb_irrefl.
    assert (Hf : filter (fun z => z <? t) l = []).
    { apply filter_none_lt. rewrite Forall_forall in *. intros z Hz. specialize (Hall z Hz). lia. }
    rewrite Hf. reflexivity.
  - intros H.
    assert (Hin : In t l).
    { clear IH Hall Hs. revert H. generalize (S i). induction l as [|z l IHl]; cbn; [discriminate|].
      intros n. destruct (Z.eqb_spec z t); [left; assumption|]. intros H. right. eapply IHl. exact H. }
    assert (Hlt : y < t) by (rewrite Forall_forall in Hall; apply Hall; exact Hin).
    specialize (IH (S i) k H). unfold bisect_left in *. cbn.
    destruct (Z.ltb_spec y t); [|lia]. cbn. lia.
Qed.

Theorem sim_input_is_value_at dts ref (vals : list val) t :
  increasing dts -> In t (times_sec dts ref) ->
  sim_input dts ref vals t = value_at_sec dts ref vals t.
Proof.
  intros Hs Hin. unfold sim_input, value_at_sec.
  destruct (index_of_some_in _ _ 0%nat Hin) as (k & Hk). rewrite Hk.
  pose proof (bisect_is_index _ t (times_sec_increasing dts ref Hs) 0%nat k Hk) as H.
  rewrite Nat.add_0_r in H. rewrite H. reflexivity.
Qed.

(* non-vacuity *)
Example ex_axis : increasing [0; 3600; 7200; 10800] /\ In 3600 [0; 3600; 7200; 10800].
Proof. split; [repeat constructor; lia | right; left; reflexivity]. Qed.
Example ex_horizon : horizon [0; 3600; 7200; 10800] 3600 = [0; 3600; 7200].
Proof. reflexivity. Qed.
