From Coq Require Import ZArith QArith Qabs List Bool Lqa Lia.
From RT Require Import Homotopy HomotopySpec.
Import ListNotations.
Open Scope Q_scope.

(* ---- boolean comparisons on Q ------------------------------------------------------------- *)
Lemma Qlt_bool_iff a b : Qlt_bool a b = true <-> a < b.
Proof.
  unfold Qlt_bool. rewrite negb_true_iff. split.
  - intros H. apply Qnot_le_lt. intros Hle. apply Qle_bool_iff in Hle. congruence.
  - intros H. destruct (Qle_bool b a) eqn:E; auto. apply Qle_bool_iff in E. lra.
Qed.

Lemma Qlt_bool_false a b : Qlt_bool a b = false <-> b <= a.
Proof.
  unfold Qlt_bool. rewrite negb_false_iff. apply Qle_bool_iff.
Qed.

Lemma Qle_bool_false a b : Qle_bool a b = false <-> b < a.
Proof.
  split.
  - intros H. apply Qnot_le_lt. intros Hle. apply Qle_bool_iff in Hle. congruence.
  - intros H. destruct (Qle_bool a b) eqn:E; auto. apply Qle_bool_iff in E. lra.
Qed.

Lemma Qge_bool_iff a b : Qge_bool a b = true <-> b <= a.
Proof. unfold Qge_bool. apply Qle_bool_iff. Qed.

Lemma Qge_bool_false a b : Qge_bool a b = false <-> a < b.
Proof. unfold Qge_bool. apply Qle_bool_false. Qed.

Lemma Qeq_bool_false a b : Qeq_bool a b = false <-> ~ a == b.
Proof.
  split.
  - intros H E. apply Qeq_bool_iff in E. congruence.
  - intros H. destruct (Qeq_bool a b) eqn:E; auto. apply Qeq_bool_iff in E. contradiction.
Qed.

Lemma Qclose0_iff a b : Qclose 0 a b = true <-> a == b.
Proof.
  unfold Qclose. rewrite Qle_bool_iff, Qabs_Qle_condition. split; intros H; lra.
Qed.

Ltac b2p :=
  repeat match goal with
  | H : Qle_bool _ _ = true |- _ => apply Qle_bool_iff in H
  | H : Qle_bool _ _ = false |- _ => apply Qle_bool_false in H
  | H : Qlt_bool _ _ = true |- _ => apply Qlt_bool_iff in H
  | H : Qlt_bool _ _ = false |- _ => apply Qlt_bool_false in H
  | H : Qge_bool _ _ = true |- _ => apply Qge_bool_iff in H
  | H : Qge_bool _ _ = false |- _ => apply Qge_bool_false in H
  | H : Qeq_bool _ _ = true |- _ => apply Qeq_bool_iff in H
  | H : Qeq_bool _ _ = false |- _ => apply Qeq_bool_false in H
  end.

Ltac b2ph H :=
  first [ apply Qle_bool_iff in H | apply Qle_bool_false in H | apply Qlt_bool_iff in H
        | apply Qlt_bool_false in H | apply Qge_bool_iff in H | apply Qge_bool_false in H
        | apply Qeq_bool_iff in H | apply Qeq_bool_false in H ].

Ltac qb :=
  match goal with
  | |- Qle_bool _ _ = true => apply Qle_bool_iff; lra
  | |- Qle_bool _ _ = false => apply Qle_bool_false; lra
  | |- Qlt_bool _ _ = true => apply Qlt_bool_iff; lra
  | |- Qlt_bool _ _ = false => apply Qlt_bool_false; lra
  | |- Qge_bool _ _ = true => apply Qge_bool_iff; lra
  | |- Qge_bool _ _ = false => apply Qge_bool_false; lra
  | |- Qeq_bool _ _ = true => apply Qeq_bool_iff; lra
  | |- Qclose 0 _ _ = true => apply Qclose0_iff; lra
  end.

(* ---- the invariant of the loop state -------------------------------------------------------- *)
Definition wf (o : opts) : Prop :=
  0 <= theta_start o /\ theta_start o <= 1 /\ 0 < delta0 o /\ 0 < delta_min o.

(* state before a solve at th with increment dl, last accepted acc, previous event prev *)
Definition St (o : opts) (th dl acc : Q) (prev : option (Q * bool)) : Prop :=
  0 < dl /\ th <= 1 /\ theta_start o <= acc /\
  match prev with
  | None => th = theta_start o /\ acc = theta_start o
  | Some (thp, true) => acc = thp /\ acc < th /\ dl == th - acc
  | Some (thp, false) => acc < th /\ th < thp /\ th - acc == (thp - acc) * (1 # 2) /\ dl == th - acc
  end.

Lemma step_spec th dl : th < 1 -> 0 < dl ->
  let (th', dl') := step th dl in th < th' /\ th' <= 1 /\ dl' == th' - th /\ 0 < dl' /\
                                   (th + dl < 1 -> th' = th + dl /\ dl' = dl).
Proof.
  intros H1 H2. unfold step. destruct (Qge_bool (th + dl) 1) eqn:E; b2p.
  - repeat split; try lra.
  - repeat split; try lra.
Qed.

Lemma chk_nonempty o tol ret acc prev tr : chk o tol ret acc prev tr = true -> tr <> [].
Proof. destruct tr; cbn; congruence. Qed.

Lemma seed_ok_refl q : seed_ok 0 (Some q) (Some q) = true.
Proof. cbn. qb. Qed.

Lemma where_ok o th dl acc prev :
  St o th dl acc prev ->
    match prev with
    | None => Qeq_bool th (theta_start o) &&
              seed_ok 0 (if Qlt_bool (theta_start o) th then Some acc else None) None
    | Some (thp, true) => Qlt_bool thp th &&
              seed_ok 0 (if Qlt_bool (theta_start o) th then Some acc else None) (Some acc)
    | Some (thp, false) => Qlt_bool th thp && Qlt_bool acc th &&
              Qclose 0 (th - acc) ((thp - acc) * (1 # 2)) &&
              seed_ok 0 (if Qlt_bool (theta_start o) th then Some acc else None) (Some acc)
    end = true.
Proof.
  intros (Hdl & Hth1 & Hacc & Hprev).
  destruct prev as [[thp [|]]|].
  - destruct Hprev as (-> & H1 & H2).
    assert (Qlt_bool (theta_start o) th = true) as -> by qb.
    rewrite seed_ok_refl. rewrite andb_true_r. qb.
  - destruct Hprev as (H1 & H2 & H3 & H4).
    assert (Qlt_bool (theta_start o) th = true) as -> by qb.
    rewrite seed_ok_refl. rewrite andb_true_r.
    repeat (apply andb_true_intro; split); qb.
  - destruct Hprev as (-> & ->).
    assert (Qlt_bool (theta_start o) (theta_start o) = false) as -> by qb.
    cbn. rewrite andb_true_r. qb.
Qed.

Lemma loop_chk o oracle : wf o ->
  forall fuel n th dl acc prev ret tr,
    St o th dl acc prev ->
    loop fuel o oracle n th dl acc = (Some ret, tr) ->
    chk o 0 ret acc prev tr = true.
Proof.
  intros (W0 & W1 & W2 & W3).
  induction fuel as [|fuel IH]; intros n th dl acc prev ret tr HSt Hl; [cbn in Hl; congruence|].
  cbn [loop] in Hl.
  pose proof HSt as HSt'.
  destruct HSt as (Hdl & Hth1 & Hacc & Hprev).
  assert (Hle1 : Qle_bool th 1 = true) by qb.
  assert (Hths : theta_start o <= th).
  { destruct prev as [[thp [|]]|].
    - destruct Hprev as (_ & H1 & H2). lra.
    - destruct Hprev as (H1 & H2 & H3 & H4). lra.
    - destruct Hprev as (-> & _). lra. }
  destruct (oracle n) eqn:Eok.
  - (* success *)
    destruct (Qge_bool th 1) eqn:E1.
    + injection Hl as <- <-. cbn [chk ev_theta ev_ok ev_seed].
      rewrite Hle1, (where_ok _ _ _ _ _ HSt'). b2ph E1. assert (Qle_bool 1 th = true) as -> by qb. reflexivity.
    + b2ph E1. pose proof (step_spec th dl E1 Hdl) as Hs.
      destruct (step th dl) as [th' dl'].
      destruct Hs as (Hs1 & Hs2 & Hs3 & Hs4 & _).
      destruct (loop fuel o oracle (S n) th' dl' th) as [r t] eqn:El.
      injection Hl as -> <-.
      assert (chk o 0 ret th (Some (th, true)) t = true) as Hc.
      { eapply IH; [|exact El]. repeat split; try reflexivity; try lra. }
      cbn [chk ev_theta ev_ok ev_seed].
      rewrite Hle1, (where_ok _ _ _ _ _ HSt'). assert (Qle_bool 1 th = false) as -> by qb.
      rewrite Hc. pose proof (chk_nonempty _ _ _ _ _ _ Hc). destruct t; [congruence|reflexivity].
  - (* failure *)
    destruct (Qeq_bool th (theta_start o)) eqn:Eeq.
    + injection Hl as <- <-. cbn [chk ev_theta ev_ok ev_seed].
      rewrite Hle1, (where_ok _ _ _ _ _ HSt'). b2ph Eeq.
      destruct prev as [[thp [|]]|]; [| |reflexivity].
      * destruct Hprev as (-> & H1 & H2). lra.
      * destruct Hprev as (H1 & H2 & H3 & H4). lra.
    + destruct prev as [[thp b]|].
      2:{ destruct Hprev as (-> & ->). b2ph Eeq. exfalso. apply Eeq. reflexivity. }
      assert (Hd : dl == th - acc /\ acc < th).
      { destruct b; [destruct Hprev as (-> & H1 & H2)|destruct Hprev as (H1 & H2 & H3 & H4)]; split; lra. }
      destruct Hd as (Hd & Hlt).
      destruct (Qlt_bool (dl * (1 # 2)) (delta_min o)) eqn:Emin.
      * injection Hl as <- <-. cbn [chk ev_theta ev_ok ev_seed].
        rewrite Hle1, (where_ok _ _ _ _ _ HSt'). b2ph Emin.
        assert (Qlt_bool ((th - acc) * (1 # 2)) (delta_min o - 0) = true) as -> by qb.
        reflexivity.
      * b2ph Emin.
        assert (acc < 1) as Ha1 by (b2ph Hle1; lra).
        assert (0 < dl * (1 # 2)) as Hd2 by lra.
        pose proof (step_spec acc (dl * (1 # 2)) Ha1 Hd2) as Hs.
        destruct (step acc (dl * (1 # 2))) as [th' dl'].
        destruct Hs as (Hs1 & Hs2 & Hs3 & Hs4 & Hs5).
        assert (acc + dl * (1 # 2) < 1) as Hnc by lra.
        destruct (Hs5 Hnc) as (-> & ->).
        destruct (loop fuel o oracle (S n) (acc + dl * (1 # 2)) (dl * (1 # 2)) acc) as [r t] eqn:El.
        injection Hl as -> <-.
        assert (chk o 0 ret acc (Some (th, false)) t = true) as Hc.
        { eapply IH; [|exact El]. repeat split; try reflexivity; try lra. }
        cbn [chk ev_theta ev_ok ev_seed].
        rewrite Hle1, (where_ok _ _ _ _ _ HSt').
        assert (Qlt_bool ((th - acc) * (1 # 2)) (delta_min o - 0) = false) as -> by qb.
        rewrite Hc. pose proof (chk_nonempty _ _ _ _ _ _ Hc).
        destruct (Qlt_bool (delta_min o + 0) ((th - acc) * (1 # 2))); destruct t; try congruence; reflexivity.
Qed.

Theorem protocol o oracle fuel ret tr :
  wf o -> run fuel o oracle = (Some ret, tr) -> trace_ok o 0 ret tr = true.
Proof.
  intros W H. unfold trace_ok. eapply loop_chk; eauto.
  destruct W as (W0 & W1 & W2 & W3). repeat split; auto; lra.
Qed.

(* ---- termination with an explicit bound ------------------------------------------------------ *)
Fixpoint pow2 (n : nat) : Q := match n with O => 1 | S n' => 2 * pow2 n' end.
Definition qn (n : nat) : Q := inject_Z (Z.of_nat n).

Lemma qn_S n : qn (S n) == qn n + 1.
Proof.
  unfold qn. rewrite Nat2Z.inj_succ. unfold Z.succ. rewrite inject_Z_plus. reflexivity.
Qed.

Lemma qn_0 : qn 0 == 0.
Proof. reflexivity. Qed.

Lemma pow2_pos n : 0 < pow2 n.
Proof. induction n; cbn [pow2]; lra. Qed.

Section Termination.
  Variable o : opts.
  Variable oracle : nat -> bool.
  Variable mu : Q.
  Variable H S : nat.
  Hypothesis W : wf o.
  Hypothesis Hmu0 : 0 < mu.
  Hypothesis Hmu1 : mu <= delta0 o.
  Hypothesis Hmu2 : mu <= delta_min o.
  Hypothesis HH : delta0 o < delta_min o * pow2 H.
  Hypothesis HS : 1 - theta_start o <= mu * qn S.

  Definition TI (th dl acc : Q) (hb sb : nat) : Prop :=
    0 < dl /\ th <= 1 /\ theta_start o <= acc /\ (acc < th \/ th == theta_start o) /\
    (mu <= dl \/ th == 1) /\ dl < delta_min o * pow2 hb /\ 1 - th <= mu * qn sb /\ (sb <= S)%nat.

  Lemma TI_intro th dl acc hb sb :
    0 < dl -> th <= 1 -> theta_start o <= acc -> (acc < th \/ th == theta_start o) ->
    (mu <= dl \/ th == 1) -> dl < delta_min o * pow2 hb -> 1 - th <= mu * qn sb -> (sb <= S)%nat ->
    TI th dl acc hb sb.
  Proof. unfold TI. intuition. Qed.

  Lemma loop_terminates :
    forall fuel n th dl acc hb sb,
      TI th dl acc hb sb ->
      (hb * (S + 2) + sb + 1 <= fuel)%nat ->
      exists ret tr, loop fuel o oracle n th dl acc = (Some ret, tr) /\
                     (length tr <= hb * (S + 2) + sb + 1)%nat.
  Proof.
    destruct W as (W0 & W1 & W2 & W3).
    induction fuel as [|fuel IH]; intros n th dl acc hb sb HTI Hf; [lia|].
    destruct HTI as (Hdl & Hth1 & Hacc & Hord & Hmu & Hhb & Hsb & HsbS).
    cbn [loop].
    destruct (oracle n).
    - (* success *)
      destruct (Qge_bool th 1) eqn:E1.
      + eexists _, _. split; [reflexivity|]. cbn. lia.
      + b2ph E1.
        assert (Hth : theta_start o <= th) by (destruct Hord; lra).
        destruct sb as [|sb].
        { exfalso. rewrite qn_0 in Hsb. lra. }
        rewrite qn_S in Hsb.
        unfold step. destruct (Qge_bool (th + dl) 1) eqn:E2; b2ph E2.
        * (* clamped: next solve at 1 *)
          destruct (IH (Datatypes.S n) 1 (1 - th) th hb 0%nat) as (ret & tr & -> & Hlen).
          { apply TI_intro; try lra; try lia; try (rewrite qn_0; lra). }
          { lia. }
          eexists _, _. split; [reflexivity|]. cbn [length]. lia.
        * destruct (IH (Datatypes.S n) (th + dl) dl th hb sb) as (ret & tr & -> & Hlen).
          { assert (mu <= dl) as Hmu' by (destruct Hmu as [Hmu|Hmu]; lra).
            assert (mu * (qn sb + 1) == mu * qn sb + mu) as Hr by ring.
            apply TI_intro; try lra; try lia. }
          { lia. }
          eexists _, _. split; [reflexivity|]. cbn [length]. lia.
    - (* failure *)
      destruct (Qeq_bool th (theta_start o)) eqn:Eeq.
      + eexists _, _. split; [reflexivity|]. cbn. lia.
      + b2ph Eeq.
        destruct (Qlt_bool (dl * (1 # 2)) (delta_min o)) eqn:Emin.
        * eexists _, _. split; [reflexivity|]. cbn. lia.
        * b2ph Emin.
          destruct hb as [|hb].
          { exfalso. cbn [pow2] in Hhb. lra. }
          cbn [pow2] in Hhb.
          assert (Hlt : acc < th) by (destruct Hord; [auto|contradiction]).
          assert (Hb : dl * (1 # 2) < delta_min o * pow2 hb).
          { assert (delta_min o * (2 * pow2 hb) == 2 * (delta_min o * pow2 hb)) as Hr by ring. lra. }
          assert (HSq : 1 - acc <= mu * qn S) by lra.
          unfold step. destruct (Qge_bool (acc + dl * (1 # 2)) 1) eqn:E2; b2ph E2.
          -- destruct (IH (Datatypes.S n) 1 (1 - acc) acc hb S) as (ret & tr & -> & Hlen).
             { apply TI_intro; try lra; try lia. }
             { lia. }
             eexists _, _. split; [reflexivity|]. cbn [length]. lia.
          -- destruct (IH (Datatypes.S n) (acc + dl * (1 # 2)) (dl * (1 # 2)) acc hb S)
               as (ret & tr & -> & Hlen).
             { apply TI_intro; try lra; try lia. }
             { lia. }
             eexists _, _. split; [reflexivity|]. cbn [length]. lia.
  Qed.

  Definition bound : nat := H * (S + 2) + S + 1.

  Theorem run_terminates :
    forall fuel, (bound <= fuel)%nat ->
      exists ret tr, run fuel o oracle = (Some ret, tr) /\ (length tr <= bound)%nat.
  Proof.
    intros fuel Hf. unfold run, bound in *.
    apply loop_terminates; [|exact Hf].
    destruct W as (W0 & W1 & W2 & W3).
    apply TI_intro; try lra; try lia.
  Qed.
End Termination.

(* ---- readable corollaries of trace_ok -------------------------------------------------------- *)
Lemma chk_le_one o tol ret : forall tr acc prev,
  chk o tol ret acc prev tr = true -> Forall (fun e => ev_theta e <= 1) tr.
Proof.
  induction tr as [|e rest IH]; intros acc prev Hc; [constructor|].
  cbn [chk] in Hc.
  apply andb_true_iff in Hc. destruct Hc as (Hc & Hnext).
  apply andb_true_iff in Hc. destruct Hc as (Hle & _).
  constructor; [now apply Qle_bool_iff|].
  destruct (ev_ok e).
  - destruct (Qle_bool 1 (ev_theta e)).
    + apply andb_true_iff in Hnext. destruct Hnext as (Hl & _). destruct rest; [constructor|discriminate].
    + apply andb_true_iff in Hnext. destruct Hnext as (_ & Hn). eauto.
  - destruct prev as [p|].
    + destruct (Qlt_bool _ _).
      * apply andb_true_iff in Hnext. destruct Hnext as (Hl & _). destruct rest; [constructor|discriminate].
      * destruct (Qlt_bool _ _).
        -- apply andb_true_iff in Hnext. destruct Hnext as (_ & Hn). eauto.
        -- destruct rest; [constructor|]. eauto.
    + apply andb_true_iff in Hnext. destruct Hnext as (Hl & _). destruct rest; [constructor|discriminate].
Qed.

Lemma chk_last o tol ret : forall tr acc prev,
  chk o tol ret acc prev tr = true ->
  exists pre e, tr = pre ++ [e] /\ ev_ok e = ret /\ (ret = true -> ev_theta e == 1).
Proof.
  induction tr as [|e rest IH]; intros acc prev Hc; [discriminate|].
  cbn [chk] in Hc.
  apply andb_true_iff in Hc. destruct Hc as (Hc & Hnext).
  apply andb_true_iff in Hc. destruct Hc as (Hle & _). apply Qle_bool_iff in Hle.
  assert (Hcons : forall acc' prev', chk o tol ret acc' prev' rest = true ->
            exists pre e0, e :: rest = pre ++ [e0] /\ ev_ok e0 = ret /\ (ret = true -> ev_theta e0 == 1)).
  { intros acc' prev' Hn. destruct (IH _ _ Hn) as (pre & e0 & -> & H1 & H2).
    exists (e :: pre), e0. auto. }
  destruct (ev_ok e) eqn:Eok.
  - destruct (Qle_bool 1 (ev_theta e)) eqn:E1.
    + apply andb_true_iff in Hnext. destruct Hnext as (Hl & Hr).
      destruct rest; [|discriminate]. apply eqb_prop in Hr. subst ret.
      exists [], e. repeat split; auto. intros _. apply Qle_bool_iff in E1. lra.
    + apply andb_true_iff in Hnext. destruct Hnext as (_ & Hn). eauto.
  - assert (Hend : match rest with [] => true | _ => false end && eqb ret false = true ->
              exists pre e0, e :: rest = pre ++ [e0] /\ ev_ok e0 = ret /\ (ret = true -> ev_theta e0 == 1)).
    { intros Hx. apply andb_true_iff in Hx. destruct Hx as (Hl & Hr).
      destruct rest; [|discriminate]. apply eqb_prop in Hr. subst ret.
      exists [], e. repeat split; auto. discriminate. }
    destruct prev as [p|]; [|auto].
    destruct (Qlt_bool _ _); [auto|].
    destruct (Qlt_bool _ _).
    + apply andb_true_iff in Hnext. destruct Hnext as (_ & Hn). eauto.
    + destruct rest as [|e1 rest'].
      * apply Hend. now rewrite Hnext.
      * eauto.
Qed.
