From Coq Require Import ZArith QArith List Bool Lqa Lia.
From RT Require Import Xq LinOrder Interp_proofs.
Import ListNotations.
Open Scope Q_scope.

Definition qn (n : nat) : Q := inject_Z (Z.of_nat n).

Lemma qn_S n : qn (S n) == qn n + 1.
Proof. unfold qn. rewrite Nat2Z.inj_succ. unfold Z.succ. rewrite inject_Z_plus. reflexivity. Qed.

Lemma qn_nonneg n : 0 <= qn n.
Proof. unfold qn. change 0 with (inject_Z 0). rewrite <- Zle_Qle. lia. Qed.

Lemma pw_nonneg x r : 0 <= x -> 0 <= pw x r.
Proof. intros H. induction r; cbn; [lra|]. apply Qmult_le_0_compat; auto. Qed.

Lemma pw_wd x y r : x == y -> pw x r == pw y r.
Proof. intros H. induction r; cbn; [reflexivity|]. rewrite IHr, H. reflexivity. Qed.

Lemma sq_nonneg x : 0 <= x * x.
Proof.
  destruct (Qlt_le_dec x 0) as [H|H].
  - assert (x * x == (- x) * (- x)) as -> by ring. apply Qmult_le_0_compat; lra.
  - apply Qmult_le_0_compat; auto.
Qed.

(* tangent inequality for x^r on the non-negative rationals:
   b^(r+1) >= a^(r+1) + (r+1) a^r (b - a) *)
Lemma tangent a b r : 0 <= a -> 0 <= b ->
  pw a (S r) + qn (S r) * pw a r * (b - a) <= pw b (S r).
Proof.
  intros Ha Hb. induction r as [|r IH].
  - assert (Hq : qn 1 == 1) by reflexivity. cbn [pw]. rewrite Hq. lra.
  - (* b^(r+2) = b * b^(r+1) >= b * (a^(r+1) + (r+1) a^r (b-a)) and the difference to the claim is
       (r+1) a^r (b-a)^2 >= 0 *)
    assert (Hp : 0 <= pw a r) by now apply pw_nonneg.
    assert (Hn : 0 <= qn (S r)) by apply qn_nonneg.
    change (pw b (S (S r))) with (b * pw b (S r)).
    change (pw a (S (S r))) with (a * pw a (S r)).
    rewrite (qn_S (S r)).
    assert (H1 : b * (pw a (S r) + qn (S r) * pw a r * (b - a)) <= b * pw b (S r)).
    { rewrite (Qmult_comm b), (Qmult_comm b (pw b (S r))). apply Qmult_le_compat_r; auto. }
    change (pw a (S r)) with (a * pw a r) in *.
    assert (Hsq : 0 <= qn (S r) * pw a r * ((b - a) * (b - a))).
    { apply Qmult_le_0_compat; [apply Qmult_le_0_compat; auto|]. apply sq_nonneg. }
    nra.
Qed.

(* three-point convexity of x^(r+1) on the non-negative rationals *)
Lemma three_point a m b r : 0 <= a -> a <= m -> m <= b ->
  pw m (S r) * (b - a) <= pw a (S r) * (b - m) + pw b (S r) * (m - a).
Proof.
  intros Ha Ham Hmb.
  assert (Hm : 0 <= m) by lra. assert (Hb : 0 <= b) by lra.
  pose proof (tangent m a r Hm Ha) as T1. pose proof (tangent m b r Hm Hb) as T2.
  set (d := qn (S r) * pw m r) in *.
  set (fa := pw a (S r)) in *. set (fm := pw m (S r)) in *. set (fb := pw b (S r)) in *.
  assert (H1 : (fm + d * (a - m)) * (b - m) <= fa * (b - m)) by (apply Qmult_le_compat_r; lra).
  assert (H2 : (fm + d * (b - m)) * (m - a) <= fb * (m - a)) by (apply Qmult_le_compat_r; lra).
  assert (E : (fm + d * (a - m)) * (b - m) + (fm + d * (b - m)) * (m - a) == fm * (b - a)) by ring.
  lra.
Qed.

Lemma pw_mono a b r : 0 <= a -> a <= b -> pw a r <= pw b r.
Proof.
  intros Ha Hab. induction r as [|r IH]; cbn; [lra|].
  assert (0 <= pw a r) by now apply pw_nonneg.
  assert (0 <= b) by lra.
  assert (a * pw a r <= b * pw a r) by (apply Qmult_le_compat_r; auto).
  assert (b * pw a r <= b * pw b r).
  { rewrite (Qmult_comm b), (Qmult_comm b (pw b r)). apply Qmult_le_compat_r; auto. }
  lra.
Qed.

(* the chord through (x0, x0^r) and (x1, x1^r), scaled by its base length *)
Lemma line_scaled r x0 x1 e : x0 < x1 ->
  line_val (coef r x0 x1) e * (x1 - x0) == pw x0 r * (x1 - e) + pw x1 r * (e - x0).
Proof. intros H. unfold line_val, coef. cbn [fst snd]. field. lra. Qed.

(* on its own segment the chord lies on or above the curve ... *)
Lemma chord_above r x0 x1 e : 0 <= x0 -> x0 < x1 -> x0 <= e -> e <= x1 ->
  pw e (S r) <= line_val (coef (S r) x0 x1) e.
Proof.
  intros H0 H01 H1 H2.
  pose proof (three_point x0 e x1 r H0 H1 H2) as T.
  pose proof (line_scaled (S r) x0 x1 e H01) as L.
  assert (Hpos : 0 < x1 - x0) by lra.
  apply (Qmult_le_r _ _ (x1 - x0) Hpos). lra.
Qed.

(* ... and outside of it on or below the curve *)
Lemma chord_below_right r x0 x1 e : 0 <= x0 -> x0 < x1 -> x1 <= e ->
  line_val (coef (S r) x0 x1) e <= pw e (S r).
Proof.
  intros H0 H01 H1.
  pose proof (three_point x0 x1 e r H0 ltac:(lra) H1) as T.
  pose proof (line_scaled (S r) x0 x1 e H01) as L.
  assert (Hpos : 0 < x1 - x0) by lra.
  apply (Qmult_le_r _ _ (x1 - x0) Hpos). lra.
Qed.

Lemma chord_below_left r x0 x1 e : 0 <= e -> e <= x0 -> x0 < x1 ->
  line_val (coef (S r) x0 x1) e <= pw e (S r).
Proof.
  intros H0 H1 H01.
  pose proof (three_point e x0 x1 r H0 H1 ltac:(lra)) as T.
  pose proof (line_scaled (S r) x0 x1 e H01) as L.
  assert (Hpos : 0 < x1 - x0) by lra.
  apply (Qmult_le_r _ _ (x1 - x0) Hpos). lra.
Qed.

(* slopes are non-negative: the penalty is non-decreasing *)
Lemma coef_slope_nonneg r x0 x1 : 0 <= x0 -> x0 < x1 -> 0 <= fst (coef r x0 x1).
Proof.
  intros H0 H01. unfold coef. cbn [fst].
  pose proof (pw_mono x0 x1 r H0 ltac:(lra)).
  apply Qle_shift_div_l; lra.
Qed.

(* ---- the maximum of all chords ------------------------------------------------------------------- *)
Lemma qmax_ub_l a b : a <= qmax a b.
Proof. unfold qmax. destruct (Qle_bool a b) eqn:E; [apply Qle_bool_iff in E; lra|lra]. Qed.
Lemma qmax_ub_r a b : b <= qmax a b.
Proof.
  unfold qmax. destruct (Qle_bool a b) eqn:E; [lra|].
  assert (~ a <= b) by (intros H; apply Qle_bool_iff in H; congruence). lra.
Qed.
Lemma qmax_lub a b c : a <= c -> b <= c -> qmax a b <= c.
Proof. unfold qmax. destruct (Qle_bool a b); auto. Qed.

Lemma fold_max_ge ls e : forall acc, acc <= fold_left (fun acc l' => qmax acc (line_val l' e)) ls acc.
Proof.
  induction ls as [|l t IH]; intros acc; cbn; [lra|].
  eapply Qle_trans; [apply (qmax_ub_l acc (line_val l e))|apply IH].
Qed.

Lemma fold_max_in ls e l : In l ls -> forall acc,
  line_val l e <= fold_left (fun acc l' => qmax acc (line_val l' e)) ls acc.
Proof.
  induction ls as [|l0 t IH]; intros Hin acc; [contradiction|]. cbn.
  destruct Hin as [->|Hin].
  - eapply Qle_trans; [apply (qmax_ub_r acc (line_val l e))|apply fold_max_ge].
  - now apply IH.
Qed.

Lemma fold_max_le ls e c : (forall l, In l ls -> line_val l e <= c) -> forall acc, acc <= c ->
  fold_left (fun acc l' => qmax acc (line_val l' e)) ls acc <= c.
Proof.
  induction ls as [|l0 t IH]; intros H acc Ha; cbn; auto.
  apply IH; [intros l Hl; apply H; now right|]. apply qmax_lub; auto. apply H. now left.
Qed.

Lemma penalty_ge ls e l : In l ls -> line_val l e <= penalty ls e.
Proof.
  destruct ls as [|l0 t]; [contradiction|]. intros [->|Hin]; cbn [penalty].
  - apply fold_max_ge.
  - now apply fold_max_in.
Qed.

Lemma penalty_le ls e c : ls <> [] -> (forall l, In l ls -> line_val l e <= c) -> penalty ls e <= c.
Proof.
  destruct ls as [|l0 t]; [congruence|]. intros _ H. cbn [penalty].
  apply fold_max_le; [intros l Hl; apply H; now right|apply H; now left].
Qed.

(* breakpoints: strictly increasing, starting at 0 *)
Fixpoint incr0 (lo : Q) (xs : list Q) : Prop :=
  match xs with
  | [] => True
  | x :: t => lo < x /\ incr0 x t
  end.

Lemma incr0_lt lo xs x : incr0 lo xs -> In x xs -> lo < x.
Proof.
  revert lo. induction xs as [|y t IH]; intros lo H Hin; [contradiction|].
  destruct H as (H1 & H2). destruct Hin as [->|Hin]; auto.
  specialize (IH y H2 Hin). lra.
Qed.

(* every chord joins two consecutive breakpoints a < b, both at or after x0 *)
Lemma lines_spec r : forall xs x0, incr0 x0 xs ->
  Forall (fun l => exists a b, l = coef r a b /\ x0 <= a /\ a < b /\ In b xs /\
                               (forall x, In x (x0 :: xs) -> x <= a \/ b <= x))
         (lines r (x0 :: xs)).
Proof.
  induction xs as [|x1 t IH]; intros x0 H; [constructor|].
  destruct H as (H01 & Ht). cbn [lines]. constructor.
  - exists x0, x1. repeat split; try lra; [now left|].
    intros x [<-|[<-|Hx]]; [left; lra|right; lra|]. right.
    pose proof (incr0_lt x1 t x Ht Hx). lra.
  - specialize (IH x1 Ht). rewrite Forall_forall in *. intros l Hl.
    destruct (IH l Hl) as (a & b & -> & Ha & Hab & Hb & Hsep).
    exists a, b. repeat split; auto; try lra; [now right|].
    intros x [<-|Hx]; [left; lra|]. now apply Hsep.
Qed.

Lemma last_indep (x : Q) t d d' : last (x :: t) d = last (x :: t) d'.
Proof. revert x. induction t as [|z t IH]; intros x; auto. cbn [last]. apply IH. Qed.

Lemma last_cons_default (x : Q) t d : last (x :: t) d = last t x.
Proof. destruct t as [|z t]; auto. change (last (x :: z :: t) d) with (last (z :: t) d). apply last_indep. Qed.

Lemma incr0_le_last : forall xs lo x, incr0 lo xs -> In x (lo :: xs) -> x <= last xs lo.
Proof.
  induction xs as [|x1 t IH]; intros lo x Hi Hin.
  - destruct Hin as [<-|[]]. cbn. lra.
  - destruct Hi as (H01 & Ht). rewrite last_cons_default.
    destruct Hin as [<-|Hin].
    + pose proof (IH x1 x1 Ht (or_introl eq_refl)). lra.
    + now apply IH.
Qed.

Section Penalty.
  Variable r : nat.              (* order = S r >= 1 *)
  Variable x0 : Q.
  Variable xs : list Q.
  Hypothesis Hx0 : 0 <= x0.
  Hypothesis Hinc : incr0 x0 xs.
  Hypothesis Hne : xs <> [].

  Let ls := lines (S r) (x0 :: xs).

  Lemma ls_nonempty : ls <> [].
  Proof. unfold ls. destruct xs; [congruence|]. cbn. discriminate. Qed.

  (* never underestimates *)
  Theorem penalty_majorises e : x0 <= e -> e <= last xs x0 -> pw e (S r) <= penalty ls e.
  Proof.
    unfold ls. clear ls. revert x0 Hx0 Hinc Hne. induction xs as [|x1 t IH]; intros x0' H0 Hi Hn He1 He2; [congruence|].
    destruct Hi as (H01 & Ht).
    destruct (Qlt_le_dec x1 e) as [Hlt|Hle].
    - (* e lies further right *)
      destruct t as [|x2 t']; [cbn in He2; lra|].
      assert (Hrec : pw e (S r) <= penalty (lines (S r) (x1 :: x2 :: t')) e).
      { apply IH; auto; try lra; try discriminate.
        change (last (x1 :: x2 :: t') x0') with (last (x2 :: t') x0') in He2.
        rewrite (last_indep x2 t' x1 x0'). exact He2. }
      eapply Qle_trans; [exact Hrec|].
      apply penalty_le; [cbn; discriminate|]. intros l Hl.
      apply penalty_ge. cbn [lines] in *. now right.
    - eapply Qle_trans; [apply (chord_above r x0' x1 e); auto|].
      apply penalty_ge. cbn [lines]. now left.
  Qed.

  (* on or below the curve wherever no chord has e strictly inside its segment: exact at the
     breakpoints, in particular at 0 and 1 *)
  Theorem penalty_exact_at_breakpoints x : In x (x0 :: xs) -> penalty ls x == pw x (S r).
  Proof.
    intros Hin. apply Qle_antisym.
    - apply penalty_le; [apply ls_nonempty|]. intros l Hl.
      pose proof (lines_spec (S r) xs x0 Hinc) as Hs. rewrite Forall_forall in Hs.
      destruct (Hs l Hl) as (a & b & -> & Ha & Hab & _ & Hsep).
      assert (Hxn : 0 <= x).
      { destruct Hin as [<-|Hx]; auto. pose proof (incr0_lt _ _ _ Hinc Hx). lra. }
      destruct (Hsep x Hin) as [Hs1|Hs1].
      + apply chord_below_left; auto; lra.
      + apply chord_below_right; auto; lra.
    - apply penalty_majorises.
      + destruct Hin as [<-|Hx]; [lra|]. pose proof (incr0_lt _ _ _ Hinc Hx). lra.
      + now apply incr0_le_last.
  Qed.

  (* non-decreasing and convex: a maximum of lines with non-negative slopes *)
  Theorem penalty_monotone e e' : e <= e' -> penalty ls e <= penalty ls e'.
  Proof.
    intros H. apply penalty_le; [apply ls_nonempty|]. intros l Hl.
    eapply Qle_trans; [|apply (penalty_ge ls e' l Hl)].
    pose proof (lines_spec (S r) xs x0 Hinc) as Hs. rewrite Forall_forall in Hs.
    destruct (Hs l Hl) as (a & b & -> & Ha & Hab & _).
    pose proof (coef_slope_nonneg (S r) a b ltac:(lra) Hab) as Hsl.
    unfold line_val. assert (fst (coef (S r) a b) * e <= fst (coef (S r) a b) * e').
    { rewrite (Qmult_comm _ e), (Qmult_comm _ e'). apply Qmult_le_compat_r; auto. }
    lra.
  Qed.

  Theorem penalty_convex e e' lam : 0 <= lam -> lam <= 1 ->
    penalty ls (lam * e + (1 - lam) * e') <= lam * penalty ls e + (1 - lam) * penalty ls e'.
  Proof.
    intros H0 H1. apply penalty_le; [apply ls_nonempty|]. intros l Hl.
    pose proof (penalty_ge ls e l Hl) as P1. pose proof (penalty_ge ls e' l Hl) as P2.
    unfold line_val in *.
    assert (E : fst l * (lam * e + (1 - lam) * e') + snd l ==
                lam * (fst l * e + snd l) + (1 - lam) * (fst l * e' + snd l)) by ring.
    rewrite E.
    assert (lam * (fst l * e + snd l) <= lam * penalty ls e).
    { rewrite (Qmult_comm lam), (Qmult_comm lam (penalty ls e)). apply Qmult_le_compat_r; auto. }
    assert ((1 - lam) * (fst l * e' + snd l) <= (1 - lam) * penalty ls e').
    { rewrite (Qmult_comm (1 - lam)), (Qmult_comm (1 - lam) (penalty ls e')). apply Qmult_le_compat_r; lra. }
    lra.
  Qed.
End Penalty.

(* ---- tolerance ------------------------------------------------------------------------------------ *)
Definition gap (r : nat) (a b : Q) : Q := pw b (S r) - (pw a (S r) + qn (S r) * pw a r * (b - a)).

Lemma gap_nonneg r a b : 0 <= a -> 0 <= b -> 0 <= gap r a b.
Proof. intros Ha Hb. unfold gap. pose proof (tangent a b r Ha Hb). lra. Qed.

(* on its own segment a chord exceeds the curve by at most the tangent gap of the segment *)
Lemma seg_gap r a b e : 0 <= a -> a < b -> a <= e -> e <= b ->
  line_val (coef (S r) a b) e <= pw e (S r) + gap r a b.
Proof.
  intros Ha Hab H1 H2.
  pose proof (line_scaled (S r) a b e Hab) as L.
  pose proof (tangent a e r Ha ltac:(lra)) as T.
  pose proof (gap_nonneg r a b Ha ltac:(lra)) as G. unfold gap in *.
  set (d := qn (S r) * pw a r) in *.
  set (fa := pw a (S r)) in *. set (fb := pw b (S r)) in *. set (fe := pw e (S r)) in *.
  assert (Hpos : 0 < b - a) by lra.
  apply (Qmult_le_r _ _ (b - a) Hpos). rewrite L.
  assert (E : (fe + (fb - (fa + d * (b - a)))) * (b - a) ==
              fa * (b - e) + fb * (e - a) + (fe - (fa + d * (e - a))) * (b - a)
              + (fb - (fa + d * (b - a))) * (b - e)) by ring.
  rewrite E.
  assert (0 <= (fe - (fa + d * (e - a))) * (b - a)) by (apply Qmult_le_0_compat; lra).
  assert (0 <= (fb - (fa + d * (b - a))) * (b - e)) by (apply Qmult_le_0_compat; lra).
  lra.
Qed.

Lemma check_breaks_spec r tol : forall xs x0,
  check_breaks (S r) tol (x0 :: xs) = true ->
  incr0 x0 xs /\
  Forall (fun l => exists a b, l = coef (S r) a b /\ x0 <= a /\ a < b /\ gap r a b <= tol)
         (lines (S r) (x0 :: xs)).
Proof.
  induction xs as [|x1 t IH]; intros x0 H.
  - split; [exact I|constructor].
  - cbn [check_breaks] in H. apply andb_true_iff in H. destruct H as (H12 & H3).
    apply andb_true_iff in H12. destruct H12 as (H1 & H2).
    apply Qlt_bool_iff in H1. apply Qle_bool_iff in H2.
    destruct (IH x1 H3) as (Hi & Hf). split; [split; auto|].
    cbn [lines]. constructor.
    + exists x0, x1. repeat split; try lra. unfold gap, qn.
      replace (S r - 1)%nat with r in H2 by lia. exact H2.
    + rewrite Forall_forall in *. intros l Hl. destruct (Hf l Hl) as (a & b & -> & Ha & Hab & Hg).
      exists a, b. repeat split; auto. lra.
Qed.

Theorem penalty_within_tolerance r tol x0 xs e :
  0 <= x0 -> xs <> [] -> check_breaks (S r) tol (x0 :: xs) = true -> 0 <= e ->
  penalty (lines (S r) (x0 :: xs)) e <= pw e (S r) + tol.
Proof.
  intros H0 Hne Hc He. destruct (check_breaks_spec r tol xs x0 Hc) as (Hi & Hf).
  apply penalty_le.
  - destruct xs; [congruence|]. cbn. discriminate.
  - rewrite Forall_forall in Hf. intros l Hl. destruct (Hf l Hl) as (a & b & -> & Ha & Hab & Hg).
    pose proof (gap_nonneg r a b ltac:(lra) ltac:(lra)) as Gn.
    destruct (Qlt_le_dec e a) as [Hea|Hea].
    + pose proof (chord_below_left r a b e He ltac:(lra) Hab). lra.
    + destruct (Qlt_le_dec b e) as [Hbe|Hbe].
      * pose proof (chord_below_right r a b e ltac:(lra) Hab ltac:(lra)). lra.
      * pose proof (seg_gap r a b e ltac:(lra) Hab Hea Hbe). lra.
Qed.

(* ---- absolute-value minimisation and the QP form (C17) -------------------------------------------- *)
From Coq Require Import Qabs.

(* the two linear constraints of MinAbsGoalProgrammingMixin say  aux >= |f| *)
Lemma min_abs_constraints aux f : (0 <= aux + f /\ 0 <= aux - f) <-> Qabs f <= aux.
Proof.
  rewrite Qabs_Qle_condition. split; intros; lra.
Qed.

(* so the smallest admissible auxiliary variable is |f| itself *)
Lemma min_abs_optimum f : (0 <= Qabs f + f /\ 0 <= Qabs f - f) /\
  forall aux, 0 <= aux + f -> 0 <= aux - f -> Qabs f <= aux.
Proof.
  split.
  - apply min_abs_constraints. lra.
  - intros aux H1 H2. apply min_abs_constraints. auto.
Qed.

(* one-dimensional QP form: with h = f'', c = f'(0), d = f(0) the conic objective 1/2 h x^2 + c x
   plus d is f; with h/2 in place of h (the unrepaired CachingQPSol) it is a different function,
   minimised elsewhere *)
Definition quad (h c d x : Q) : Q := (1 # 2) * h * x * x + c * x + d.

Lemma qp_form_1d h c d x : quad h c d x == ((1 # 2) * h * x * x + c * x) + d.
Proof. unfold quad. ring. Qed.

Lemma qp_minimiser h c d x : 0 < h -> quad h c d (- c / h) <= quad h c d x.
Proof.
  intros Hh. unfold quad.
  assert (E : (1 # 2) * h * x * x + c * x + d - ((1 # 2) * h * (- c / h) * (- c / h) + c * (- c / h) + d)
              == (1 # 2) * h * ((x + c / h) * (x + c / h))) by (field; lra).
  assert (0 <= (1 # 2) * h * ((x + c / h) * (x + c / h))).
  { apply Qmult_le_0_compat; [lra|apply sq_nonneg]. }
  lra.
Qed.

Lemma halved_hessian_moves_minimiser :
  (* f = (x-3)^2 + 3/2 x: h = 2, c = -9/2; the true minimiser is 9/4, that of the halved form 9/2 *)
  - (-9 # 2) / 2 == 9 # 4 /\ - (-9 # 2) / 1 == 9 # 2 /\ ~ (9 # 4) == (9 # 2) /\
  quad 2 (-9 # 2) 9 (9 # 4) < quad 2 (-9 # 2) 9 (9 # 2).
Proof. repeat split; try reflexivity. intros H. discriminate H. Qed.
