From Coq Require Import ZArith QArith List Bool Lia.
From RT Require Import Xq GoalValidate.
Import ListNotations.
Open Scope Q_scope.

(* ---- what a well-formed goal list is, written as the property words it --------------------------- *)
Definition wf_goal (o : vopts) (is_path : bool) (g : vgoal') : Prop :=
  let v := vg g in
  Qlt_bool 0 (v_nominal v) = true /\                               (* positive nominal *)
  (v_critical v = true -> vg_has_bounds g = true) /\                 (* no critical minimisation goal *)
  (v_critical v = false -> vg_has_bounds g = true ->                 (* target goal: proper range, weight *)
     is_finite (v_lo v) = true /\ is_finite (v_hi v) = true /\ xlt (v_lo v) (v_hi v) = true /\
     Qlt_bool 0 (v_weight v) = true) /\
  (v_critical v = false -> vg_has_bounds g = false -> range_unset g = true) /\
  (is_path = false -> ts_min g = false /\ ts_max g = false) /\      (* no Timeseries target on point goals *)
  (vo_keep_soft o = true -> Qeq_bool (v_relax v) 0 = true).

Definition wf_targets (g : vgoal') : Prop :=
  let v := vg g in
  (vg_has_min g = true -> vg_has_max g = true -> all2 minmax_ok (v_tmin v) (v_tmax v) = true) /\
  (vg_has_min g = true -> v_critical v = false ->
     Forall (fun m => tmin_in_range (v_lo v) (v_hi v) m = true) (v_tmin v)) /\
  (vg_has_max g = true -> v_critical v = false ->
     Forall (fun M => tmax_in_range (v_lo v) (v_hi v) M = true) (v_tmax v)) /\
  Qle_bool 0 (v_relax v) = true.

Definition wellformed (o : vopts) (is_path : bool) (goals : list vgoal') : Prop :=
  let sorted := sort_by_prio goals in
  Forall (wf_goal o is_path) sorted /\
  (vo_monotone o = true -> monotone_from [] sorted = true) /\
  Forall wf_targets sorted.

Lemma check_goal_iff o is_path g : check_goal o is_path g = true <-> wf_goal o is_path g.
Proof.
  unfold check_goal, wf_goal. cbn zeta.
  destruct (Qlt_bool 0 (v_nominal (vg g))); cbn [andb]; [|split; [discriminate|intros (H & _); discriminate]].
  destruct (v_critical (vg g)) eqn:Ec; destruct (vg_has_bounds g) eqn:Eb; cbn [andb negb];
    destruct is_path; cbn [orb negb andb];
    destruct (vo_keep_soft o);
    repeat rewrite andb_true_iff; rewrite ?negb_true_iff, ?orb_false_iff;
    intuition (try discriminate; try congruence).
Qed.

Lemma check_targets_iff g : check_targets g = true <-> wf_targets g.
Proof.
  unfold check_targets, wf_targets. cbn zeta.
  rewrite !andb_true_iff.
  destruct (vg_has_min g), (vg_has_max g), (v_critical (vg g)); cbn [andb negb];
    rewrite ?forallb_forall, ?Forall_forall; intuition (try discriminate; auto).
Qed.

Theorem validate_iff_wellformed o is_path goals :
  validate o is_path goals = true <-> wellformed o is_path goals.
Proof.
  unfold validate, wellformed. cbn zeta. split; intros H.
  - apply andb_true_iff in H. destruct H as (H12 & H3).
    apply andb_true_iff in H12. destruct H12 as (H1 & H2).
    rewrite forallb_forall in H1, H3. split; [|split].
    + apply Forall_forall. intros g Hg. apply check_goal_iff. auto.
    + intros Hm. now rewrite Hm in H2.
    + apply Forall_forall. intros g Hg. apply check_targets_iff. auto.
  - destruct H as (H1 & H2 & H3). rewrite Forall_forall in H1, H3.
    apply andb_true_iff. split; [apply andb_true_iff; split|].
    + apply forallb_forall. intros g Hg. apply check_goal_iff. auto.
    + destruct (vo_monotone o); auto.
    + apply forallb_forall. intros g Hg. apply check_targets_iff. auto.
Qed.

(* the individual rejections the property names *)
Lemma rejects_nonpositive_nominal o is_path g goals :
  In g (sort_by_prio goals) -> Qlt_bool 0 (v_nominal (vg g)) = false -> validate o is_path goals = false.
Proof.
  intros Hin Hn. destruct (validate o is_path goals) eqn:E; auto.
  apply validate_iff_wellformed in E. destruct E as (H1 & _). rewrite Forall_forall in H1.
  destruct (H1 g Hin) as (H & _). congruence.
Qed.

Lemma rejects_critical_minimisation o is_path g goals :
  In g (sort_by_prio goals) -> v_critical (vg g) = true -> vg_has_bounds g = false ->
  validate o is_path goals = false.
Proof.
  intros Hin Hc Hb. destruct (validate o is_path goals) eqn:E; auto.
  apply validate_iff_wellformed in E. destruct E as (H1 & _). rewrite Forall_forall in H1.
  destruct (H1 g Hin) as (_ & H & _). specialize (H Hc). congruence.
Qed.

Lemma rejects_target_outside_range o is_path g goals m :
  In g (sort_by_prio goals) -> vg_has_min g = true -> v_critical (vg g) = false ->
  In m (v_tmin (vg g)) -> tmin_in_range (v_lo (vg g)) (v_hi (vg g)) m = false ->
  validate o is_path goals = false.
Proof.
  intros Hin Hm Hc Hinm Hr. destruct (validate o is_path goals) eqn:E; auto.
  apply validate_iff_wellformed in E. destruct E as (_ & _ & H3). rewrite Forall_forall in H3.
  destruct (H3 g Hin) as (_ & H & _). specialize (H Hm Hc). rewrite Forall_forall in H.
  specialize (H m Hinm). congruence.
Qed.

(* sorting keeps exactly the given goals *)
Lemma insert_by_prio_in g x l : In x (insert_by_prio g l) <-> x = g \/ In x l.
Proof.
  induction l as [|h t IH]; cbn; [intuition|].
  destruct (Qle_bool _ _); cbn; [intuition|]. rewrite IH. intuition.
Qed.

Lemma sort_by_prio_in x l : In x (sort_by_prio l) <-> In x l.
Proof.
  unfold sort_by_prio. induction l as [|h t IH]; cbn; [tauto|].
  rewrite insert_by_prio_in, IH. intuition.
Qed.
