From Coq Require Import ZArith QArith Qabs List Bool Lqa Lia.
From RT Require Import Xq Interval Goals Interp_proofs.
Import ListNotations.
Open Scope Q_scope.

(* ---- scaling by the (positive) inverse nominal ------------------------------------------------ *)
Lemma inv_pos n : 0 < n -> 0 < / n.
Proof. apply Qinv_lt_0_compat. Qed.

Lemma scale_le k a b : 0 < k -> (a * k <= b * k <-> a <= b).
Proof. intros H. apply Qmult_le_r. exact H. Qed.

Lemma scale_le_1 k a b : 0 < k -> a <= b -> a * k <= b * k.
Proof. intros H. apply scale_le. exact H. Qed.

Lemma unscale n a : 0 < n -> a * / n * n == a.
Proof. intros H. field. lra. Qed.

(* ---- C04: soft constraints = the epsilon envelope ---------------------------------------------- *)
Theorem soft_min_iff g t f eps : 0 < g_nom g ->
  (0 <= soft_row g (g_lo g) (XFin t) f eps <-> t + eps * (g_lo g - t) <= f).
Proof.
  intros Hn. cbn [soft_row]. pose proof (inv_pos _ Hn) as Hk.
  split; intros H.
  - assert (0 * / g_nom g <= (f - eps * (g_lo g - t) - t) * / g_nom g) as H' by lra.
    apply scale_le in H'; auto. lra.
  - assert (0 * / g_nom g <= (f - eps * (g_lo g - t) - t) * / g_nom g) as H'.
    { apply scale_le_1; auto. lra. }
    lra.
Qed.

Theorem soft_max_iff g t f eps : 0 < g_nom g ->
  (soft_row g (g_hi g) (XFin t) f eps <= 0 <-> f <= t + eps * (g_hi g - t)).
Proof.
  intros Hn. cbn [soft_row]. pose proof (inv_pos _ Hn) as Hk.
  split; intros H.
  - assert ((f - eps * (g_hi g - t) - t) * / g_nom g <= 0 * / g_nom g) as H' by lra.
    apply scale_le in H'; auto. lra.
  - assert ((f - eps * (g_hi g - t) - t) * / g_nom g <= 0 * / g_nom g) as H'.
    { apply scale_le_1; auto. lra. }
    lra.
Qed.

(* steps whose target is NaN or infinite impose nothing: the row is the constant 0, which lies
   within both [0, inf) and (-inf, 0] *)
Theorem soft_inactive g bound t f eps : is_finite t = false -> soft_row g bound t f eps = 0.
Proof. destruct t; cbn; auto; discriminate. Qed.

(* the envelope never leaves the function range, and eps = 0 means the target is met *)
Theorem envelope_within_range lo t eps hi T :
  0 <= eps -> eps <= 1 -> lo <= t -> T <= hi ->
  lo <= t + eps * (lo - t) /\ t + eps * (lo - t) <= t /\
  T <= T + eps * (hi - T) /\ T + eps * (hi - T) <= hi.
Proof. intros. repeat split; nra. Qed.

(* ---- hard constraints ---------------------------------------------------------------------------- *)
Record wfg (g : goal) (o : gopts) : Prop := {
  wf_nom : 0 < g_nom g; wf_relax : 0 <= g_relax g; wf_cr : 0 <= o_cr o; wf_thr : 0 <= o_thr o }.

Definition half := 1 # 2.

(* C02 (feasibility of the next priority): the hard interval derived from a solution (f, eps0),
   using any eps >= eps0 (violation_relaxation), contains f/nominal up to half the equality
   threshold *)
Theorem hard_target_contains g o gm gM eps0 eps f value :
  wfg g o -> g_critical g = false -> eps0 <= eps ->
  (g_has_min g = true -> forall t, gm = XFin t -> g_lo g <= t /\ t + eps0 * (g_lo g - t) <= f) ->
  (g_has_max g = true -> forall t, gM = XFin t -> t <= g_hi g /\ f <= t + eps0 * (g_hi g - t)) ->
  (vtol_exceeded o eps = true -> value == f) ->
  let I := hard_target g o gm gM eps value in
  xle (lo I) (XFin (f * / g_nom g + half * o_thr o)) = true /\
  xle (XFin (f * / g_nom g - half * o_thr o)) (hi I) = true.
Proof.
  intros [Hn Hr Hc Ht] Hcrit He Hmin Hmax Hv I. subst I.
  pose proof (inv_pos _ Hn) as Hk. set (k := / g_nom g) in *.
  unfold hard_target. fold k. rewrite Hcrit.
  destruct (vtol_exceeded o eps) eqn:Ev.
  - (* violation tolerance exceeded: bounds from the achieved value *)
    specialize (Hv eq_refl). cbn [fst snd lo hi xle]. unfold half.
    assert ((value - g_relax g) * k <= f * k) by (apply scale_le_1; auto; lra).
    assert (f * k <= (value + g_relax g) * k) by (apply scale_le_1; auto; lra).
    split; apply Qle_bool_iff; lra.
  - (* bounds from epsilon *)
    assert (Hm : forall a, side_val (g_has_min g) false eps (g_lo g) (- g_relax g) k gm = Some a -> a <= f * k).
    { unfold side_val. intros a. destruct (g_has_min g) eqn:E; [|discriminate].
      destruct gm as [| |t|]; try discriminate. intros [= <-].
      destruct (Hmin eq_refl t eq_refl) as (H1 & H2). apply scale_le_1; auto. nra. }
    assert (HM : forall b, side_val (g_has_max g) false eps (g_hi g) (g_relax g) k gM = Some b -> f * k <= b).
    { unfold side_val. intros b. destruct (g_has_max g) eqn:E; [|discriminate].
      destruct gM as [| |t|]; try discriminate. intros [= <-].
      destruct (Hmax eq_refl t eq_refl) as (H1 & H2). apply scale_le_1; auto. nra. }
    destruct (side_val (g_has_min g) false eps (g_lo g) (- g_relax g) k gm) as [a|] eqn:Ea;
      destruct (side_val (g_has_max g) false eps (g_hi g) (g_relax g) k gM) as [b|] eqn:Eb;
      cbn [fst snd lo hi].
    + specialize (Hm a eq_refl). specialize (HM b eq_refl).
      destruct (Qlt_bool (Qabs (a - b)) (o_thr o)) eqn:Ef; cbn [fst snd xle]; unfold half.
      * apply Qlt_bool_iff in Ef.
        assert (Qabs (a - b) <= o_thr o) as Hab by lra.
        apply Qabs_Qle_condition in Hab.
        split; apply Qle_bool_iff; lra.
      * split; apply Qle_bool_iff; lra.
    + specialize (Hm a eq_refl). cbn [xle]. unfold half. split; [apply Qle_bool_iff; lra|reflexivity].
    + specialize (HM b eq_refl). cbn [xle]. unfold half. split; [reflexivity|apply Qle_bool_iff; lra].
    + cbn. auto.
Qed.

(* C02 (what is retained): any later value y = f'/nominal inside the hard interval is within the
   envelope of the recorded epsilon, up to the configured relaxations *)
Theorem hard_target_attains g o gm gM eps value y :
  wfg g o -> g_critical g = false -> vtol_exceeded o eps = false ->
  let I := hard_target g o gm gM eps value in
  xle (lo I) (XFin y) = true -> xle (XFin y) (hi I) = true ->
  (g_has_min g = true -> forall t, gm = XFin t ->
     (t + eps * (g_lo g - t) - g_relax g) * / g_nom g - o_cr o - half * o_thr o <= y) /\
  (g_has_max g = true -> forall t, gM = XFin t ->
     y <= (t + eps * (g_hi g - t) + g_relax g) * / g_nom g + o_cr o + half * o_thr o).
Proof.
  intros [Hn Hr Hc Ht] Hcrit Ev I. subst I. unfold hard_target. rewrite Hcrit, Ev.
  set (k := / g_nom g).
  intros Hlo Hhi. split.
  - intros Hm t ->. unfold side_val in *. rewrite Hm in *. cbn [fst snd] in *.
    destruct (g_has_max g) eqn:EM; [destruct gM as [| |T|]|]; cbn [fst snd lo hi xle] in *;
      try (apply Qle_bool_iff in Hlo; unfold half; lra).
    destruct (Qlt_bool _ _) eqn:Ef; cbn [fst snd lo hi xle] in *;
      apply Qle_bool_iff in Hlo; unfold half.
    + apply Qlt_bool_iff in Ef. assert (Qabs (((eps * (g_lo g - t) + t + - g_relax g) * k) -
         ((eps * (g_hi g - T) + T + g_relax g) * k)) <= o_thr o) as Hab by lra.
      apply Qabs_Qle_condition in Hab. lra.
    + lra.
  - intros HM t ->. unfold side_val in *. rewrite HM in *. cbn [fst snd] in *.
    destruct (g_has_min g) eqn:Em; [destruct gm as [| |T|]|]; cbn [fst snd lo hi xle] in *;
      try (apply Qle_bool_iff in Hhi; unfold half; lra).
    destruct (Qlt_bool _ _) eqn:Ef; cbn [fst snd lo hi xle] in *;
      apply Qle_bool_iff in Hhi; unfold half.
    + apply Qlt_bool_iff in Ef. assert (Qabs (((eps * (g_lo g - T) + T + - g_relax g) * k) -
         ((eps * (g_hi g - t) + t + g_relax g) * k)) <= o_thr o) as Hab by lra.
      apply Qabs_Qle_condition in Hab. lra.
    + lra.
Qed.

(* minimisation goals *)
Theorem hard_minimize_contains g o fval : wfg g o ->
  let I := hard_minimize g o fval in
  xle (lo I) (XFin (fval * / g_nom g)) = true /\ xle (XFin (fval * / g_nom g)) (hi I) = true.
Proof.
  intros [Hn Hr Hc Ht] I. subst I. unfold hard_minimize.
  pose proof (inv_pos _ Hn) as Hk.
  destruct (o_fix o && Qeq_bool (g_relax g) 0); cbn [lo hi xle].
  - split; apply Qle_bool_iff; lra.
  - split; auto. apply Qle_bool_iff.
    assert (fval * / g_nom g <= (fval + g_relax g) * / g_nom g) by (apply scale_le_1; auto; lra). lra.
Qed.

Theorem hard_minimize_attains g o fval y : wfg g o ->
  xle (XFin y) (hi (hard_minimize g o fval)) = true ->
  y <= (fval + g_relax g) * / g_nom g + o_cr o.
Proof.
  intros [Hn Hr Hc Ht]. unfold hard_minimize. pose proof (inv_pos _ Hn) as Hk.
  destruct (o_fix o && Qeq_bool (g_relax g) 0); cbn [lo hi xle]; intros H; apply Qle_bool_iff in H.
  - assert (fval * / g_nom g <= (fval + g_relax g) * / g_nom g) by (apply scale_le_1; auto; lra). lra.
  - lra.
Qed.

(* C04: a critical goal is the hard interval [target_min, target_max] (epsilon plays no role) *)
Theorem hard_critical g o gm gM eps value :
  g_critical g = true -> vtol_exceeded o eps = false ->
  (forall a b, gm = XFin a -> gM = XFin b -> g_has_min g = true -> g_has_max g = true ->
     o_thr o <= Qabs ((a - g_relax g) * / g_nom g - (b + g_relax g) * / g_nom g)) ->
  let I := hard_target g o gm gM eps value in
  (g_has_min g = true -> forall t, gm = XFin t -> xsame (lo I) (XFin ((t - g_relax g) * / g_nom g - o_cr o))) /\
  (g_has_max g = true -> forall t, gM = XFin t -> xsame (hi I) (XFin ((t + g_relax g) * / g_nom g + o_cr o))) /\
  (is_finite gm = false \/ g_has_min g = false -> lo I = XNInf) /\
  (is_finite gM = false \/ g_has_max g = false -> hi I = XPInf).
Proof.
  intros Hcrit Ev Hnofold I. subst I. unfold hard_target, side_val. rewrite Hcrit, Ev.
  set (k := / g_nom g) in *.
  destruct (g_has_min g) eqn:Em, (g_has_max g) eqn:EM;
    destruct gm as [| |a|], gM as [| |b|]; cbn [fst snd lo hi xsame is_finite];
    repeat split; try discriminate; try tauto;
    try (intros _ t [= <-]); try (intros [H|H]; discriminate);
    try (destruct (Qlt_bool _ _) eqn:Ef;
         [apply Qlt_bool_iff in Ef;
          specialize (Hnofold a b eq_refl eq_refl eq_refl eq_refl);
          exfalso;
          assert (Qabs ((eps * 0 + a + - g_relax g) * k - (eps * 0 + b + g_relax g) * k) ==
                  Qabs ((a - g_relax g) * k - (b + g_relax g) * k)) as Hq
            by (apply Qabs_wd; ring);
          lra
         |cbn [fst snd xsame]; ring]);
    try (cbn; ring).
Qed.
