From Coq Require Import ZArith QArith Qabs List Bool Lqa Lia.
From RT Require Import Xq KktCert Interp_proofs LinOrder_proofs.
Import ListNotations.
Open Scope Q_scope.

(* ---- finite sums ----------------------------------------------------------------------------------- *)
Lemma qsum_nil : qsum [] == 0.
Proof. reflexivity. Qed.
Lemma qsum_cons x l : qsum (x :: l) == x + qsum l.
Proof. reflexivity. Qed.

Lemma qsum_app a b : qsum (a ++ b) == qsum a + qsum b.
Proof.
  induction a as [|x a IH]; [rewrite qsum_nil; cbn [app]; lra|].
  cbn [app]. rewrite !qsum_cons, IH. lra.
Qed.

Lemma qsum_map_add {A} (f g : A -> Q) l : qsum (map (fun x => f x + g x) l) == qsum (map f l) + qsum (map g l).
Proof. induction l as [|x l IH]; cbn [map]; rewrite ?qsum_nil, ?qsum_cons; [lra|]. rewrite IH. lra. Qed.

Lemma qsum_map_scale {A} c (f : A -> Q) l : qsum (map (fun x => c * f x) l) == c * qsum (map f l).
Proof. induction l as [|x l IH]; cbn [map]; rewrite ?qsum_nil, ?qsum_cons; [lra|]. rewrite IH. lra. Qed.

Lemma qsum_map_scale_r {A} c (f : A -> Q) l : qsum (map (fun x => f x * c) l) == qsum (map f l) * c.
Proof. induction l as [|x l IH]; cbn [map]; rewrite ?qsum_nil, ?qsum_cons; [lra|]. rewrite IH. lra. Qed.

Lemma qsum_map_ext {A} (f g : A -> Q) l : (forall x, In x l -> f x == g x) ->
  qsum (map f l) == qsum (map g l).
Proof.
  induction l as [|x l IH]; intros H; cbn [map]; rewrite ?qsum_nil, ?qsum_cons; [lra|].
  rewrite (H x (or_introl eq_refl)), IH; [lra|]. intros y Hy. apply H. now right.
Qed.

Lemma qsum_map_le {A} (f g : A -> Q) l : (forall x, In x l -> f x <= g x) ->
  qsum (map f l) <= qsum (map g l).
Proof.
  induction l as [|x l IH]; intros H; cbn [map]; rewrite ?qsum_nil, ?qsum_cons; [lra|].
  pose proof (H x (or_introl eq_refl)). assert (qsum (map f l) <= qsum (map g l)) by (apply IH; intros; apply H; now right).
  lra.
Qed.

Lemma qsum_zero {A} (l : list A) : qsum (map (fun _ => 0) l) == 0.
Proof. induction l as [|x l IH]; cbn [map]; rewrite ?qsum_nil, ?qsum_cons; [reflexivity|]. rewrite IH. reflexivity. Qed.

Lemma qsum_swap {A B} (F : A -> B -> Q) la lb :
  qsum (map (fun a => qsum (map (fun b => F a b) lb)) la) ==
  qsum (map (fun b => qsum (map (fun a => F a b) la)) lb).
Proof.
  induction la as [|a la IH]; cbn [map].
  - rewrite qsum_nil. symmetry. rewrite <- (qsum_zero lb). apply qsum_map_ext. intros b _. reflexivity.
  - rewrite qsum_cons, IH. rewrite <- qsum_map_add. apply qsum_map_ext. intros b _. rewrite qsum_cons. reflexivity.
Qed.

(* ---- linear algebra on index-accessed vectors ----------------------------------------------------- *)
Definition vsub (n : nat) (y x : list Q) : list Q := map (fun j => qnth y j - qnth x j) (seq 0 n).

Lemma nth_map_seq (f : nat -> Q) : forall n start j d, (j < n)%nat ->
  nth j (map f (seq start n)) d = f (start + j)%nat.
Proof.
  induction n as [|n IH]; intros start j d H; [lia|]. cbn [seq map].
  destruct j; cbn [nth]; [now rewrite Nat.add_0_r|]. rewrite IH by lia. f_equal. lia.
Qed.

Lemma qnth_vsub n y x j : (j < n)%nat -> qnth (vsub n y x) j == qnth y j - qnth x j.
Proof.
  intros H. unfold vsub. unfold qnth at 1. rewrite nth_map_seq by lia. cbn [Nat.add]. reflexivity.
Qed.

Lemma dotn_sub n a y x : dotn n a (vsub n y x) == dotn n a y - dotn n a x.
Proof.
  unfold dotn.
  assert (E : qsum (map (fun j => qnth a j * qnth (vsub n y x) j) (seq 0 n)) ==
              qsum (map (fun j => qnth a j * qnth y j + (-1) * (qnth a j * qnth x j)) (seq 0 n))).
  { apply qsum_map_ext. intros j Hj. apply in_seq in Hj. rewrite qnth_vsub by lia. ring. }
  rewrite E, qsum_map_add, qsum_map_scale. lra.
Qed.

(* ---- convexity of the objective ---------------------------------------------------------------- *)
Lemma term_convex n t x y : (t_sq t = true -> 0 <= t_w t) ->
  term_val n t x + term_coef n t x * (lin n t y - lin n t x) <= term_val n t y.
Proof.
  intros Hw. unfold term_val, term_coef. destruct (t_sq t).
  - specialize (Hw eq_refl).
    set (a := lin n t x). set (b := lin n t y).
    assert (E : t_w t * (b * b) - (t_w t * (a * a) + t_w t * (2 * a) * (b - a)) == t_w t * ((b - a) * (b - a))) by ring.
    assert (0 <= t_w t * ((b - a) * (b - a))) by (apply Qmult_le_0_compat; [auto|apply sq_nonneg]).
    lra.
  - ring_simplify. lra.
Qed.

Lemma lin_diff n t x y : lin n t y - lin n t x == dotn n (t_a t) (vsub n y x).
Proof. unfold lin. rewrite dotn_sub. lra. Qed.

(* f(y) >= f(x) + grad f(x) . (y - x) *)
Lemma obj_convex P x y :
  forallb (fun t => negb (t_sq t) || Qle_bool 0 (t_w t)) (q_terms P) = true ->
  obj P x + qsum (map (fun j => grad P x j * qnth (vsub (q_n P) y x) j) (seq 0 (q_n P))) <= obj P y.
Proof.
  intros Hc. unfold obj. set (n := q_n P). set (v := vsub n y x).
  (* grad . v = sum_t coef_t * (a_t . v) *)
  assert (E : qsum (map (fun j => grad P x j * qnth v j) (seq 0 n)) ==
              qsum (map (fun t => term_coef n t x * dotn n (t_a t) v) (q_terms P))).
  { unfold grad. fold n.
    transitivity (qsum (map (fun j => qsum (map (fun t => term_coef n t x * qnth (t_a t) j * qnth v j) (q_terms P))) (seq 0 n))).
    - apply qsum_map_ext. intros j _.
      rewrite <- (qsum_map_scale_r (qnth v j) (fun t => term_coef n t x * qnth (t_a t) j)). reflexivity.
    - rewrite qsum_swap. apply qsum_map_ext. intros t _. unfold dotn.
      rewrite <- (qsum_map_scale (term_coef n t x) (fun j => qnth (t_a t) j * qnth v j)).
      apply qsum_map_ext. intros j _. ring. }
  rewrite E.
  assert (H : qsum (map (fun t => term_val n t x) (q_terms P)) +
              qsum (map (fun t => term_coef n t x * dotn n (t_a t) v) (q_terms P)) <=
              qsum (map (fun t => term_val n t y) (q_terms P))).
  { rewrite <- qsum_map_add. apply qsum_map_le. intros t Ht.
    rewrite forallb_forall in Hc. specialize (Hc t Ht).
    unfold v. rewrite <- lin_diff. apply term_convex.
    intros Hs. rewrite Hs in Hc. cbn in Hc. now apply Qle_bool_iff. }
  lra.
Qed.

(* ---- one multiplier against one two-sided constraint ----------------------------------------- *)
Lemma side_gap_sound l v w lo hi g :
  side_gap l v lo hi = Some g ->
  xle lo (XFin w) = true -> xle (XFin w) hi = true ->
  - g <= - l * (w - v).
Proof.
  unfold side_gap. intros H Hlo Hhi.
  destruct (Qeq_bool l 0) eqn:E0.
  - apply Qeq_bool_iff in E0. injection H as <-. rewrite E0. lra.
  - destruct (Qlt_bool 0 l) eqn:Ep.
    + apply Qlt_bool_iff in Ep. destruct hi as [| |u|]; try discriminate. injection H as <-.
      cbn in Hhi. apply Qle_bool_iff in Hhi.
      assert (l * w <= l * u) by (rewrite (Qmult_comm l w), (Qmult_comm l u); apply Qmult_le_compat_r; lra).
      lra.
    + apply Qlt_bool_false in Ep. apply Qeq_bool_false in E0.
      destruct lo as [| |d|]; try discriminate. injection H as <-.
      cbn in Hlo. apply Qle_bool_iff in Hlo.
      assert (Hl : 0 <= - l) by lra.
      assert ((- l) * d <= (- l) * w) by (rewrite (Qmult_comm (- l) d), (Qmult_comm (- l) w); apply Qmult_le_compat_r; lra).
      lra.
Qed.

Lemma viol_dist d u xv yv : d <= yv -> yv <= u ->
  Qabs (yv - xv) <= (u - d) + viol (XFin d) (XFin u) xv.
Proof.
  intros H1 H2. unfold viol.
  destruct (Qlt_bool xv d) eqn:E1; destruct (Qlt_bool u xv) eqn:E2;
    try apply Qlt_bool_iff in E1; try apply Qlt_bool_false in E1;
    try apply Qlt_bool_iff in E2; try apply Qlt_bool_false in E2;
    match goal with |- context [if Qlt_bool ?a ?b then _ else _] => destruct (Qlt_bool a b) eqn:E3 end;
    try apply Qlt_bool_iff in E3; try apply Qlt_bool_false in E3;
    apply Qabs_Qle_condition; lra.
Qed.

Lemma resid_gap_sound r xv yv lo hi g :
  resid_gap r xv lo hi = Some g ->
  xle lo (XFin yv) = true -> xle (XFin yv) hi = true ->
  - g <= r * (yv - xv).
Proof.
  unfold resid_gap. intros H Hl Hh.
  destruct (Qeq_bool r 0) eqn:E0.
  - apply Qeq_bool_iff in E0. injection H as <-. rewrite E0. lra.
  - destruct lo as [| |d|], hi as [| |u|]; try discriminate. injection H as <-.
    cbn in Hl, Hh. apply Qle_bool_iff in Hl, Hh.
    pose proof (viol_dist d u xv yv Hl Hh) as Hd.
    assert (Ha : Qabs (r * (yv - xv)) <= Qabs r * ((u - d) + viol (XFin d) (XFin u) xv)).
    { rewrite Qabs_Qmult. apply Qmult_le_compat_nonneg.
      - split; [apply Qabs_nonneg|lra].
      - split; [apply Qabs_nonneg|exact Hd]. }
    pose proof (Qle_Qabs (- (r * (yv - xv)))) as Hb. rewrite Qabs_opp in Hb. lra.
Qed.

Lemma sum_opt_le {A} (f : A -> option Q) (h : A -> Q) l s :
  sum_opt (map f l) = Some s ->
  (forall a g, In a l -> f a = Some g -> - g <= h a) ->
  - s <= qsum (map h l).
Proof.
  revert s. induction l as [|a l IH]; intros s H Hb; cbn [map sum_opt] in *; rewrite ?qsum_nil, ?qsum_cons.
  - injection H as <-. lra.
  - destruct (f a) as [g|] eqn:Ea; [|discriminate].
    destruct (sum_opt (map f l)) as [s'|] eqn:Es; [|discriminate]. injection H as <-.
    pose proof (Hb a g (or_introl eq_refl) Ea).
    assert (- s' <= qsum (map h l)) by (apply IH; auto; intros a0 g0 Hin Hf; eapply Hb; [right; exact Hin|exact Hf]).
    lra.
Qed.


(* ---- soundness of the checker --------------------------------------------------------------------- *)
Theorem check_cert_sound P x lam mu gap :
  check_cert P x lam mu = Some gap ->
  forall y, feasible P y -> obj P x - gap <= obj P y.
Proof.
  unfold check_cert. set (n := q_n P).
  destruct (forallb _ (q_terms P)) eqn:Hconv; cbn [negb]; [|discriminate].
  destruct (Nat.eqb (length lam) (length (q_rows P))) eqn:Hlen; cbn [negb]; [|discriminate].
  apply Nat.eqb_eq in Hlen.
  destruct (sum_opt (map _ (seq 0 (length (q_rows P))))) as [g1|] eqn:G1; [|discriminate].
  destruct (sum_opt (map (fun j => side_gap _ _ _ _) (seq 0 n))) as [g2|] eqn:G2; [|discriminate].
  destruct (sum_opt (map (fun j => resid_gap _ _ _ _) (seq 0 n))) as [g3|] eqn:G3; [|discriminate].
  intros [= <-] y (Frows & Fbox).
  pose proof (obj_convex P x y Hconv) as Hcv. fold n in Hcv.
  set (v := vsub n y x) in *.
  (* the three bounds *)
  assert (B1 : - g1 <= qsum (map (fun i => - qnth lam i * (row_val n (nth i (q_rows P) ([], 0)) y -
                                                            row_val n (nth i (q_rows P) ([], 0)) x))
                                 (seq 0 (length (q_rows P))))).
  { eapply sum_opt_le; [exact G1|]. intros i g Hi Hg. apply in_seq in Hi.
    destruct (Frows i ltac:(lia)) as (F1 & F2). cbn beta in Hg. eapply side_gap_sound; [exact Hg|exact F1|exact F2]. }
  assert (B2 : - g2 <= qsum (map (fun j => - qnth mu j * (qnth y j - qnth x j)) (seq 0 n))).
  { eapply sum_opt_le; [exact G2|]. intros j g Hj Hg. apply in_seq in Hj.
    destruct (Fbox j ltac:(lia)) as (F1 & F2). cbn beta in Hg. eapply side_gap_sound; [exact Hg|exact F1|exact F2]. }
  assert (B3 : - g3 <= qsum (map (fun j => resid P x lam mu j * (qnth y j - qnth x j)) (seq 0 n))).
  { eapply sum_opt_le; [exact G3|]. intros j g Hj Hg. apply in_seq in Hj.
    destruct (Fbox j ltac:(lia)) as (F1 & F2). cbn beta in Hg. eapply resid_gap_sound; [exact Hg|exact F1|exact F2]. }
  (* grad . v = resid . v - (A^T lam) . v - mu . v *)
  assert (Ev : forall j, In j (seq 0 n) -> qnth v j == qnth y j - qnth x j).
  { intros j Hj. apply in_seq in Hj. unfold v. apply qnth_vsub. lia. }
  assert (E : qsum (map (fun j => grad P x j * qnth v j) (seq 0 n)) ==
              qsum (map (fun j => resid P x lam mu j * (qnth y j - qnth x j)) (seq 0 n)) +
              qsum (map (fun i => - qnth lam i * (row_val n (nth i (q_rows P) ([], 0)) y -
                                                  row_val n (nth i (q_rows P) ([], 0)) x))
                        (seq 0 (length (q_rows P)))) +
              qsum (map (fun j => - qnth mu j * (qnth y j - qnth x j)) (seq 0 n))).
  { (* rows: sum_i lam_i (a_i . v) = sum_j (A^T lam)_j v_j *)
    assert (Erow : qsum (map (fun i => - qnth lam i * (row_val n (nth i (q_rows P) ([], 0)) y -
                                                       row_val n (nth i (q_rows P) ([], 0)) x))
                             (seq 0 (length (q_rows P)))) ==
                   - qsum (map (fun j => atl P lam j * qnth v j) (seq 0 n))).
    { unfold atl.
      assert (Hc : forall j, qsum (map (fun rl : (list Q * Q) * Q => snd rl * qnth (fst (fst rl)) j) (combine (q_rows P) lam)) ==
                   qsum (map (fun i => qnth lam i * qnth (fst (nth i (q_rows P) ([], 0))) j) (seq 0 (length (q_rows P))))).
      { intros j. clear -Hlen. revert lam Hlen. induction (q_rows P) as [|r rs IH]; intros lam Hlen.
        - destruct lam; [reflexivity|discriminate].
        - destruct lam as [|l lam]; [discriminate|]. cbn [combine map length seq].
          rewrite !qsum_cons. cbn [fst snd nth]. unfold qnth at 2. cbn [nth].
          rewrite (IH lam ltac:(cbn in Hlen; lia)).
          rewrite <- seq_shift, map_map. apply Qplus_comp; [reflexivity|].
          apply qsum_map_ext. intros i _. unfold qnth. cbn [nth]. reflexivity. }
      transitivity (- qsum (map (fun j => qsum (map (fun i => qnth lam i * qnth (fst (nth i (q_rows P) ([], 0))) j * qnth v j)
                                                  (seq 0 (length (q_rows P))))) (seq 0 n))).
      - rewrite qsum_swap.
        rewrite <- (qsum_map_scale (-1) (fun i => qsum (map (fun j => qnth lam i * qnth (fst (nth i (q_rows P) ([], 0))) j * qnth v j) (seq 0 n)))).
        apply qsum_map_ext. intros i _. unfold row_val.
        assert (Hd : dotn n (fst (nth i (q_rows P) ([], 0))) y - dotn n (fst (nth i (q_rows P) ([], 0))) x ==
                     dotn n (fst (nth i (q_rows P) ([], 0))) v) by (unfold v; rewrite dotn_sub; reflexivity).
        unfold dotn in Hd |- *.
        assert (Hs : qsum (map (fun j => qnth lam i * qnth (fst (nth i (q_rows P) ([], 0))) j * qnth v j) (seq 0 n)) ==
                     qnth lam i * qsum (map (fun j => qnth (fst (nth i (q_rows P) ([], 0))) j * qnth v j) (seq 0 n))).
        { rewrite <- qsum_map_scale. apply qsum_map_ext. intros j _. ring. }
        rewrite Hs, <- Hd. ring.
      - apply Qopp_comp. apply qsum_map_ext. intros j _. rewrite Hc.
        rewrite <- (qsum_map_scale_r (qnth v j)). reflexivity. }
    rewrite Erow.
    assert (E2 : qsum (map (fun j => - qnth mu j * (qnth y j - qnth x j)) (seq 0 n)) ==
                 - qsum (map (fun j => qnth mu j * qnth v j) (seq 0 n))).
    { rewrite <- (qsum_map_scale (-1)). apply qsum_map_ext. intros j Hj. rewrite (Ev j Hj). ring. }
    rewrite E2.
    assert (E3 : qsum (map (fun j => resid P x lam mu j * (qnth y j - qnth x j)) (seq 0 n)) ==
                 qsum (map (fun j => grad P x j * qnth v j) (seq 0 n)) +
                 qsum (map (fun j => atl P lam j * qnth v j) (seq 0 n)) +
                 qsum (map (fun j => qnth mu j * qnth v j) (seq 0 n))).
    { rewrite <- !qsum_map_add. apply qsum_map_ext. intros j Hj. rewrite <- (Ev j Hj). unfold resid. ring. }
    rewrite E3. ring. }
  rewrite E in Hcv. lra.
Qed.

Theorem certified_optimal P x lam mu gap :
  check_cert P x lam mu = Some gap -> feasible P x ->
  forall ystar, feasible P ystar -> (forall y, feasible P y -> obj P ystar <= obj P y) ->
    obj P ystar <= obj P x /\ obj P x <= obj P ystar + gap.
Proof.
  intros Hc Hx ystar Hy Hopt. split.
  - now apply Hopt.
  - pose proof (check_cert_sound P x lam mu gap Hc ystar Hy). lra.
Qed.
