From Coq Require Import ZArith QArith List Bool Lqa Lia.
From RT Require Import Xq Interp_proofs MergeBounds_proofs.
Import ListNotations.
Open Scope Q_scope.

(* order theory on NaN-free extended rationals *)
Definition nn (a : Xq) : Prop := is_nan a = false.

Lemma xle_refl a : nn a -> xle a a = true.
Proof. destruct a; cbn; auto; try discriminate. intros _. apply Qle_bool_iff. lra. Qed.

Lemma xle_trans a b c : xle a b = true -> xle b c = true -> xle a c = true.
Proof.
  destruct a as [| |x|], b as [| |y|], c as [| |z|]; cbn; auto; try discriminate.
  intros H1 H2. apply Qle_bool_iff in H1, H2. apply Qle_bool_iff. lra.
Qed.

Lemma xle_total a b : nn a -> nn b -> xle a b = true \/ xle b a = true.
Proof.
  destruct a as [| |x|], b as [| |y|]; cbn; auto; try discriminate. intros _ _.
  destruct (Qle_bool x y) eqn:E; auto. right. apply Qle_bool_iff.
  assert (~ x <= y) by (intros H; apply Qle_bool_iff in H; congruence). lra.
Qed.

Lemma xle_nn a b : xle a b = true -> nn a /\ nn b.
Proof. unfold nn. destruct a, b; cbn; intros H; try discriminate; auto. Qed.

Lemma xsame_xle_l a b c : xsame a b -> xle b c = true -> xle a c = true.
Proof.
  destruct a as [| |x|], b as [| |y|], c as [| |z|]; cbn; auto; try tauto; try discriminate.
  intros H1 H2. apply Qle_bool_iff in H2. apply Qle_bool_iff. lra.
Qed.

Lemma xsame_xle_r a b c : xsame a b -> xle c b = true -> xle c a = true.
Proof.
  destruct a as [| |x|], b as [| |y|], c as [| |z|]; cbn; auto; try tauto; try discriminate.
  intros H1 H2. apply Qle_bool_iff in H2. apply Qle_bool_iff. lra.
Qed.

(* npmax / npmin as lattice operations on NaN-free values *)
Lemma npmax_nn a b : nn a -> nn b -> nn (npmax a b).
Proof. unfold nn, npmax. intros Ha Hb. rewrite Ha, Hb. destruct (xlt a b); auto. Qed.
Lemma npmin_nn a b : nn a -> nn b -> nn (npmin a b).
Proof. unfold nn, npmin. intros Ha Hb. rewrite Ha, Hb. destruct (xlt b a); auto. Qed.

Lemma npmax_ub_l a b : nn a -> nn b -> xle a (npmax a b) = true.
Proof. intros Ha Hb. destruct (npmax_is_max a b Ha Hb) as (H & _). exact H. Qed.
Lemma npmax_ub_r a b : nn a -> nn b -> xle b (npmax a b) = true.
Proof. intros Ha Hb. destruct (npmax_is_max a b Ha Hb) as (_ & H & _). exact H. Qed.
Lemma npmin_lb_l a b : nn a -> nn b -> xle (npmin a b) a = true.
Proof. intros Ha Hb. destruct (npmin_is_min a b Ha Hb) as (H & _). exact H. Qed.
Lemma npmin_lb_r a b : nn a -> nn b -> xle (npmin a b) b = true.
Proof. intros Ha Hb. destruct (npmin_is_min a b Ha Hb) as (_ & H & _). exact H. Qed.

Lemma npmax_lub a b c : xle a c = true -> xle b c = true -> xle (npmax a b) c = true.
Proof.
  intros H1 H2. destruct (xle_nn _ _ H1) as (Ha & Hc). destruct (xle_nn _ _ H2) as (Hb & _).
  destruct (npmax_is_max a b Ha Hb) as (_ & _ & [H|H]); eapply xsame_xle_l; eauto.
Qed.

Lemma npmin_glb a b c : xle c a = true -> xle c b = true -> xle c (npmin a b) = true.
Proof.
  intros H1 H2. destruct (xle_nn _ _ H1) as (Hc & Ha). destruct (xle_nn _ _ H2) as (_ & Hb).
  destruct (npmin_is_min a b Ha Hb) as (_ & _ & [H|H]); eapply xsame_xle_r; eauto.
Qed.
