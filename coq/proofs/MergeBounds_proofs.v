From Coq Require Import ZArith QArith List Bool Lqa Lia.
From RT Require Import Xq Interp MergeBounds Interp_proofs.
Import ListNotations.
Open Scope Q_scope.

(* ---- the element-wise operators ---------------------------------------------------------------- *)
Definition xmax_spec (a b m : Xq) : Prop :=      (* m is the larger of a and b (no NaN) *)
  xle a m = true /\ xle b m = true /\ (xsame m a \/ xsame m b).
Definition xmin_spec (a b m : Xq) : Prop :=
  xle m a = true /\ xle m b = true /\ (xsame m a \/ xsame m b).

Lemma Qle_bool_refl q : Qle_bool q q = true.
Proof. apply Qle_bool_iff. lra. Qed.

Lemma npmax_is_max a b : is_nan a = false -> is_nan b = false -> xmax_spec a b (npmax a b).
Proof.
  unfold xmax_spec, npmax. intros Ha Hb. rewrite Ha, Hb.
  destruct a as [| |x|], b as [| |y|]; cbn in *; try discriminate;
    repeat split; auto using Qle_bool_refl; try (left; reflexivity); try (right; reflexivity);
    try (destruct (Qlt_bool x y) eqn:E; cbn;
         [apply Qlt_bool_iff in E|apply Qlt_bool_false in E];
         repeat split; try (apply Qle_bool_iff; lra); try (left; reflexivity); try (right; reflexivity)).
Qed.

Lemma npmin_is_min a b : is_nan a = false -> is_nan b = false -> xmin_spec a b (npmin a b).
Proof.
  unfold xmin_spec, npmin. intros Ha Hb. rewrite Ha, Hb.
  destruct a as [| |x|], b as [| |y|]; cbn in *; try discriminate;
    repeat split; auto using Qle_bool_refl; try (left; reflexivity); try (right; reflexivity);
    try (destruct (Qlt_bool y x) eqn:E; cbn;
         [apply Qlt_bool_iff in E|apply Qlt_bool_false in E];
         repeat split; try (apply Qle_bool_iff; lra); try (left; reflexivity); try (right; reflexivity)).
Qed.

Lemma pymax_npmax a b : is_nan a = false -> is_nan b = false -> pymax a b = npmax a b.
Proof. unfold pymax, npmax. intros -> ->. reflexivity. Qed.
Lemma pymin_npmin a b : is_nan a = false -> is_nan b = false -> pymin a b = npmin a b.
Proof. unfold pymin, npmin. intros -> ->. reflexivity. Qed.

Lemma npmax_comm a b : xsame (npmax a b) (npmax b a).
Proof.
  unfold npmax. destruct a as [| |x|], b as [| |y|]; cbn; auto; try reflexivity.
  destruct (Qlt_bool x y) eqn:E1, (Qlt_bool y x) eqn:E2; cbn; try reflexivity.
  - apply Qlt_bool_iff in E1, E2. lra.
  - apply Qlt_bool_false in E1, E2. lra.
Qed.

Lemma npmin_comm a b : xsame (npmin a b) (npmin b a).
Proof.
  unfold npmin. destruct a as [| |x|], b as [| |y|]; cbn; auto; try reflexivity.
  destruct (Qlt_bool x y) eqn:E1, (Qlt_bool y x) eqn:E2; cbn; try reflexivity.
  - apply Qlt_bool_iff in E1, E2. lra.
  - apply Qlt_bool_false in E1, E2. lra.
Qed.

(* ---- broadcasting accessors ------------------------------------------------------------------ *)
Definition bget (b : bnd) (i j : nat) : Xq :=
  match b with
  | BNum x => x
  | BVec v => nth j v XNaN
  | BTs _ vals => nth i vals XNaN
  | BTs2 _ rows => nth j (nth i rows []) XNaN
  end.

Definition in_shape (b : bnd) (i j : nat) : Prop :=
  match b with
  | BNum _ => True
  | BVec v => (j < length v)%nat
  | BTs _ vals => (i < length vals)%nat
  | BTs2 _ rows => (i < length rows)%nat /\ (j < length (nth i rows []))%nat
  end.

Lemma map2_length {A B C} (f : A -> B -> C) : forall l1 l2, length l1 = length l2 ->
  length (map2 f l1 l2) = length l1.
Proof. induction l1; intros [|b l2] H; cbn in *; try discriminate; auto. Qed.

Lemma map2_nth {A B C} (f : A -> B -> C) da db dc : forall l1 l2 i,
  (i < length l1)%nat -> (i < length l2)%nat ->
  nth i (map2 f l1 l2) dc = f (nth i l1 da) (nth i l2 db).
Proof.
  induction l1 as [|a l1 IH]; intros [|b l2] i H1 H2; cbn in *; try lia.
  destruct i; auto. apply IH; lia.
Qed.

Lemma map2_length_min {A B C} (f : A -> B -> C) : forall l1 l2,
  length (map2 f l1 l2) = Nat.min (length l1) (length l2).
Proof. induction l1; intros [|b l2]; cbn; auto. Qed.

Lemma nth_map_const {A B} (x : B) (d : B) : forall (l : list A) i, (i < length l)%nat ->
  nth i (map (fun _ => x) l) d = x.
Proof. induction l as [|a l IH]; intros i H; cbn in *; [lia|]. destruct i; auto. apply IH. lia. Qed.

(* which operator the code applies: Python max/min for two scalars, numpy otherwise *)
Definition both_num (a b : bnd) : bool :=
  match a, b with BNum _, BNum _ => true | _, _ => false end.

(* value of a (possibly smaller-kinded) side at a position of the result *)
Definition bcast (small : bnd) (i j : nat) : Xq := bget small i j.

(* one side: after upcasting, merge_side is the element-wise operator at every position of the
   result, reading each operand with broadcasting *)
Lemma same_shape2_spec r s : same_shape2 r s = true ->
  length r = length s /\ forall i, (i < length r)%nat -> length (nth i r []) = length (nth i s []).
Proof.
  unfold same_shape2. intros H. apply andb_true_iff in H. destruct H as (Hl & Hf).
  apply Nat.eqb_eq in Hl. split; auto.
  revert s Hl Hf. induction r as [|x r IH]; intros [|y s] Hl Hf i Hi; cbn in *; try lia.
  apply andb_true_iff in Hf. destruct Hf as (Hxy & Hf). apply Nat.eqb_eq in Hxy.
  destruct i; auto. apply IH; auto; lia.
Qed.

Lemma merge_side_pointwise f g a b m :
  merge_side f g a b = Some m ->
  forall i j, in_shape m i j ->
    in_shape a i j /\ in_shape b i j /\
    bget m i j = (if both_num a b then g else f) (bget a i j) (bget b i j).
Proof.
  intros H i j Hs.
  destruct a as [x|v|t v|t r], b as [y|w|u w|u s]; cbn in H; try discriminate.
  - injection H as <-. cbn. auto.
  - destruct (Nat.eqb (length v) (length w)) eqn:E; [|discriminate]. injection H as <-.
    apply Nat.eqb_eq in E. cbn in *. rewrite map2_length in Hs by auto.
    repeat split; try lia. apply map2_nth; lia.
  - destruct (_ && _) eqn:E; [|discriminate]. injection H as <-.
    apply andb_true_iff in E. destruct E as (E & E3). apply Nat.eqb_eq in E3.
    cbn in *. rewrite map2_length in Hs by auto.
    repeat split; try lia. apply map2_nth; lia.
  - destruct (_ && _) eqn:E; [|discriminate]. injection H as <-.
    apply andb_true_iff in E. destruct E as (E & E3).
    destruct (same_shape2_spec _ _ E3) as (Hl & Hr).
    cbn in *. destruct Hs as (Hi & Hj). rewrite map2_length in Hi by auto.
    rewrite (map2_nth (map2 f) [] [] [] r s i) in Hj |- * by lia.
    specialize (Hr i Hi). rewrite map2_length in Hj by auto.
    repeat split; try lia. apply map2_nth; lia.
Qed.

(* upcasting keeps the values: reading the upcast operand at a position of the larger operand
   gives the broadcast value of the original *)
Lemma upcast_bget v1 v2 v1' : upcast v1 v2 = Some v1' ->
  forall i j, in_shape v2 i j ->
    (both_num v1 v2 = both_num v1' v2 \/ True) /\
    match v1, v2 with
    | BNum x, BTs _ _ | BNum x, BTs2 _ _ | BNum x, BVec _ => bget v1' i j = x /\ in_shape v1' i j
    | BVec v, BTs2 _ _ => bget v1' i j = nth j v XNaN /\ in_shape v1' i j
    | _, _ => v1' = v1
    end.
Proof.
  intros H i j Hs. split; [auto|].
  destruct v1 as [x|v|t v|t r], v2 as [y|w|u w|u s]; cbn in H; try (injection H as <-; reflexivity);
    try discriminate.
  - injection H as <-. cbn in *. split; [apply nth_map_const; auto|now rewrite map_length].
  - injection H as <-. cbn in *. split; [apply nth_map_const; auto|now rewrite map_length].
  - injection H as <-. cbn in *. destruct Hs as (Hi & Hj).
    assert (Hrow : nth i (map (map (fun _ : Xq => x)) s) [] = map (fun _ => x) (nth i s [])).
    { change (@nil Xq) with (map (fun _ : Xq => x) []) at 1. apply map_nth. }
    rewrite Hrow. split; [apply nth_map_const; auto|]. rewrite !map_length. auto.
  - destruct (_ && _) eqn:E; [|discriminate]. injection H as <-.
    apply andb_true_iff in E. destruct E as (E & _). rewrite forallb_forall in E.
    cbn in *. destruct Hs as (Hi & Hj).
    rewrite (nth_map_const v [] s i Hi). split; auto. rewrite map_length. split; auto.
    specialize (E (nth i s []) (nth_In _ _ Hi)). apply Nat.eqb_eq in E. lia.
Qed.

Lemma lower_pointwise f g a b a1 b1 m :
  upcast a b = Some a1 -> upcast b a1 = Some b1 -> merge_side f g a1 b1 = Some m ->
  forall i j, in_shape m i j ->
    bget m i j = (if both_num a b then g else f) (bget a i j) (bget b i j).
Proof.
  intros H1 H2 H3 i j Hs.
  destruct (merge_side_pointwise _ _ _ _ _ H3 i j Hs) as (Hs1 & Hs2 & Heq).
  rewrite Heq. clear Heq.
  destruct a as [x|v|t v|t r], b as [y|w|u w|u s]; cbn in H1;
    try discriminate;
    try (destruct (forallb _ _ && _) eqn:E1; [|discriminate]);
    injection H1 as <-; cbn in H2;
    try discriminate;
    try (destruct (forallb _ _ && _) eqn:E2; [|discriminate]);
    try (injection H2 as <-);
    try reflexivity.
  (* remaining: the cases where one operand was upcast *)
  all: cbn [both_num bget] in *.
  all: try (rewrite nth_map_const by (cbn in *; rewrite ?map_length in *; lia); reflexivity).
  - (* BNum, BTs2 *)
    destruct Hs2 as (Hi & Hj).
    assert (Hrow : nth i (map (map (fun _ : Xq => x)) s) [] = map (fun _ => x) (nth i s [])).
    { change (@nil Xq) with (map (fun _ : Xq => x) []) at 1. apply map_nth. }
    rewrite Hrow. rewrite nth_map_const; [reflexivity|auto].
  - (* BTs2, BNum *)
    destruct Hs1 as (Hi & Hj).
    assert (Hrow : nth i (map (map (fun _ : Xq => y)) r) [] = map (fun _ => y) (nth i r [])).
    { change (@nil Xq) with (map (fun _ : Xq => y) []) at 1. apply map_nth. }
    rewrite Hrow. rewrite nth_map_const; [reflexivity|auto].
Qed.

(* ---- one side of merge_bounds as a function ---------------------------------------------------- *)
Definition side (f g : Xq -> Xq -> Xq) (a b : bnd) : option bnd :=
  match upcast a b with
  | None => None
  | Some a1 => match upcast b a1 with
               | None => None
               | Some b1 => merge_side f g a1 b1
               end
  end.

Lemma merge_bounds_sides a A b B :
  merge_bounds a A b B =
  match side npmax pymax (norm1 a) (norm1 b), side npmin pymin (norm1 A) (norm1 B) with
  | Some m, Some M => MOk m M
  | _, _ => MErr
  end.
Proof.
  unfold merge_bounds, side.
  destruct (upcast (norm1 a) (norm1 b)) as [a1|]; [|reflexivity].
  destruct (upcast (norm1 b) a1) as [b1|]; [|reflexivity].
  destruct (upcast (norm1 A) (norm1 B)) as [A1|]; [|destruct (merge_side _ _ a1 b1); reflexivity].
  destruct (upcast (norm1 B) A1) as [B1|]; [|destruct (merge_side _ _ a1 b1); reflexivity].
  reflexivity.
Qed.

Theorem side_pointwise f g a b m :
  side f g a b = Some m ->
  forall i j, in_shape m i j ->
    bget m i j = (if both_num a b then g else f) (bget a i j) (bget b i j).
Proof.
  unfold side. intros H.
  destruct (upcast a b) as [a1|] eqn:E1; [|discriminate].
  destruct (upcast b a1) as [b1|] eqn:E2; [|discriminate].
  eapply lower_pointwise; eauto.
Qed.

Theorem merge_pointwise a A b B lo hi :
  merge_bounds a A b B = MOk lo hi ->
  (forall i j, in_shape lo i j ->
     bget lo i j = (if both_num (norm1 a) (norm1 b) then pymax else npmax)
                     (bget (norm1 a) i j) (bget (norm1 b) i j)) /\
  (forall i j, in_shape hi i j ->
     bget hi i j = (if both_num (norm1 A) (norm1 B) then pymin else npmin)
                     (bget (norm1 A) i j) (bget (norm1 B) i j)).
Proof.
  rewrite merge_bounds_sides.
  destruct (side npmax pymax (norm1 a) (norm1 b)) as [m|] eqn:E1; [|discriminate].
  destruct (side npmin pymin (norm1 A) (norm1 B)) as [M|] eqn:E2; [|discriminate].
  intros [= <- <-]. split; intros i j Hs; eapply side_pointwise; eauto.
Qed.

(* ---- rejection is symmetric ------------------------------------------------------------------ *)
Lemma list_eqb_sym a : forall b, list_eqb a b = list_eqb b a.
Proof.
  induction a as [|x a IH]; intros [|y b]; cbn; auto.
  rewrite IH. f_equal. destruct (Qeq_bool x y) eqn:E1, (Qeq_bool y x) eqn:E2; auto.
  - apply Qeq_bool_iff in E1. apply Qeq_bool_false in E2. exfalso. apply E2. lra.
  - apply Qeq_bool_iff in E2. apply Qeq_bool_false in E1. exfalso. apply E1. lra.
Qed.

Lemma same_shape2_sym r : forall s, same_shape2 r s = same_shape2 s r.
Proof.
  unfold same_shape2. induction r as [|x r IH]; intros [|y s]; cbn; auto.
  specialize (IH s). rewrite (Nat.eqb_sym (length x) (length y)).
  destruct (Nat.eqb (length r) (length s)) eqn:E1, (Nat.eqb (length s) (length r)) eqn:E2; cbn in *.
  - rewrite IH. reflexivity.
  - apply Nat.eqb_eq in E1. apply Nat.eqb_neq in E2. lia.
  - apply Nat.eqb_eq in E2. apply Nat.eqb_neq in E1. lia.
  - reflexivity.
Qed.

Lemma forallb_len_const (v : list Xq) s :
  forallb (fun r => Nat.eqb (length r) (length v)) s = true ->
  same_shape2 (map (fun _ => v) s) s = true /\ same_shape2 s (map (fun _ => v) s) = true.
Proof.
  intros H. assert (same_shape2 s (map (fun _ => v) s) = true) as H2.
  { unfold same_shape2. rewrite map_length, Nat.eqb_refl. cbn.
    induction s as [|x s IH]; cbn in *; auto.
    apply andb_true_iff in H. destruct H as (Hx & Hs). rewrite Hx. cbn. auto. }
  split; auto. now rewrite same_shape2_sym.
Qed.

Theorem side_reject_sym f g a b : side f g a b = None <-> side f g b a = None.
Proof.
  unfold side.
  destruct a as [x|v|t v|t r], b as [y|w|u w|u s]; cbn;
    rewrite ?map_length, ?Nat.eqb_refl, ?(Nat.eqb_sym (length w) (length v)),
            ?(Nat.eqb_sym (length u) (length t)), ?(list_eqb_sym u t),
            ?(same_shape2_sym s r); cbn;
    try tauto;
    try (destruct (_ && _); cbn; try tauto; split; congruence).
  all: try (destruct (forallb _ _ && _) eqn:E; cbn; [|tauto]).
  all: try (rewrite ?map_length, ?Nat.eqb_refl; cbn).
  all: try (split; intros; discriminate).
  all: try (rewrite (same_shape2_sym s _)).
  all: try (rewrite (same_shape2_sym r _)).
  all: try (destruct (list_eqb _ _ && _); split; congruence).
  all: try (destruct (_ =? _)%nat; split; congruence).
Qed.
