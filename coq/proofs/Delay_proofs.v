From Coq Require Import ZArith QArith List Bool Arith Lia Lqa.
From RT Require Import Xq Interp Expr Transcribe Delay Interp_proofs Transcribe_proofs Accessors_proofs.
Import ListNotations.
Open Scope Q_scope.

Lemma delay_nominal_nonzero P m e : ~ delay_nominal P m e == 0.
Proof.
  unfold delay_nominal. destruct (Qeq_bool _ 0) eqn:E.
  - intros H. discriminate H.
  - apply Qeq_bool_false in E. exact E.
Qed.

(* one row per collocation time *)
Theorem delay_rows_length P X m d : length (delay_rows P X m d) = nt P.
Proof. unfold delay_rows. now rewrite map_length, seq_length. Qed.

(* what the delayed expression is interpolated over *)
Definition out_times (P : problem) (m : nat) (d : delay) : list Q :=
  if history_complete P m d then hist_times P m ++ times P else times P.
Definition out_values (P : problem) (X : list Q) (m : nat) (d : delay) : list Q :=
  let horizon := map (delay_at P X m (d_expr d)) (seq 0 (nt P)) in
  if history_complete P m d
  then map (fun o => match o with Some v => v | None => 0 end) (delay_history P m (d_expr d)) ++ horizon
  else horizon.

(* row i vanishes exactly when y(t_i) equals the delayed expression interpolated at t_i - tau_i *)
Theorem delay_row_zero_iff P X m d i : (i < nt P)%nat ->
  (nth i (delay_rows P X m d) 0 == 0 <->
   cval P X m (d_in d) i ==
   interp1d (nth (d_in d) (vmode P) Linear) (out_times P m d) (out_values P X m d)
            (qnth (times P) i - qnth (d_tau d) i)).
Proof.
  intros Hi. unfold delay_rows, out_times, out_values.
  rewrite (nth_map_in _ (seq 0 (nt P)) i 0%nat 0) by (rewrite seq_length; lia).
  rewrite seq_nth by lia. cbn [Nat.add].
  pose proof (delay_nominal_nonzero P m (d_expr d)) as Hn.
  set (a := cval P X m (d_in d) i).
  set (b := interp1d _ _ _ _).
  set (n := delay_nominal P m (d_expr d)) in *.
  split; intros H.
  - assert ((a - b) / n * n == a - b) by (field; exact Hn). 
    assert ((a - b) / n * n == 0) by (rewrite H; ring). lra.
  - assert (a - b == 0) as -> by lra. unfold Qdiv. ring.
Qed.

(* with an incomplete (or absent) history the expression is interpolated over the horizon only:
   before t0 the t0 value is extrapolated backwards, on a collocation time it is the value there *)
Lemma horizon_wfk P X m e : incr (times P) -> times P <> [] ->
  wfk (times P) (map (delay_at P X m e) (seq 0 (nt P))).
Proof. intros H1 H2. repeat split; auto. now rewrite map_length, seq_length. Qed.

Theorem incomplete_history_extrapolates P X m d t :
  history_complete P m d = false -> incr (times P) -> times P <> [] -> t <= t0 P ->
  interp1d (nth (d_in d) (vmode P) Linear) (out_times P m d) (out_values P X m d) t ==
  delay_at P X m (d_expr d) 0.
Proof.
  intros Hc Hinc Hne Ht. unfold out_times, out_values. rewrite Hc.
  unfold interp1d. unfold t0, qnth in Ht.
  assert (Hhd : hdq (times P) = nth 0 (times P) 0) by apply hdq_nth.
  assert (Qle_bool t (hdq (times P)) = true) as -> by (apply Qle_bool_iff; rewrite Hhd; exact Ht).
  unfold hdq, nt. destruct (times P) as [|a l]; [congruence|]. cbn. reflexivity.
Qed.

Theorem zero_delay_is_identity P X m d i :
  history_complete P m d = false -> incr (times P) -> (i < nt P)%nat ->
  qnth (d_tau d) i == 0 ->
  (nth i (delay_rows P X m d) 0 == 0 <-> cval P X m (d_in d) i == delay_at P X m (d_expr d) i).
Proof.
  intros Hc Hinc Hi Htau.
  assert (Hne : times P <> []) by (unfold nt in Hi; destruct (times P); cbn in *; [lia|discriminate]).
  rewrite (delay_row_zero_iff P X m d i Hi).
  unfold out_times, out_values. rewrite Hc.
  assert (E : interp1d (nth (d_in d) (vmode P) Linear) (times P)
                       (map (delay_at P X m (d_expr d)) (seq 0 (nt P)))
                       (qnth (times P) i - qnth (d_tau d) i) == delay_at P X m (d_expr d) i).
  { rewrite (interp1d_knot _ (times P) _ i); auto.
    - rewrite (nth_map_in _ (seq 0 (nt P)) i 0%nat 0) by (rewrite seq_length; lia).
      now rewrite seq_nth by lia.
    - now apply horizon_wfk.
    - unfold qnth in *. lra. }
  rewrite E. reflexivity.
Qed.
